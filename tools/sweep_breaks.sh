#!/bin/bash
# Runs every own mutant (mutants/<ID>-*.patch) and every kept seeded change (seeded/<ID>-s*/patch.diff) of the
# given properties (default: all) against that property's quick check, one worker per property, and writes
# /verif/sweeps/<ID>.tsv:  kind <TAB> name <TAB> verdict <TAB> first violation key
# Nothing is applied to /repo: `check --mutant` patches its own scratch copy.
cd /verif || exit 1
mkdir -p sweeps
ids=("$@")
if [ ${#ids[@]} -eq 0 ]; then
  ids=($(python3 -c "import json;print(' '.join(sorted(json.load(open('checks.json')))))"))
fi
one() {
  id=$1
  out=sweeps/$id.tsv
  : > $out.tmp
  for p in mutants/$id-*.patch seeded/$id-s*/patch.diff; do
    [ -f "$p" ] || continue
    case $p in mutants/*) kind=mutant; name=$(basename $p .patch);; *) kind=seed; name=$(basename $(dirname $p));; esac
    log=$(./check $id --no-evidence --mutant $p 2>&1)
    verdict=$(echo "$log" | grep -E -o "^(VIOLATION|HELD|INCONCLUSIVE)" | head -1)
    key=$(echo "$log" | grep -o "key=[^ ]*" | grep -v "key=.*known" | head -1)
    if echo "$log" | grep -q "^VIOLATION"; then verdict=VIOLATION; key=$(echo "$log" | grep -A1 "^VIOLATION" | grep -o "key=[^ ]*" | head -1); fi
    printf "%s\t%s\t%s\t%s\n" "$kind" "$name" "${verdict:-NONE}" "$key" >> $out.tmp
  done
  mv $out.tmp $out
  echo "swept $id: $(grep -c VIOLATION $out)/$(wc -l < $out) caught"
}
export -f one
printf "%s\n" "${ids[@]}" | xargs -P ${SWEEP_JOBS:-5} -I{} bash -c 'one {}'
