#!/bin/bash
# Runs every own mutant (mutants/<ID>-*.patch) and every kept seeded change (seeded/<ID>-s*/patch.diff) of the
# given properties (default: all) against that property's quick check, one worker per property, and writes
# /verif/sweeps/<ID>.tsv:  kind <TAB> name <TAB> verdict <TAB> first violation key
# Nothing is applied to /repo: `check --mutant` patches its own scratch copy.
cd "$(dirname "$0")/.." || exit 1
mkdir -p sweeps
ids=("$@")
if [ ${#ids[@]} -eq 0 ]; then
  ids=($(python3 -c "import json;print(' '.join(sorted(json.load(open('checks.json')))))"))
fi
one() {
  id=$1
  out=sweeps/$id.tsv
  : > $out.tmp
  for p in mutants/$id-*.patch seeded/$id-s*/patch.diff; do
    [ -f "$p" ] || continue
    case $p in mutants/*) kind=mutant; name=$(basename $p .patch);; *) kind=seed; name=$(basename $(dirname $p));; esac
    log=$(./check $id --no-evidence --mutant $p 2>&1)
    verdict=$(echo "$log" | grep -E -o "^(VIOLATION|HELD|INCONCLUSIVE)" | head -1)
    key=$(echo "$log" | grep -o "key=[^ ]*" | grep -v "key=.*known" | head -1)
    if echo "$log" | grep -q "^VIOLATION"; then verdict=VIOLATION; key=$(echo "$log" | grep -A1 "^VIOLATION" | grep -o "key=[^ ]*" | head -1); fi
    by=""
    printf "%s\t%s\t%s\t%s\t%s\n" "$kind" "$name" "${verdict:-NONE}" "$key" "$by" >> $out.tmp
  done
  mv $out.tmp $out
  echo "swept $id: $(grep -c VIOLATION $out)/$(wc -l < $out) caught"
}
export -f one
printf "%s\n" "${ids[@]}" | xargs -P ${SWEEP_JOBS:-5} -I{} bash -c 'one {}'
# second pass, sequential (two checks of one property must not run at the same time): a seeded change that its own
# property's check does not catch may fall under another property's workload; meta.json names that check
python3 - "${ids[@]}" <<'PY'
import json, re, subprocess, sys
for pid in sys.argv[1:]:
    path = "sweeps/%s.tsv" % pid
    rows = [l.rstrip("\n").split("\t") for l in open(path)]
    changed = False
    for r in rows:
        r += [""] * (5 - len(r))
        if r[0] != "seed" or r[2] == "VIOLATION":
            continue
        try:
            m = re.match(r"(C\d\d) ", json.load(open("seeded/%s/meta.json" % r[1])).get("check_result", ""))
        except Exception:
            m = None
        if not m or m.group(1) == pid:
            continue
        out = subprocess.run(["./check", m.group(1), "--no-evidence", "--mutant", "seeded/%s/patch.diff" % r[1]], capture_output=True, text=True).stdout
        if re.search(r"^VIOLATION", out, re.M):
            k = re.search(r"key=\S+", out)
            r[3], r[4] = (k.group(0) if k else ""), m.group(1)
            changed = True
            print("swept %s: %s caught by %s" % (pid, r[1], m.group(1)))
    if changed:
        open(path, "w").write("".join("\t".join(r) + "\n" for r in rows))
PY
