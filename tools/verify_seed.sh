#!/bin/bash
# verify_seed.sh <property> <k>: confirms a sub-agent's seeded change in its scratch worktree:
#   suite passes with patch; demo FAILS with patch; demo PASSES without. Prints a one-line verdict.
id=$1; k=$2; wt=/tmp/wt/$id; sd=/tmp/wt/seeds-$id/$k
export GOFLAGS=-mod=mod GOPROXY=off GOTOOLCHAIN=local GONOSUMDB='*'
GO=/opt/veriftools/go1.26.8/bin/go
mkdir -p /tmp/wt/seeds-$id; [ -d $wt/SEEDS ] && { rm -rf /tmp/wt/seeds-$id; mv $wt/SEEDS /tmp/wt/seeds-$id; }
cd $wt || exit 2
git checkout -q -- . ; git clean -fdq
[ -f $sd/patch.diff ] || { echo "$id/$k: NO PATCH"; exit 2; }
git apply $sd/patch.diff || { echo "$id/$k: PATCH DOES NOT APPLY"; exit 2; }
$GO build ./... || { echo "$id/$k: DOES NOT BUILD"; git checkout -q -- .; exit 2; }
suite=$($GO test -vet=off -count=1 -timeout 25m ./... 2>&1 | grep -E "^(FAIL|---|panic)" | head -5)
# place demo
demo=$(ls $sd/demo*_test.go 2>/dev/null | head -1)
if [ -n "$demo" ]; then
  dir=$(grep -m1 -o "place in: *[^ ]*" $demo | sed 's/place in: *//'); dir=${dir:-mcp/}
  cp $demo $wt/$dir/zz_seed_demo_test.go
  names=$(grep -o "^func Test[A-Za-z0-9_]*" $demo | sed 's/func //' | paste -sd'|')
  with=$($GO test -vet=off -count=1 -timeout 5m -run "^($names)\$" ./$dir 2>&1 | tail -3 | tr '\n' ' ')
  git checkout -q -- . ; 
  without=$($GO test -vet=off -count=1 -timeout 5m -run "^($names)\$" ./$dir 2>&1 | tail -3 | tr '\n' ' ')
  rm -f $wt/$dir/zz_seed_demo_test.go
else
  with="(no go test demo)"; without="(no go test demo)"; git checkout -q -- .
fi
git checkout -q -- . ; git clean -fdq
echo "$id/$k: suite=[${suite:-pass}] demo-with-patch=[$with] demo-without=[$without]"
