#!/usr/bin/env python3
"""Rewrites the block between <!-- BEGIN SWEEP --> and <!-- END SWEEP --> in DESIGN.md from sweeps/*.tsv and seeded/*/meta.json."""
import glob, json, os, re
V = "/verif"
rows = []
for f in sorted(glob.glob(V + "/sweeps/C*.tsv")):
    pid = os.path.basename(f)[:-4]
    for line in open(f):
        kind, name, verdict, key, by, seed = (line.rstrip("\n").split("\t") + ["", "", "", "", "", ""])[:6]
        needs = ""
        if kind == "seed":
            m = os.path.join(V, "seeded", name, "meta.json")
            if os.path.exists(m):
                meta = json.load(open(m))
                needs = meta.get("needs_to_manifest", "")
                if meta.get("note", "").startswith("superseded") and verdict != "VIOLATION":
                    verdict = "SUPERSEDED"  # a later repair removed the code path the change lived in (meta.json says which)
        rows.append((pid, kind, name, verdict, key.replace("key=", ""), needs, by, seed))
out = ["| property | kind | change | result of `check <property> --mutant` | first violation key | needs, to manifest |", "|---|---|---|---|---|---|"]
tot = {}
other = 0
for pid, kind, name, verdict, key, needs, by, seed in rows:
    res = {"VIOLATION": "caught", "HELD": "not caught", "INCONCLUSIVE": "inconclusive", "SUPERSEDED": "no longer a break (superseded by a repair, see its meta.json)"}.get(verdict, verdict)
    if verdict == "SUPERSEDED":
        out.append("| %s | %s | %s | %s | `%s` | %s |" % (pid, kind, name, res, key, needs))
        continue
    if by:
        res = "not by %s; caught by `check %s`" % (pid, by)
        other += 1
    if seed:
        res += " (at VERIF_SEED=%s, not at the default seed)" % seed
    out.append("| %s | %s | %s | %s | `%s` | %s |" % (pid, kind, name, res, key, needs))
    t = tot.setdefault(kind, [0, 0]); t[1] += 1; t[0] += verdict == "VIOLATION"
summary = "; ".join("%s: %d of %d caught by the property's own check" % (k, v[0], v[1]) for k, v in sorted(tot.items())) + "; %d further seeds caught by the check of the property whose workload they fall under" % other
block = "<!-- BEGIN SWEEP -->\n" + summary + "\n\n" + "\n".join(out) + "\n<!-- END SWEEP -->"
p = V + "/DESIGN.md"
s = open(p).read()
s = re.sub(r"<!-- BEGIN SWEEP -->.*?<!-- END SWEEP -->", lambda m: block, s, flags=re.S)
open(p, "w").write(s)
print(summary)
