#!/bin/bash
# run_thorough.sh <ID>...: runs the thorough tier of each given property sequentially; one line per property in sweeps/thorough.log
cd "$(dirname "$0")/.." || exit 1
mkdir -p sweeps
for id in "$@"; do
  t0=$(date +%s)
  out=$(./check $id --tier thorough 2>&1 | grep -E "^(VIOLATION|HELD|INCONCLUSIVE|KNOWN-FINDING)|key=" | head -6 | cut -c1-400)
  echo "== $id ($(( $(date +%s) - t0 )) s) $(date -u +%H:%M)" >> sweeps/thorough.log
  echo "$out" >> sweeps/thorough.log
done
