#!/usr/bin/env python3
"""sweep_retry.py [ID...]: second chance for the rows of sweeps/<ID>.tsv that are not VIOLATION.

The sweep runs every change against one PRNG seed (1) of the quick tier, several checks at a time. A row that is
not caught there is tried again here, one check at a time: first at seed 1 (a loaded machine can make a run
INCONCLUSIVE), then at seeds 2 and 3 (the quick tier samples schedules; a change that needs a narrow window may fall
between the samples of one seed), then - for seeded changes whose meta.json names another property's check - with that
check. The row records what caught it: column 4 the key, column 5 the other property (if any), column 6 the seed.
Rows of changes that a later repair has superseded (meta.json note) are left alone."""
import json, os, re, subprocess, sys, glob
V = os.path.dirname(os.path.dirname(os.path.abspath(__file__)))
os.chdir(V)
ids = sys.argv[1:] or sorted(os.path.basename(f)[:-4] for f in glob.glob("sweeps/C*.tsv"))
def run(pid, patch, seed):
    env = dict(os.environ, VERIF_SEED=str(seed))
    out = subprocess.run(["./check", pid, "--no-evidence", "--mutant", patch], capture_output=True, text=True, env=env).stdout
    if re.search(r"^VIOLATION", out, re.M):
        m = re.search(r"^VIOLATION.*\n\s+(key=\S+)", out, re.M)
        return "VIOLATION", (m.group(1) if m else "")
    m = re.search(r"^(HELD|INCONCLUSIVE)", out, re.M)
    return (m.group(1) if m else "NONE"), ""
for pid in ids:
    path = "sweeps/%s.tsv" % pid
    rows = [(l.rstrip("\n").split("\t") + [""] * 6)[:6] for l in open(path)]
    for r in rows:
        kind, name, verdict = r[0], r[1], r[2]
        if verdict == "VIOLATION":
            continue
        patch = "mutants/%s.patch" % name if kind == "mutant" else "seeded/%s/patch.diff" % name
        if not os.path.exists(patch):
            continue
        other = None
        if kind == "seed":
            meta = json.load(open("seeded/%s/meta.json" % name))
            if meta.get("note", "").startswith("superseded"):
                continue
            m = re.match(r"(C\d\d) ", meta.get("check_result", ""))
            if m and m.group(1) != pid:
                other = m.group(1)
        tries = [(other, 1), (other, 2)] if other else [(pid, 1), (pid, 2), (pid, 3)]
        for p, seed in tries:
            v, key = run(p, patch, seed)
            if v == "VIOLATION":
                r[2], r[3], r[4], r[5] = ("VIOLATION" if p == pid else r[2]), key, (p if p != pid else ""), (str(seed) if seed != 1 else "")
                if p != pid:
                    r[2] = verdict if verdict in ("HELD", "INCONCLUSIVE", "NONE") else "HELD"
                print("retry %s: %s caught by %s at seed %d (%s)" % (pid, name, p, seed, key), flush=True)
                break
            r[2] = v
        else:
            print("retry %s: %s still %s" % (pid, name, r[2]), flush=True)
    open(path, "w").write("".join("\t".join(r).rstrip("\t") + "\n" for r in rows))
