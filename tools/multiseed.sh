#!/bin/bash
# multiseed.sh <first-seed> <last-seed> [ID...]: runs the quick tier of the given checks (default: all) at every
# VERIF_SEED in the range, MS_JOBS (default 4) properties at a time, and prints one line per run that is not a plain
# HELD (NOTE lines about abandoned cases included). Evidence is not written. For hunting false alarms.
cd "$(dirname "$0")/.." || exit 1
a=$1; b=$2; shift 2
ids=("$@")
if [ ${#ids[@]} -eq 0 ]; then
  ids=($(python3 -c "import json;print(' '.join(sorted(json.load(open('checks.json')))))"))
fi
one() {
  id=$1; a=$2; b=$3
  for s in $(seq $a $b); do
    out=$(VERIF_SEED=$s ./check $id --no-evidence 2>&1)
    echo "$out" | grep -E "^(VIOLATION|INCONCLUSIVE|NOTE)|^  key=" | sed "s/^/seed$s $id: /" | cut -c1-400
    echo "$out" | grep -qE "^HELD" || echo "seed$s $id: NOT HELD (rc?)"
  done
  echo "done $id seeds $a..$b"
}
export -f one
printf "%s\n" "${ids[@]}" | xargs -P ${MS_JOBS:-4} -I{} bash -c "one {} $a $b"
