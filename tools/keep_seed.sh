#!/bin/bash
# keep_seed.sh <property> <k> "<needs>" "<caught-by>" : copies a confirmed seed into /verif/seeded/<property>-s<k>/
# env KEEP_FROM=<worktree name, e.g. C01r2> KEEP_K=<k in that round> take the seed from a later round
id=$1; k=$2; needs=$3; caught=$4; src=${KEEP_FROM:-$id}; ksrc=${KEEP_K:-$k}; sd=/tmp/wt/seeds-$src/$ksrc; dst=/verif/seeded/$id-s$k
mkdir -p $dst; cp $sd/patch.diff $dst/; cp $sd/demo*_test.go $dst/ 2>/dev/null; cp $sd/README.md $dst/NOTES.md 2>/dev/null
verdict=$(grep "^$src/$ksrc:" /tmp/wt/verify-$src.log | tail -1)
python3 - "$id" "$k" "$needs" "$caught" "$verdict" > $dst/meta.json <<'PY'
import json,sys
id,k,needs,caught,verdict=sys.argv[1:6]
print(json.dumps({"property":id,"seed":int(k),"origin":"independent sub-agent given only the property text and a scratch worktree",
 "needs_to_manifest":needs,"confirmed_by":"tools/verify_seed.sh in the scratch worktree: suite with patch, demo with patch, demo without patch","verification":verdict,
 "check_result":caught},indent=1))
PY
echo kept $dst
