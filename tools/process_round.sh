#!/bin/bash
# process_round.sh <property> <worktree-name>: verifies the 3 seeds of a later red-team round in their scratch worktree
# and runs the property's quick check against each patch. Logs: /tmp/wt/verify-<wt>.log, /tmp/wt/check-<wt>.log
id=$1; src=$2
for k in 1 2 3; do bash /verif/tools/verify_seed.sh $src $k >> /tmp/wt/verify-$src.log 2>&1; done
cd /verif
for k in 1 2 3; do
  p=/tmp/wt/seeds-$src/$k/patch.diff
  [ -f $p ] || continue
  log=$(./check $id --no-evidence --mutant $p 2>&1)
  echo "== $src/$k: $(echo "$log" | grep -E '^(VIOLATION|HELD|INCONCLUSIVE)' | head -1 | cut -c1-120)" >> /tmp/wt/check-$src.log
  echo "$log" | grep -A1 "^VIOLATION" | grep "key=" | head -1 | cut -c1-300 >> /tmp/wt/check-$src.log
done
echo "processed $src"; cat /tmp/wt/verify-$src.log | cut -c1-250; cat /tmp/wt/check-$src.log
