#!/usr/bin/env python3
"""Regenerates MANIFEST.json from checks.json (single source of truth for what is claimed)."""
import json, os
V = os.path.dirname(os.path.abspath(__file__))
checks = json.load(open(os.path.join(V, "checks.json")))
props = [json.loads(l) for l in open(os.path.join(V, "properties.jsonl")) if l.strip()]
hooks_commits = [l.strip() for l in open(os.path.join(V, "hook_commits.txt"))] if os.path.exists(os.path.join(V, "hook_commits.txt")) else []
m = {
 "version": 1,
 "setup_cmd": "./check --warm",
 "hooks": {
  "guard": "verif",
  "enable": "go test -tags verif -race on a scratch copy of /repo's working tree with /verif/harness injected as internal/verifharness (new files only)",
  "baseline_off_cmd": "cd /repo && GOFLAGS=-mod=mod GOPROXY=off go test -vet=off -count=1 -timeout 25m ./...",
  "source_commits": hooks_commits,
  "add_only": True,
 },
 "engines": [{"name": "check", "path": "/verif/check", "serves_properties": sorted(checks),
              "kind_free_text": "python orchestrator + Go harness (testing/synctest virtual time, boundary monitors, reference-model oracles, Go race detector, porcupine)"}],
 "checks": [],
 "not_applicable": [],
 "notes": "Every check: exit 0 held, exit 1 + VIOLATION line, exit 2 + INCONCLUSIVE line. VERIF_SEED selects the PRNG seed; cases are pure functions of (seed, index). Known findings: /verif/known_findings.txt.",
}
for p in props:
    pid = p["id"]
    if pid in checks:
        c = checks[pid]
        m["checks"].append({
            "property_id": pid,
            "quick_cmd": "./check %s --tier quick" % pid,
            "thorough_cmd": "./check %s --tier thorough" % pid,
            "evidence_file": "/verif/evidence/%s.json" % pid,
            "replay_cmd_template": "./check %s --replay {path}" % pid,
            "engine": "check",
            "level_claimed": {"category": c.get("level", "exploration"), "text": c["level_text"], "design_ref": c.get("design_ref", "DESIGN.md §3 " + pid)},
            "level_note": c["level_note"],
            "technique": c["technique"],
        })
    else:
        m["not_applicable"].append({"property_id": pid, "reason": "not claimed yet: the runtime monitor for this property has not been built/validated in this tree (see DESIGN.md §3 for the plan)"})
json.dump(m, open(os.path.join(V, "MANIFEST.json"), "w"), indent=1)
print("claimed:", " ".join(sorted(checks)))
