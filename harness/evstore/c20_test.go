//go:build verif

// C20 — MemoryEventStore replays exactly what was appended, or reports the purge.
//
// Monitors sit at the public EventStore API only.  Sequential histories are
// checked against a reference append-log per stream (full probe of every
// stream after every operation); concurrent histories are recorded with
// call/return stamps from one logical clock and checked with porcupine
// (eviction-free) or with an Elle-style structural checker (with eviction).
package evstore

import (
	"bytes"
	"context"
	"errors"
	"fmt"
	"math"
	"runtime"
	"sort"
	"strings"
	"sync"
	"sync/atomic"
	"testing"
	"time"

	"github.com/anishathalye/porcupine"
	"github.com/modelcontextprotocol/go-sdk/internal/verifharness/vh"
	"github.com/modelcontextprotocol/go-sdk/mcp"
)

type seqOp struct {
	Op     string `json:"op"`
	Sess   string `json:"sess,omitempty"`
	Stream string `json:"stream,omitempty"`
	Size   int    `json:"size,omitempty"`
	Index  int    `json:"index,omitempty"`
	Max    int    `json:"max,omitempty"`
}

type streamKey struct{ sess, stream string }

type refStream struct {
	log   [][]byte
	first int // first retained index as last observed (monotone)
}

// afterAll collects an After iterator.
func afterAll(s *mcp.MemoryEventStore, sess, stream string, idx int) (out [][]byte, err error) {
	for d, e := range s.After(context.Background(), sess, stream, idx) {
		if e != nil {
			return out, e
		}
		out = append(out, d)
	}
	return out, nil
}

func eqSlices(a, b [][]byte) bool {
	if len(a) != len(b) {
		return false
	}
	for i := range a {
		if string(a[i]) != string(b[i]) {
			return false
		}
	}
	return true
}

func payload(tag string, n int, size int) []byte {
	s := fmt.Sprintf("%s#%d|", tag, n)
	if size <= len(s) {
		// small payloads: still distinguishable where possible
		return []byte(s[:size])
	}
	return []byte(s + strings.Repeat("x", size-len(s)))
}

func TestVerifC20(t *testing.T) {
	nSeq := vh.Pick(3000, 200000)
	nConc := vh.Pick(400, 30000)
	cfg := vh.Config{
		Property: "C20",
		Cases:    nSeq + nConc,
		Rule: "case i<nSeq: PRNG history of Open/Append/After/SetMaxBytes/SessionClosed over <=3 sessions x <=3 streams, payload sizes 0..limit+5, limits 1..96, " +
			"full probe of every stream against the reference log after every op; every 10th of them is a long history (80..500 small appends to 1-2 streams, so that one stream loses dozens of items to eviction while holding dozens more, limit shrunk and grown on the way) probed every 16 ops; case i>=nSeq: 2-6 goroutines with unique payloads, call/return stamped by one logical clock, " +
			"checked by porcupine (no eviction) or the structural order checker (eviction); every 8th of them instead closes a session that holds most of the budget in thousands of streams while other sessions append and resize, then probes every surviving stream, and another every 8th fills the store to exactly its limit and releases 2-8 spinning appenders at one moment (20 rounds), checking the byte bound at every quiescent point. non-trivial: sequential history with >=1 eviction observed or >=1 SessionClosed followed by appends; " +
			"concurrent history with >=2 overlapping operations on one stream. distinct = distinct (op-kind sequence, eviction pattern) / (overlap pattern) signatures",
		MinNontrivial: 50,
		Assumptions: []string{"indices passed to After are >= -1", "limits >= 1 in the random histories (SetMaxBytes(0) means the default of 10 MiB and is exercised there only as 'very large'; three directed cases per thousand hold more than that under a raised limit and then go back to the default)",
			"a porcupine search that does not finish in 15 s is counted (porcupine_timeouts) and decides nothing; the structural checker still runs on that history"},
	}
	vh.Run(t, cfg, func(c *vh.Case) {
		switch {
		case c.Index < nSeq && c.Index%1000 == 501:
			defaultLimitCase(c)
		case c.Index < nSeq && c.Index%10 == 9:
			longStreamCase(c)
		case c.Index < nSeq:
			sequentialCase(c)
		case (c.Index-nSeq)%8 == 7:
			closeUnderLoadCase(c)
		case (c.Index-nSeq)%8 == 3:
			burstAtLimitCase(c)
		default:
			concurrentCase(c)
		}
	})
}

// ------------------------------------------------------------- sequential

func sequentialCase(c *vh.Case) {
	r := c.R
	ctx := context.Background()
	s := mcp.NewMemoryEventStore(nil)
	limit := r.Range(1, 96)
	if r.Chance(1, 10) {
		limit = r.Range(1, 4)
	}
	s.SetMaxBytes(limit)
	nSess, nStr := r.Range(1, 3), r.Range(1, 3)
	ref := map[streamKey]*refStream{}
	closedBytes := 0 // bytes that were retained by sessions at the moment they were closed (since last reset)
	var ops []seqOp
	evictions, closes, appendsAfterClose := 0, 0, 0
	var sig strings.Builder
	counter := 0
	nOps := r.Range(4, 40)

	retainedTotal := func() int {
		n := 0
		for _, rs := range ref {
			for _, d := range rs.log[rs.first:] {
				n += len(d)
			}
		}
		return n
	}

	// probe re-derives every stream's retained suffix through After and checks it.
	lastItem := 0 // size of the most recently appended item (the slack the statement allows)
	probe := func(opIdx int, _ int) (total int) {
		lastAppend := lastItem
		for k, rs := range ref {
			n := len(rs.log)
			// find the smallest index i in [-1, n-1] for which After(i) succeeds
			first := -2
			for i := -1; i <= n-1; i++ {
				got, err := afterAll(s, k.sess, k.stream, i)
				c.Count("after_probes", 1)
				if err != nil {
					if !errors.Is(err, mcp.ErrEventsPurged) {
						c.Violate("after-unexpected-error", "op %d: After(%s,%s,%d) = %v on an open stream", opIdx, k.sess, k.stream, i, err)
						return
					}
					if len(got) != 0 {
						c.Violate("partial-before-purge-error", "op %d: After(%s,%s,%d) yielded %d items and then ErrEventsPurged", opIdx, k.sess, k.stream, i, len(got))
					}
					if first != -2 {
						c.Violate("purge-not-monotone", "op %d: After(%d) purged although After(%d) succeeded", opIdx, i, first-1)
					}
					continue
				}
				if first == -2 {
					first = i + 1
				}
				if !eqSlices(got, rs.log[i+1:]) {
					c.Violate("after-mismatch", "op %d: After(%s,%s,%d) returned %d items %q, reference log[%d:] has %d items", opIdx, k.sess, k.stream, i, len(got), trunc(got), i+1, n-(i+1))
					return
				}
			}
			if first == -2 {
				first = n
			}
			if first < rs.first {
				c.Violate("retained-not-suffix", "op %d: stream %v first retained index went back %d -> %d", opIdx, k, rs.first, first)
			}
			if first > rs.first {
				evictions += first - rs.first
				fmt.Fprintf(&sig, "e%d", first-rs.first)
			}
			rs.first = first
			for _, d := range rs.log[first:] {
				total += len(d)
			}
		}
		if total > s.MaxBytes()+lastAppend {
			c.Violate("over-limit", "op %d: retained %d bytes > max %d + last item %d", opIdx, total, s.MaxBytes(), lastAppend)
		}
		return total
	}

	for i := 0; i < nOps && !c.Violated(); i++ {
		sess := fmt.Sprintf("S%d", r.Intn(nSess))
		stream := fmt.Sprintf("t%d", r.Intn(nStr))
		k := streamKey{sess, stream}
		before := retainedTotal()
		evBefore := evictions
		lastAppend := 0
		switch x := r.Intn(100); {
		case x < 8:
			ops = append(ops, seqOp{Op: "open", Sess: sess, Stream: stream})
			sig.WriteString("O")
			if err := s.Open(ctx, sess, stream); err != nil {
				c.Violate("open-error", "Open: %v", err)
			}
			if ref[k] == nil {
				ref[k] = &refStream{}
			}
		case x < 70:
			size := r.Range(0, limit+5)
			if r.Chance(1, 6) {
				size = 0
			}
			counter++
			d := payload(sess+stream, counter, size)
			ops = append(ops, seqOp{Op: "append", Sess: sess, Stream: stream, Size: len(d)})
			sig.WriteString("A")
			if err := s.Append(ctx, sess, stream, d); err != nil {
				c.Violate("append-error", "Append: %v", err)
			}
			if ref[k] == nil {
				ref[k] = &refStream{}
			}
			ref[k].log = append(ref[k].log, d)
			lastAppend = len(d)
			lastItem = len(d)
			if closes > 0 {
				appendsAfterClose++
			}
			probe(i, lastAppend)
			// needless eviction attributable to bytes of closed sessions still being counted
			if evictions > evBefore && before <= s.MaxBytes() && before+closedBytes > s.MaxBytes() {
				c.Violate("closed-session-bytes-still-count", "op %d: Append evicted %d item(s) although live data was %d <= max %d (closed sessions held %d bytes)", i, evictions-evBefore, before, s.MaxBytes(), closedBytes)
			}
			continue
		case x < 74 && ref[k] != nil && len(ref[k].log)-ref[k].first >= 2:
			// A replay that is still being consumed while the store changes underneath it
			// (the iterator is a caller-driven loop): every item it yields must still be the
			// payload appended at that index -- never a blanked, shifted or foreign one.
			rs := ref[k]
			idx := rs.first - 1
			want := append([][]byte(nil), rs.log[idx+1:]...)
			ops = append(ops, seqOp{Op: "after+mutate", Sess: sess, Stream: stream, Index: idx})
			sig.WriteString("I")
			j := 0
			for d, e := range s.After(ctx, sess, stream, idx) {
				if e != nil {
					c.Violate("after-unexpected-error", "op %d: interleaved After(%v,%d) failed at item %d: %v", i, k, idx, j, e)
					break
				}
				if j < len(want) && string(d) != string(want[j]) {
					c.Violate("replay-corrupted-by-concurrent-eviction", "op %d: After(%v,%d) item %d is %q, appended payload was %q (store mutated between yields)", i, k, idx, j, trunc([][]byte{d}), trunc([][]byte{want[j]}))
					break
				}
				if j == 0 {
					// force evictions while the replay is in progress
					s.SetMaxBytes(1)
					s.SetMaxBytes(limit)
				}
				j++
			}
			if j < len(want) && !c.Violated() {
				c.Violate("partial-replay", "op %d: interleaved After(%v,%d) yielded %d of %d items", i, k, idx, j, len(want))
			}
			c.Count("interleaved_replays", 1)
		case x < 80:
			// After on a random index, possibly on an unknown stream
			idx := r.Range(-1, 6)
			if r.Chance(1, 6) {
				// positions at and far beyond the end of the stream, up to the largest int (nothing lies after them)
				n := 0
				if rs := ref[k]; rs != nil {
					n = len(rs.log)
				}
				idx = []int{n - 1, n, n + 1, n + 1000, math.MaxInt32, math.MaxInt - 1, math.MaxInt}[r.Intn(7)]
			}
			ops = append(ops, seqOp{Op: "after", Sess: sess, Stream: stream, Index: idx})
			sig.WriteString("F")
			got, err := afterAll(s, sess, stream, idx)
			rs := ref[k]
			if rs == nil {
				if err == nil {
					c.Violate("after-unknown-stream", "After on never-opened %v returned %d items and no error", k, len(got))
				} else if errors.Is(err, mcp.ErrEventsPurged) {
					// acceptable? an unknown stream has nothing purged; the statement only fixes open streams.
				}
				continue
			}
			if err != nil {
				if !errors.Is(err, mcp.ErrEventsPurged) {
					c.Violate("after-unexpected-error", "After(%v,%d) = %v", k, idx, err)
				} else if idx >= rs.first-1 { // (no idx+1: idx may be the largest int)
					c.Violate("purged-but-retained", "After(%v,%d) = ErrEventsPurged but everything after index %d is retained (first=%d, appended=%d)", k, idx, idx, rs.first, len(rs.log))
				}
				continue
			}
			want := [][]byte(nil)
			if idx < len(rs.log)-1 {
				want = rs.log[idx+1:]
			}
			if idx < rs.first-1 {
				c.Violate("gapped-replay", "After(%v,%d) succeeded with %d items although items before %d were evicted", k, idx, len(got), rs.first)
			} else if !eqSlices(got, want) {
				c.Violate("after-mismatch", "After(%v,%d) = %q, want %q", k, idx, trunc(got), trunc(want))
			}
		case x < 90:
			nm := r.Range(1, 96)
			if r.Chance(1, 8) {
				nm = 0 // default (10 MiB)
			}
			ops = append(ops, seqOp{Op: "setmax", Max: nm})
			sig.WriteString("M")
			s.SetMaxBytes(nm)
			if nm != 0 {
				limit = nm
			}
			if nm != 0 && s.MaxBytes() != nm {
				c.Violate("maxbytes", "MaxBytes()=%d after SetMaxBytes(%d)", s.MaxBytes(), nm)
			}
			probe(i, 0)
			if evictions > evBefore && before <= s.MaxBytes() && before+closedBytes > s.MaxBytes() {
				c.Violate("closed-session-bytes-still-count", "op %d: SetMaxBytes(%d) evicted although live data was %d (closed sessions held %d)", i, nm, before, closedBytes)
			}
			continue
		default:
			ops = append(ops, seqOp{Op: "close", Sess: sess})
			sig.WriteString("C")
			held := 0
			for kk, rs := range ref {
				if kk.sess == sess {
					for _, d := range rs.log[rs.first:] {
						held += len(d)
					}
				}
			}
			if err := s.SessionClosed(ctx, sess); err != nil {
				c.Violate("close-error", "SessionClosed: %v", err)
			}
			closes++
			closedBytes += held
			for kk := range ref {
				if kk.sess == sess {
					delete(ref, kk)
					if _, err := afterAll(s, kk.sess, kk.stream, -1); err == nil {
						c.Violate("closed-session-still-known", "After(%v,-1) succeeded after SessionClosed", kk)
					}
				}
			}
		}
		probe(i, 0)
	}
	c.SetSpec(map[string]any{"mode": "sequential", "limit0": limit, "ops": ops})
	c.Count("seq_ops", len(ops))
	c.Count("evictions_observed", evictions)
	c.Count("session_closes", closes)
	if evictions > 0 || (closes > 0 && appendsAfterClose > 0) {
		c.Nontrivial("seq:" + sig.String())
	}
}

func trunc(xs [][]byte) []string {
	var out []string
	for i, x := range xs {
		if i >= 6 {
			out = append(out, "…")
			break
		}
		s := string(x)
		if len(s) > 16 {
			s = s[:16] + "…"
		}
		out = append(out, s)
	}
	return out
}

// ------------------------------------------------------------- concurrent

type cOp struct {
	G       int      `json:"g"`
	Kind    string   `json:"kind"` // append | after
	Stream  string   `json:"stream"`
	Val     string   `json:"val,omitempty"`
	Index   int      `json:"index,omitempty"`
	Call    int64    `json:"call"`
	Ret     int64    `json:"ret"`
	Out     []string `json:"out,omitempty"`
	Purged  bool     `json:"purged,omitempty"`
	ErrText string   `json:"err,omitempty"`
}

type pIn struct {
	Append bool
	Val    string
	Index  int
}
type pOut struct {
	Vals   []string
	Purged bool
}

var listModel = porcupine.Model{
	Init: func() any { return []string(nil) },
	Step: func(st, in, out any) (bool, any) {
		s := st.([]string)
		i := in.(pIn)
		if i.Append {
			ns := make([]string, len(s)+1)
			copy(ns, s)
			ns[len(s)] = i.Val
			return true, ns
		}
		o := out.(pOut)
		if o.Purged {
			return false, s // eviction-free histories must never report a purge
		}
		var want []string
		if i.Index+1 < len(s) {
			want = s[i.Index+1:]
		}
		if len(want) != len(o.Vals) {
			return false, s
		}
		for k := range want {
			if want[k] != o.Vals[k] {
				return false, s
			}
		}
		return true, s
	},
	Equal: func(a, b any) bool {
		x, y := a.([]string), b.([]string)
		if len(x) != len(y) {
			return false
		}
		for i := range x {
			if x[i] != y[i] {
				return false
			}
		}
		return true
	},
	DescribeOperation: func(in, out any) string { return fmt.Sprintf("%+v -> %+v", in, out) },
}

func concurrentCase(c *vh.Case) {
	r := c.R
	ctx := context.Background()
	s := mcp.NewMemoryEventStore(nil)
	evict := r.Chance(1, 2)
	limit := 0
	if evict {
		limit = r.Range(8, 120)
		s.SetMaxBytes(limit)
	}
	G := r.Range(2, 6)
	perG := r.Range(2, 6)
	nStreams := r.Range(1, 3)
	streams := make([]string, nStreams)
	for i := range streams {
		streams[i] = fmt.Sprintf("t%d", i)
		s.Open(ctx, "S", streams[i])
	}
	withClose := !evict && r.Chance(1, 5) // a second session closed concurrently must not disturb session S
	type plan struct {
		kind   string
		stream string
		index  int
		size   int
		setmax int
	}
	plans := make([][]plan, G)
	for g := range plans {
		for j := 0; j < perG; j++ {
			p := plan{stream: streams[r.Intn(nStreams)]}
			switch x := r.Intn(11); {
			case x == 10:
				p.kind = "open" // a new stream (sometimes of a new session) is opened while others work
			case x < 6:
				p.kind, p.size = "append", r.Range(6, 20)
			case x < 9 || !evict:
				p.kind, p.index = "after", r.Range(-1, 4)
			default:
				p.kind, p.setmax = "setmax", r.Range(8, 120)
			}
			plans[g] = append(plans[g], p)
		}
	}
	var clock atomic.Int64
	var mu sync.Mutex
	var hist []cOp
	var wg sync.WaitGroup
	startGate := make(chan struct{})
	for g := 0; g < G; g++ {
		g := g
		wg.Add(1)
		go func() {
			defer wg.Done()
			defer c.Guard("")
			<-startGate
			for j, p := range plans[g] {
				switch p.kind {
				case "append":
					val := fmt.Sprintf("g%d.%d|", g, j)
					d := []byte(val + strings.Repeat("x", max(0, p.size-len(val))))
					op := cOp{G: g, Kind: "append", Stream: p.stream, Val: val, Call: clock.Add(1)}
					err := s.Append(ctx, "S", p.stream, d)
					op.Ret = clock.Add(1)
					if err != nil {
						op.ErrText = err.Error()
					}
					mu.Lock()
					hist = append(hist, op)
					mu.Unlock()
				case "after":
					op := cOp{G: g, Kind: "after", Stream: p.stream, Index: p.index, Call: clock.Add(1)}
					got, err := afterAll(s, "S", p.stream, p.index)
					op.Ret = clock.Add(1)
					for _, d := range got {
						v := string(d)
						if k := strings.IndexByte(v, '|'); k >= 0 {
							v = v[:k+1]
						}
						op.Out = append(op.Out, v)
					}
					if err != nil {
						if errors.Is(err, mcp.ErrEventsPurged) {
							op.Purged = true
						} else {
							op.ErrText = err.Error()
						}
					}
					mu.Lock()
					hist = append(hist, op)
					mu.Unlock()
				case "setmax":
					s.SetMaxBytes(p.setmax)
				case "open":
					sess := "S"
					if j%2 == 1 {
						sess = fmt.Sprintf("N%d", g)
					}
					if err := s.Open(ctx, sess, fmt.Sprintf("new%d.%d", g, j)); err != nil {
						mu.Lock()
						hist = append(hist, cOp{G: g, Kind: "open", ErrText: err.Error()})
						mu.Unlock()
					}
					s.MaxBytes()
				}
				if withClose && j == 1 && g == 0 {
					s.Append(ctx, "OTHER", "t0", []byte("other-session-data"))
					s.SessionClosed(ctx, "OTHER")
				}
			}
		}()
	}
	close(startGate)
	wg.Wait()

	sort.Slice(hist, func(i, j int) bool { return hist[i].Call < hist[j].Call })
	c.SetSpec(map[string]any{"mode": "concurrent", "evict": evict, "limit": limit, "goroutines": G, "history": hist})
	c.Count("conc_ops", len(hist))
	for _, op := range hist {
		if op.ErrText != "" {
			c.Violate("concurrent-op-error", "%s on stream %s failed: %s", op.Kind, op.Stream, op.ErrText)
			return
		}
	}
	// overlap pattern = for each op, number of ops on the same stream it overlaps
	overlaps := 0
	var sig strings.Builder
	for i, a := range hist {
		n := 0
		for j, b := range hist {
			if i != j && a.Stream == b.Stream && a.Call < b.Ret && b.Call < a.Ret {
				n++
			}
		}
		overlaps += n
		fmt.Fprintf(&sig, "%c%d", a.Kind[1], n)
	}
	c.Count("conc_overlapping_pairs", overlaps/2)

	if !evict {
		var ops []porcupine.Operation
		byStream := map[string][]porcupine.Operation{}
		for _, op := range hist {
			po := porcupine.Operation{ClientId: op.G, Call: op.Call, Return: op.Ret}
			if op.Kind == "append" {
				po.Input, po.Output = pIn{Append: true, Val: op.Val}, pOut{}
			} else {
				po.Input, po.Output = pIn{Index: op.Index}, pOut{Vals: op.Out, Purged: op.Purged}
			}
			ops = append(ops, po)
			byStream[op.Stream] = append(byStream[op.Stream], po)
		}
		for st, sops := range byStream {
			res, _ := porcupine.CheckOperationsVerbose(listModel, sops, 15*time.Second)
			c.Count("porcupine_histories", 1)
			switch res {
			case porcupine.Illegal:
				c.Violate("not-linearizable", "history of stream %s (%d ops) is not linearizable w.r.t. the append-list model", st, len(sops))
			case porcupine.Unknown:
				// the search did not finish (loaded machine): not a verdict; the structural checker below still applies
				c.Count("porcupine_timeouts", 1)
			}
		}
		_ = ops
	}
	structuralCheck(c, hist, evict)

	// quiescent final probe: whatever is retained must be a suffix of the agreed order
	if overlaps > 0 {
		c.Nontrivial(fmt.Sprintf("conc:%v:%s", evict, sig.String()))
	}
}

// structuralCheck validates a (possibly evicting) concurrent history without a
// search: every After result places payloads at consecutive indices; all
// placements must agree (index<->payload is a bijection); the index order must
// respect program order and real-time order of appends; an After must contain
// every append that completed before it was called (beyond its index) and
// nothing that started after it returned; purges are monotone in real time.
func structuralCheck(c *vh.Case, hist []cOp, evict bool) {
	byStream := map[string][]cOp{}
	for _, op := range hist {
		byStream[op.Stream] = append(byStream[op.Stream], op)
	}
	for st, ops := range byStream {
		idxOf := map[string]int{}
		valAt := map[int]string{}
		appendOf := map[string]cOp{}
		for _, op := range ops {
			if op.Kind == "append" {
				appendOf[op.Val] = op
			}
		}
		for _, op := range ops {
			if op.Kind != "after" || op.Purged {
				continue
			}
			seen := map[string]bool{}
			for j, v := range op.Out {
				i := op.Index + 1 + j
				if seen[v] {
					c.Violate("duplicate-in-replay", "stream %s: After(%d) returned %q twice", st, op.Index, v)
					return
				}
				seen[v] = true
				ap, ok := appendOf[v]
				if !ok {
					c.Violate("phantom-payload", "stream %s: After(%d) returned %q which was never appended to this stream", st, op.Index, v)
					return
				}
				if ap.Call > op.Ret {
					c.Violate("future-read", "stream %s: After returned %q whose Append started after the After returned", st, v)
					return
				}
				if old, ok := idxOf[v]; ok && old != i {
					c.Violate("unstable-index", "stream %s: payload %q observed at index %d and %d", st, v, old, i)
					return
				}
				if old, ok := valAt[i]; ok && old != v {
					c.Violate("unstable-index", "stream %s: index %d observed as %q and %q", st, i, old, v)
					return
				}
				idxOf[v], valAt[i] = i, v
			}
		}
		// order constraints between appends with known indices
		for a, ia := range idxOf {
			for b, ib := range idxOf {
				if a == b {
					continue
				}
				oa, ob := appendOf[a], appendOf[b]
				if oa.Ret < ob.Call && ia > ib {
					c.Violate("realtime-order", "stream %s: Append(%q) returned before Append(%q) was called but is ordered after it (%d > %d)", st, a, b, ia, ib)
					return
				}
			}
		}
		// completeness of each successful After
		for _, op := range ops {
			if op.Kind != "after" || op.Purged {
				continue
			}
			end := op.Index + 1 + len(op.Out) // first index NOT returned
			for v, i := range idxOf {
				ap := appendOf[v]
				if i >= end && i > op.Index && ap.Ret < op.Call {
					c.Violate("lost-append", "stream %s: After(%d) (called at %d) omitted %q@%d whose Append had returned at %d", st, op.Index, op.Call, v, i, ap.Ret)
					return
				}
			}
			// number of appends definitely complete before the call bounds the result from below when nothing is purged
			if !evict {
				done := 0
				for _, ap := range appendOf {
					if ap.Ret < op.Call {
						done++
					}
				}
				if want := done - (op.Index + 1); want > 0 && len(op.Out) < want {
					c.Violate("lost-append", "stream %s: After(%d) returned %d items but %d appends had completed before the call", st, op.Index, len(op.Out), done)
					return
				}
			}
		}
		// purge monotonicity in real time: once After(i) is purged, a later After(i') with i' <= i must be purged too
		for _, p := range ops {
			if p.Kind != "after" || !p.Purged {
				continue
			}
			if !evict {
				c.Violate("purged-without-eviction", "stream %s: After(%d) reported a purge in a history whose total size is far below the limit", st, p.Index)
				return
			}
			for _, q := range ops {
				if q.Kind == "after" && !q.Purged && q.Call > p.Ret && q.Index <= p.Index {
					c.Violate("purge-not-monotone", "stream %s: After(%d) purged at %d, yet later After(%d) at %d succeeded", st, p.Index, p.Ret, q.Index, q.Call)
					return
				}
			}
		}
	}
}

// closeUnderLoadCase: session A holds most of the byte budget spread over many streams; it is closed
// while other sessions append items that only fit once A is gone, and while the limit is changed.
// Whatever the interleaving, no operation may fail or panic, and afterwards every surviving stream
// answers with a suffix of what was appended to it (or the purge error), within the byte bound.
var spinSink atomic.Int64

func closeUnderLoadCase(c *vh.Case) {
	r := c.R
	ctx := context.Background()
	s := mcp.NewMemoryEventStore(nil)
	nA := r.Range(200, 4000)
	if r.Chance(1, 3) {
		nA = r.Range(15000, 50000) // a long-lived session: closing it takes a while
	}
	itemA := r.Range(1, 4)
	limit := nA*itemA + r.Range(8, 64)
	fill := nA
	if r.Bool() {
		// A alone ends up over the limit by its most recent item (which the store allows)
		limit = nA * itemA
		fill = nA + 1
	}
	s.SetMaxBytes(limit)
	for i := 0; i < fill; i++ {
		st := fmt.Sprintf("a%d", i)
		s.Open(ctx, "A", st)
		if err := s.Append(ctx, "A", st, payload("A", i, itemA)); err != nil {
			c.Violate("append-failed", "Append(A,%s): %v", st, err)
			return
		}
	}
	others := r.Range(1, 3)
	perG := r.Range(1, 4)
	big := r.Range(limit/3, limit-4)
	spin := r.Intn(4000) // the other sessions start a little after the close has begun
	type rec struct {
		sess, stream string
		data         [][]byte
	}
	recs := make([]*rec, others)
	var wg sync.WaitGroup
	start := make(chan struct{})
	var emu sync.Mutex
	var errs []string
	for g := 0; g < others; g++ {
		g := g
		rc := &rec{sess: fmt.Sprintf("B%d", g), stream: "t"}
		recs[g] = rc
		s.Open(ctx, rc.sess, rc.stream)
		sizes := make([]int, perG)
		for j := range sizes {
			sizes[j] = []int{big, r.Range(1, 16), 1, big / 2}[r.Intn(4)]
		}
		wg.Add(1)
		go func() {
			defer wg.Done()
			<-start
			for k := 0; k < spin*(g+1); k++ {
				spinSink.Add(1)
			}
			for j, sz := range sizes {
				d := payload(rc.sess, j, sz)
				if err := s.Append(ctx, rc.sess, rc.stream, d); err != nil {
					emu.Lock()
					errs = append(errs, fmt.Sprintf("Append(%s,#%d,%d bytes): %v", rc.sess, j, sz, err))
					emu.Unlock()
					return
				}
				rc.data = append(rc.data, d)
			}
		}()
	}
	wg.Add(1)
	go func() {
		defer wg.Done()
		<-start
		if err := s.SessionClosed(ctx, "A"); err != nil {
			emu.Lock()
			errs = append(errs, "SessionClosed(A): "+err.Error())
			emu.Unlock()
		}
	}()
	resize := r.Chance(1, 3)
	if resize {
		wg.Add(1)
		go func() {
			defer wg.Done()
			<-start
			s.SetMaxBytes(limit)
		}()
	}
	close(start)
	wg.Wait()
	c.SetSpec(map[string]any{"gen": "close-under-load", "streams_of_A": nA, "item_bytes": itemA, "limit": limit, "other_sessions": others, "appends_each": perG, "big_item": big, "resize": resize})
	if len(errs) > 0 {
		c.Violate("operation-failed-under-concurrency", "%v", errs)
		return
	}
	total := 0
	last := 0
	for _, rc := range recs {
		got, err := afterAll(s, rc.sess, rc.stream, -1)
		if err != nil {
			if !errors.Is(err, mcp.ErrEventsPurged) {
				c.Violate("after-error", "After(%s,t,-1): %v", rc.sess, err)
				return
			}
			// purged: some suffix is still obtainable; find it
			ok := false
			for i := 0; i < len(rc.data); i++ {
				if g2, e2 := afterAll(s, rc.sess, rc.stream, i); e2 == nil {
					if !eqSlices(g2, rc.data[i+1:]) {
						c.Violate("after-mismatch", "After(%s,t,%d) returned %v, appended suffix is %v", rc.sess, i, trunc(g2), trunc(rc.data[i+1:]))
						return
					}
					for _, d := range g2 {
						total += len(d)
					}
					ok = true
					break
				}
			}
			if !ok {
				c.Violate("after-error", "no index of %s/t can be replayed any more", rc.sess)
				return
			}
		} else {
			if !eqSlices(got, rc.data) {
				c.Violate("after-mismatch", "After(%s,t,-1) returned %v, appended %v", rc.sess, trunc(got), trunc(rc.data))
				return
			}
			for _, d := range got {
				total += len(d)
			}
		}
		if n := len(rc.data); n > 0 && len(rc.data[n-1]) > last {
			last = len(rc.data[n-1])
		}
	}
	if total > limit+big {
		c.Violate("over-limit", "retained %d bytes > max %d + largest item %d", total, limit, big)
		return
	}
	if _, err := afterAll(s, "A", "a0", -1); err == nil {
		// a closed session's streams are gone (After on an unknown stream reports an error)
		c.Violate("closed-session-data-retained", "After(A,a0,-1) still answers after SessionClosed(A)")
		return
	}
	c.Nontrivial(fmt.Sprintf("close-under-load/%d/%d/%d/%d/%v", nA/500, others, perG, big*4/limit, resize))
}

// longStreamCase: few streams, many small items: a stream loses dozens of items to eviction while it
// still holds dozens more (the regime in which an implementation compacts or re-slices its buffers).
func longStreamCase(c *vh.Case) {
	r := c.R
	ctx := context.Background()
	s := mcp.NewMemoryEventStore(nil)
	limit := r.Range(60, 600)
	s.SetMaxBytes(limit)
	nStr := r.Range(1, 2)
	ref := make([]*refStream, nStr)
	for i := range ref {
		ref[i] = &refStream{}
	}
	nOps := r.Range(80, 500)
	maxItem := r.Range(2, 9)
	evictions, shrinks := 0, 0
	lastItem := 0
	check := func(opIdx int) bool {
		total := 0
		for k, rs := range ref {
			st := fmt.Sprintf("t%d", k)
			n := len(rs.log)
			if n == 0 {
				continue
			}
			first := -1
			for i := max(rs.first-2, -1); i <= n-1; i++ {
				got, err := afterAll(s, "S", st, i)
				c.Count("after_probes", 1)
				if err != nil {
					if !errors.Is(err, mcp.ErrEventsPurged) {
						c.Violate("after-unexpected-error", "op %d: After(S,%s,%d) = %v", opIdx, st, i, err)
						return false
					}
					if len(got) != 0 {
						c.Violate("partial-before-purge-error", "op %d: After(S,%s,%d) yielded %d items and then ErrEventsPurged", opIdx, st, i, len(got))
						return false
					}
					continue
				}
				if !eqSlices(got, rs.log[i+1:]) {
					bad := 0
					for bad < len(got) && bad < n-(i+1) && string(got[bad]) == string(rs.log[i+1+bad]) {
						bad++
					}
					c.Violate("after-mismatch", "op %d: After(S,%s,%d) returned %d items, reference log[%d:] has %d; first difference at stream index %d", opIdx, st, i, len(got), i+1, n-(i+1), i+1+bad)
					return false
				}
				first = i + 1
				break
			}
			if first == -1 {
				first = n
			}
			if first < rs.first {
				c.Violate("retained-not-suffix", "op %d: stream %s first retained index went back %d -> %d", opIdx, st, rs.first, first)
				return false
			}
			evictions += first - rs.first
			rs.first = first
			// a replay from the middle of the retained part
			if n-first >= 3 {
				mid := first + r.Intn(n-first-1)
				got, err := afterAll(s, "S", st, mid)
				if err != nil || !eqSlices(got, rs.log[mid+1:]) {
					c.Violate("after-mismatch", "op %d: After(S,%s,%d) (middle of the retained part %d..%d) returned %d items, err %v", opIdx, st, mid, first, n-1, len(got), err)
					return false
				}
			}
			for _, d := range rs.log[first:] {
				total += len(d)
			}
		}
		if total > s.MaxBytes()+lastItem {
			c.Violate("over-limit", "op %d: retained %d bytes > max %d + last item %d", opIdx, total, s.MaxBytes(), lastItem)
			return false
		}
		return true
	}
	for i := 0; i < nOps; i++ {
		switch x := r.Intn(100); {
		case x < 92:
			k := r.Intn(nStr)
			d := []byte(fmt.Sprintf("%0*d", r.Range(1, maxItem), len(ref[k].log)))
			if err := s.Append(ctx, "S", fmt.Sprintf("t%d", k), d); err != nil {
				c.Violate("append-error", "Append: %v", err)
				return
			}
			ref[k].log = append(ref[k].log, d)
			lastItem = len(d)
		case x < 96:
			nm := r.Range(max(8, limit/6), limit)
			s.SetMaxBytes(nm)
			shrinks++
			if !check(i) {
				return
			}
		default:
			s.SetMaxBytes(limit)
		}
		if i%16 == 15 && !check(i) {
			return
		}
	}
	if !check(nOps) {
		return
	}
	held := 0
	for _, rs := range ref {
		held = max(held, len(rs.log)-rs.first)
	}
	c.SetSpec(map[string]any{"mode": "long-stream", "limit": limit, "streams": nStr, "ops": nOps, "max_item": maxItem})
	c.Count("seq_ops", nOps)
	c.Count("evictions_observed", evictions)
	c.Seen("long-stream-regime", fmt.Sprintf("evicted>=32:%v held>=32:%v", evictions >= 32, held >= 32))
	if evictions > 0 {
		c.Nontrivial(fmt.Sprintf("long:%d/%d/%d/%d/%d", nStr, limit/50, nOps/50, evictions/16, shrinks))
	}
}

// burstAtLimitCase: the store holds exactly MaxBytes; several appenders are released at one moment.
// At every quiescent point the store may hold at most MaxBytes plus one item (the statement's bound),
// however the appends interleaved.
func burstAtLimitCase(c *vh.Case) {
	r := c.R
	ctx := context.Background()
	s := mcp.NewMemoryEventStore(nil)
	item := r.Range(1, 8)
	slots := r.Range(2, 12)
	limit := item * slots
	s.SetMaxBytes(limit)
	G := r.Range(2, 8)
	nStr := r.Range(1, 3)
	logs := make([][][]byte, nStr)
	firsts := make([]int, nStr)
	var lmu sync.Mutex
	seq := 0
	one := func(k int) error {
		lmu.Lock()
		seq++
		d := []byte(fmt.Sprintf("%0*d", item, seq%pow10(item)))
		lmu.Unlock()
		// the order of a stream's log is the order in which its appends were admitted; with several
		// appenders per stream it is recovered from the store afterwards, so each stream has one appender
		err := s.Append(ctx, "S", fmt.Sprintf("t%d", k), d)
		lmu.Lock()
		logs[k] = append(logs[k], d)
		lmu.Unlock()
		return err
	}
	for i := 0; i < slots; i++ {
		if err := one(i % nStr); err != nil {
			c.Violate("append-error", "Append: %v", err)
			return
		}
	}
	rounds := 20
	worst := 0
	for round := 0; round < rounds; round++ {
		var ready, goFlag atomic.Int32
		var wg sync.WaitGroup
		errs := make([]error, G)
		for g := 0; g < G; g++ {
			g := g
			wg.Add(1)
			go func() {
				defer wg.Done()
				ready.Add(1)
				for goFlag.Load() == 0 {
				}
				// appenders of one stream are serialised by the harness (one logical producer per stream)
				errs[g] = burstAppend(s, item, g, round)
			}()
		}
		for int(ready.Load()) < G {
			runtime.Gosched()
		}
		goFlag.Store(1)
		wg.Wait()
		for _, e := range errs {
			if e != nil {
				c.Violate("append-error", "Append during burst: %v", e)
				return
			}
		}
		// quiescent: count what is retained
		total := 0
		for k := 0; k < nStr; k++ {
			st := fmt.Sprintf("t%d", k)
			n := len(logs[k])
			for i := max(firsts[k]-1, -1); i <= n-1; i++ {
				got, err := afterAll(s, "S", st, i)
				if err != nil {
					continue
				}
				firsts[k] = i + 1
				for _, d := range got {
					total += len(d)
				}
				break
			}
		}
		for g := 0; g < G; g++ {
			st := fmt.Sprintf("b%d", g)
			for i := -1; i <= round; i++ {
				got, err := afterAll(s, "S", st, i)
				if err != nil {
					continue
				}
				for _, d := range got {
					total += len(d)
				}
				break
			}
		}
		c.Count("burst_rounds", 1)
		worst = max(worst, total)
		if total > s.MaxBytes()+item {
			c.SetSpec(map[string]any{"mode": "burst-at-limit", "item": item, "limit": limit, "appenders": G, "round": round})
			c.Violate("over-limit", "after %d simultaneous appends of %d bytes to a store holding exactly its limit, %d bytes are retained > max %d + one item %d", G, item, total, s.MaxBytes(), item)
			return
		}
	}
	c.SetSpec(map[string]any{"mode": "burst-at-limit", "item": item, "limit": limit, "appenders": G, "rounds": rounds})
	c.Nontrivial(fmt.Sprintf("burst/%d/%d/%d", item, slots, G))
}

func burstAppend(s *mcp.MemoryEventStore, item, g, round int) error {
	d := []byte(fmt.Sprintf("%0*d", item, (g*100+round)%pow10(item)))
	return s.Append(context.Background(), "S", fmt.Sprintf("b%d", g), d)
}

func pow10(n int) int {
	p := 1
	for i := 0; i < n; i++ {
		p *= 10
	}
	return p
}

// defaultLimitCase: the limit is raised well above the default, 12..30 MiB are held in 1-3 streams, and the limit
// is then set back to the default with SetMaxBytes(0) (or lowered to a value in between): the bound must hold for
// the configured maximum whichever way it was configured. Retained bytes are measured through After only.
func defaultLimitCase(c *vh.Case) {
	r := c.R
	ctx := context.Background()
	s := mcp.NewMemoryEventStore(nil)
	const MiB = 1 << 20
	s.SetMaxBytes(64 * MiB)
	nStr := r.Range(1, 3)
	logs := make([][][]byte, nStr)
	total, target, last := 0, r.Range(12, 30)*MiB, 0
	for n := 0; total < target; n++ {
		k := r.Intn(nStr)
		d := make([]byte, r.Range(MiB/4, 3*MiB))
		copy(d, fmt.Sprintf("item-%d-", n))
		if err := s.Append(ctx, "S", fmt.Sprintf("t%d", k), d); err != nil {
			c.Violate("append-error", "Append: %v", err)
			return
		}
		logs[k] = append(logs[k], d)
		total += len(d)
		last = len(d)
	}
	retained := func() (int, bool) {
		sum := 0
		for k := range logs {
			if len(logs[k]) == 0 {
				continue // nothing was ever appended to this stream: the store does not know it
			}
			first := -1
			for idx := -1; idx < len(logs[k]); idx++ {
				n, purged, bad := 0, false, false
				for d, err := range s.After(ctx, "S", fmt.Sprintf("t%d", k), idx) {
					if err != nil {
						purged = errors.Is(err, mcp.ErrEventsPurged)
						bad = !purged
						break
					}
					if idx+1+n >= len(logs[k]) || !bytes.Equal(d, logs[k][idx+1+n]) {
						c.Violate("after-mismatch", "default-limit case: After(t%d,%d) item %d is not what was appended", k, idx, n)
						return 0, false
					}
					n++
				}
				if bad {
					c.Violate("after-unexpected-error", "default-limit case: After(t%d,%d) failed with something other than the purge report", k, idx)
					return 0, false
				}
				if !purged {
					if n != len(logs[k])-idx-1 {
						c.Violate("after-mismatch", "default-limit case: After(t%d,%d) yielded %d items, %d were appended after it", k, idx, n, len(logs[k])-idx-1)
						return 0, false
					}
					first = idx + 1
					break
				}
			}
			if first < 0 {
				first = len(logs[k])
			}
			for _, d := range logs[k][first:] {
				sum += len(d)
			}
		}
		return sum, true
	}
	if got, ok := retained(); !ok {
		return
	} else if got != total {
		c.Violate("purged-below-limit", "default-limit case: %d bytes appended under a limit of 64 MiB, only %d retained", total, got)
		return
	}
	how, want := "SetMaxBytes(0)", 10*MiB
	if r.Chance(1, 3) {
		want = r.Range(9, 11) * MiB
		how = fmt.Sprintf("SetMaxBytes(%d)", want)
		s.SetMaxBytes(want)
	} else {
		s.SetMaxBytes(0)
	}
	if s.MaxBytes() != want {
		c.Violate("maxbytes", "MaxBytes()=%d after %s", s.MaxBytes(), how)
		return
	}
	got, ok := retained()
	if !ok {
		return
	}
	if got > want+last {
		c.Violate("over-limit", "after %s the configured maximum is %d bytes, yet %d bytes are still replayable (held before: %d, most recent item %d)", how, want, got, total, last)
		return
	}
	c.Count("default_limit_cases", 1)
	c.Seen("limit_set_by", strings.SplitN(how, "(", 2)[0]+map[bool]string{true: "(0)", false: "(n)"}[how == "SetMaxBytes(0)"])
	c.Nontrivial(fmt.Sprintf("default-limit/%s/%d/%d", how, nStr, total/MiB))
}
