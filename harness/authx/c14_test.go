//go:build verif

// C14 — the bearer-token middleware admits a request iff token, scopes and expiry all check out.
//
// The complete product of Authorization header shapes x verifier outcomes x
// required-vs-granted scope sets x expirations relative to now and skew x
// option combinations is pushed through the real middleware inside a synctest
// bubble (so time.Now is fixed and "exp + skew = now +- 1ns" is exact). An
// independent reference predicate decides admission, status and challenge.
package authx

import (
	"context"
	"errors"
	"fmt"
	"net/http"
	"net/http/httptest"
	"reflect"
	"slices"
	"strings"
	"testing"
	"time"

	"github.com/modelcontextprotocol/go-sdk/auth"
	"github.com/modelcontextprotocol/go-sdk/internal/verifharness/vh"
)

var (
	c14Headers = []struct {
		h     string
		class string // valid | invalid | borderline
	}{
		{"", "invalid"}, {"Bearer", "invalid"}, {"Bearer ", "invalid"}, {"tok", "invalid"}, {"Basic dXNlcjpwYXNz", "invalid"}, {"Bearer a b", "invalid"}, {"Token tok", "invalid"},
		{"Bearer tok", "valid"}, {"bearer tok", "valid"}, {"BEARER tok", "valid"}, {"BeArEr tok", "valid"},
		{"Bearer  tok", "borderline"}, {"Bearer\ttok", "borderline"}, {" Bearer tok", "borderline"}, {"Bearer tok ", "borderline"},
	}
	// "+info": the verifier returns a usable TokenInfo together with the error (as JWT libraries do)
	c14Outcomes = []string{"ok", "invalid-token", "invalid-token-wrapped", "oauth-error", "other-error", "nil-info", "invalid-token+info", "oauth-error+info", "other-error+info",
		// errors that match the sentinels only through errors.Is on a tree or an Is method
		"invalid-token-joined", "invalid-token-double", "invalid-token-custom-is", "oauth-error-joined"}
	// request variants, all run inside one bubble per cell of the product
	c14Variants = []string{"get", "stacked", "post", "options-preflight", "slow-verifier"}
	c14Scopes   = []struct{ required, granted []string }{
		{nil, nil}, {nil, []string{"read"}}, {[]string{"read"}, []string{"read"}}, {[]string{"read"}, nil}, {[]string{"read", "admin"}, []string{"read"}},
		{[]string{"read", "admin"}, []string{"admin", "read", "extra"}}, {[]string{"read", "admin"}, []string{"read", "read"}}, {[]string{"read", "read"}, []string{"read"}},
		{[]string{"a", "b", "c", "d"}, []string{"a", "b", "d"}}, {[]string{"read"}, []string{"READ"}}, {[]string{"read"}, []string{"reader"}},
	}
	// expiration relative to now, in ns, given skew s: "zero" or an offset
	c14Exps = []string{"zero", "past-hour", "now-skew-1ns", "now-skew", "now-skew+1ns", "now-1ns", "now", "future", "far-future"}
	c14Opts = []string{"nil", "empty", "url", "scopes", "url+scopes", "allow-missing", "skew", "skew+allow+url+scopes"}
)

func TestVerifC14(t *testing.T) {
	total := len(c14Headers) * len(c14Outcomes) * len(c14Scopes) * len(c14Exps) * len(c14Opts)
	cfg := vh.Config{
		Property:   "C14",
		Cases:      total,
		Exhaustive: true,
		Rule: fmt.Sprintf("complete product (%d cases x %d request variants = %d cells): %d Authorization shapes x %d verifier outcomes (incl. errors matching the sentinels only via errors.Join, a double %%w or an Is method) x %d required/granted scope pairs x %d expirations (relative to now and skew, +-1 ns) x %d option combinations, each as {GET, GET behind an outer bearer middleware with its own verifier, POST with a body, OPTIONS with CORS preflight headers, GET with a verifier that takes 10 s (expirations then relative to the instant the verifier returns, i.e. the instant the handler would start)} through the real middleware in a synctest bubble. "+
			"non-trivial: every case whose header is syntactically clear-cut; distinct = distinct cases", total, len(c14Variants), total*len(c14Variants), len(c14Headers), len(c14Outcomes), len(c14Scopes), len(c14Exps), len(c14Opts)),
		MinNontrivial: 1000,
		Assumptions: []string{"header shapes with extra blanks or tabs are borderline: either verdict (401, or treated as a credential) is accepted for them, but the handler/verdict must be consistent",
			"when a token both lacks a scope and is expired, 401 and 403 are both acceptable"},
	}
	vh.Run(t, cfg, func(c *vh.Case) {
		i := c.Index
		hd := c14Headers[i%len(c14Headers)]
		i /= len(c14Headers)
		outcome := c14Outcomes[i%len(c14Outcomes)]
		i /= len(c14Outcomes)
		sc := c14Scopes[i%len(c14Scopes)]
		i /= len(c14Scopes)
		exp := c14Exps[i%len(c14Exps)]
		i /= len(c14Exps)
		optk := c14Opts[i%len(c14Opts)]
		c.SetSpec(map[string]any{"header": hd.h, "class": hd.class, "verifier": outcome, "required": sc.required, "granted": sc.granted, "exp": exp, "opts": optk, "variants": c14Variants})
		c.Bubble("", func() {
			for _, v := range c14Variants {
				if c.Violated() {
					return
				}
				cellC14(c, hd.h, hd.class, outcome, sc.required, sc.granted, exp, optk, v)
			}
		})
		if !c.Violated() && hd.class != "borderline" {
			c.Nontrivial(fmt.Sprintf("%q/%s/%v/%v/%s/%s", hd.h, outcome, sc.required, sc.granted, exp, optk))
		}
	})
}

func cellC14(c *vh.Case, header, class, outcome string, required, granted []string, exp, optk string, variant string) {
	stacked := variant == "stacked"
	// move the (virtual) clock off the whole second the bubble starts at, so that
	// nanosecond offsets around the deadline stay within one wall-clock second
	time.Sleep(300*time.Millisecond + 7*time.Nanosecond)
	now := time.Now()
	// A verifier that takes its time (a remote introspection call): what counts is whether the token is still good
	// when the verifier is done and the handler would start, so every expiration below is relative to that instant.
	delay := time.Duration(0)
	if variant == "slow-verifier" {
		delay = 10 * time.Second
		now = now.Add(delay)
	}
	var opts *auth.RequireBearerTokenOptions
	skew := time.Duration(0)
	switch optk {
	case "nil":
	case "empty":
		opts = &auth.RequireBearerTokenOptions{}
	case "url":
		opts = &auth.RequireBearerTokenOptions{ResourceMetadataURL: "https://rs.example/.well-known/oauth-protected-resource"}
	case "scopes":
		opts = &auth.RequireBearerTokenOptions{}
	case "url+scopes":
		opts = &auth.RequireBearerTokenOptions{ResourceMetadataURL: "https://rs.example/.well-known/oauth-protected-resource"}
	case "allow-missing":
		opts = &auth.RequireBearerTokenOptions{AllowMissingExpiration: true}
	case "skew":
		opts = &auth.RequireBearerTokenOptions{ClockSkew: 5 * time.Second}
	default:
		opts = &auth.RequireBearerTokenOptions{ClockSkew: 5 * time.Second, AllowMissingExpiration: true, ResourceMetadataURL: "https://rs.example/.well-known/oauth-protected-resource"}
	}
	if opts != nil {
		skew = opts.ClockSkew
		// required scopes are an option; with nil options nothing can be required
		if optk != "empty" && optk != "url" {
			opts.Scopes = required
		}
	}
	effRequired := []string(nil)
	if opts != nil {
		effRequired = opts.Scopes
	}
	var expiration time.Time
	switch exp {
	case "zero":
	case "past-hour":
		expiration = now.Add(-time.Hour)
	case "now-skew-1ns":
		expiration = now.Add(-skew - 1)
	case "now-skew":
		expiration = now.Add(-skew)
	case "now-skew+1ns":
		expiration = now.Add(-skew + 1)
	case "now-1ns":
		expiration = now.Add(-1)
	case "far-future":
		expiration = time.Date(9999, 12, 31, 23, 59, 59, 0, time.UTC) // a "never expires" sentinel, beyond the range of a Duration
	case "now":
		expiration = now
	default:
		expiration = now.Add(time.Hour)
	}
	info := &auth.TokenInfo{Scopes: granted, Expiration: expiration, UserID: "u", Extra: map[string]any{"tenant": "t1"}}
	infoWas := *info // what the verifier hands out, member by member (the middleware has no business changing it)
	infoWas.Scopes = append([]string(nil), granted...)
	verifierCalls := 0
	verifier := func(ctx context.Context, token string, req *http.Request) (*auth.TokenInfo, error) {
		verifierCalls++
		if delay > 0 {
			time.Sleep(delay)
		}
		switch outcome {
		case "ok":
			return info, nil
		case "invalid-token":
			return nil, auth.ErrInvalidToken
		case "invalid-token-wrapped":
			return nil, fmt.Errorf("bad signature: %w", auth.ErrInvalidToken)
		case "oauth-error":
			return nil, fmt.Errorf("%w: invalid_request", auth.ErrOAuth)
		case "other-error":
			return nil, errors.New("database down")
		case "invalid-token+info":
			return info, fmt.Errorf("signature check failed: %w", auth.ErrInvalidToken)
		case "oauth-error+info":
			return info, fmt.Errorf("%w: invalid_request", auth.ErrOAuth)
		case "other-error+info":
			return info, errors.New("database down")
		case "invalid-token-joined":
			return nil, errors.Join(errors.New("kid unknown"), auth.ErrInvalidToken)
		case "invalid-token-double":
			return nil, fmt.Errorf("%w: %w", auth.ErrInvalidToken, errors.New("signature mismatch"))
		case "invalid-token-custom-is":
			return nil, c14IsErr{auth.ErrInvalidToken}
		case "oauth-error-joined":
			return nil, fmt.Errorf("request refused: %w", errors.Join(auth.ErrOAuth, errors.New("invalid_request")))
		}
		return nil, nil
	}
	handlerRuns := 0
	var seen *auth.TokenInfo
	h := auth.RequireBearerToken(verifier, opts)(http.HandlerFunc(func(w http.ResponseWriter, r *http.Request) {
		handlerRuns++
		seen = auth.TokenInfoFromContext(r.Context())
		w.WriteHeader(299)
	}))
	if stacked {
		// a site-wide bearer middleware in front, with its own verifier that admits every credential
		outerInfo := &auth.TokenInfo{UserID: "outer", Scopes: []string{"outer-scope"}, Expiration: now.Add(time.Hour)}
		inner := h
		h = auth.RequireBearerToken(func(context.Context, string, *http.Request) (*auth.TokenInfo, error) { return outerInfo, nil }, nil)(inner)
	}
	var req *http.Request
	switch variant {
	case "post":
		req = httptest.NewRequest("POST", "https://rs.example/mcp", strings.NewReader(`{"jsonrpc":"2.0","id":1,"method":"ping"}`))
		req.Header.Set("Content-Type", "application/json")
	case "options-preflight":
		req = httptest.NewRequest("OPTIONS", "https://rs.example/mcp", nil)
		req.Header.Set("Origin", "https://app.example")
		req.Header.Set("Access-Control-Request-Method", "POST")
		req.Header.Set("Access-Control-Request-Headers", "authorization, content-type")
	default:
		req = httptest.NewRequest("GET", "https://rs.example/mcp", nil)
	}
	if header != "" {
		req.Header.Set("Authorization", header)
	}
	rec := httptest.NewRecorder()
	h.ServeHTTP(rec, req)
	st := rec.Code
	admitted := st == 299

	// ---- reference predicate
	contains := func(xs []string, x string) bool {
		for _, y := range xs {
			if y == x {
				return true
			}
		}
		return false
	}
	scopesOK := true
	for _, r := range effRequired {
		if !contains(granted, r) {
			scopesOK = false
		}
	}
	var expired bool
	if expiration.IsZero() {
		expired = !(opts != nil && opts.AllowMissingExpiration)
	} else {
		expired = expiration.Add(skew).Before(now)
	}
	var want []int
	switch {
	case class == "invalid":
		want = []int{401}
	case strings.HasPrefix(outcome, "invalid-token"):
		want = []int{401}
	case strings.HasPrefix(outcome, "oauth-error"):
		want = []int{400}
	case outcome == "other-error" || outcome == "nil-info" || outcome == "other-error+info":
		want = []int{500}
	case !scopesOK && expired:
		want = []int{401, 403}
	case !scopesOK:
		want = []int{403}
	case expired:
		want = []int{401}
	default:
		want = []int{299}
	}
	if class == "borderline" {
		want = append(want, 401)
	}
	ok := false
	for _, w := range want {
		if st == w {
			ok = true
		}
	}
	if !ok {
		c.Violate("wrong-admission", "request %s, header %q, verifier %s, required %v granted %v, exp %s, opts %s: status %d, reference predicate expects %v", variant, header, outcome, effRequired, granted, exp, optk, st, want)
		return
	}
	if admitted {
		if handlerRuns != 1 {
			c.Violate("handler-run-count", "admitted request ran the handler %d times", handlerRuns)
			return
		}
		if seen != info {
			c.Violate("token-info-not-passed", "handler saw TokenInfo %p, verifier returned %p", seen, info)
			return
		}
	}
	if !info.Expiration.Equal(infoWas.Expiration) || info.Expiration != infoWas.Expiration || info.UserID != infoWas.UserID || !slices.Equal(info.Scopes, infoWas.Scopes) || !reflect.DeepEqual(info.Extra, map[string]any{"tenant": "t1"}) {
		c.Violate("token-info-altered", "the verifier's TokenInfo was %+v before the request and is %+v after it (status %d, opts %s)", infoWas, *info, st, optk)
		return
	}
	if admitted {
	} else if handlerRuns != 0 {
		c.Violate("rejected-request-reached-handler", "status %d but the handler ran %d time(s)", st, handlerRuns)
		return
	}
	if class == "invalid" && verifierCalls != 0 {
		c.Violate("verifier-called-without-credential", "header %q is not a bearer credential but the verifier was called", header)
		return
	}
	// challenge
	ch := rec.Result().Header.Values("WWW-Authenticate") // the headers as they stood when the status line was written, which is what a client gets
	wantURL := opts != nil && opts.ResourceMetadataURL != ""
	wantScope := opts != nil && len(opts.Scopes) > 0
	if stacked && class != "valid" {
		// the outer middleware (no options) may have answered: its challenge is not the one under test
	} else if st == 401 || st == 403 {
		if (wantURL || wantScope) && len(ch) == 0 {
			c.Violate("challenge-missing", "status %d without WWW-Authenticate although resource metadata / scopes are configured (opts %s)", st, optk)
			return
		}
		joined := strings.Join(ch, ", ")
		if wantURL && !strings.Contains(joined, `resource_metadata="https://rs.example/.well-known/oauth-protected-resource"`) {
			c.Violate("challenge-incomplete", "status %d challenge %q lacks the configured resource_metadata", st, joined)
			return
		}
		if wantScope && !strings.Contains(joined, `scope="`+strings.Join(opts.Scopes, " ")+`"`) {
			c.Violate("challenge-incomplete", "status %d challenge %q lacks the configured scope %q", st, joined, strings.Join(opts.Scopes, " "))
			return
		}
		if len(ch) > 0 && !strings.HasPrefix(ch[0], "Bearer") {
			c.Violate("challenge-incomplete", "challenge %q is not a Bearer challenge", ch[0])
			return
		}
	} else if len(ch) != 0 {
		c.Violate("challenge-on-wrong-status", "status %d carries a WWW-Authenticate challenge %q", st, ch)
		return
	}
	c.Count("cells", 1)
	if admitted {
		c.Count("admitted", 1)
	}
}

// c14IsErr matches its target only through an Is method (no Unwrap chain).
type c14IsErr struct{ target error }

func (e c14IsErr) Error() string        { return "token rejected by policy" }
func (e c14IsErr) Is(target error) bool { return target == e.target }
