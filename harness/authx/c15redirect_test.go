//go:build verif

// C15, through the streamable client: "what was asked for" is the endpoint the application configured. If that
// endpoint redirects the POST to another origin which then demands authorization for itself, the documents of
// that other origin describe another resource: they are not used, no authorization is attempted with them and
// no token is installed.
package authx

import (
	"context"
	"fmt"
	"io"
	"net/http"
	"strings"
	"sync"

	"github.com/modelcontextprotocol/go-sdk/auth"
	"github.com/modelcontextprotocol/go-sdk/internal/verifharness/vh"
	"github.com/modelcontextprotocol/go-sdk/mcp"
	"github.com/modelcontextprotocol/go-sdk/oauthex"
)

type c15RedirectWorld struct {
	mu        sync.Mutex
	log       *vh.Log
	status    int  // status of the redirect
	sameAfter bool // B's metadata names A's resource (then it does match what was asked for)
	requests  []string
}

func (w *c15RedirectWorld) RoundTrip(req *http.Request) (*http.Response, error) {
	w.mu.Lock()
	w.requests = append(w.requests, req.Method+" "+req.URL.String())
	w.mu.Unlock()
	w.log.Add("http", "method", req.Method, "url", req.URL.String())
	resp := func(status int, hdr map[string]string, body string) *http.Response {
		h := http.Header{}
		for k, v := range hdr {
			h.Set(k, v)
		}
		return &http.Response{StatusCode: status, Status: fmt.Sprintf("%d %s", status, http.StatusText(status)), Proto: "HTTP/1.1", ProtoMajor: 1, ProtoMinor: 1,
			Header: h, Body: io.NopCloser(strings.NewReader(body)), Request: req, ContentLength: int64(len(body))}
	}
	if req.Body != nil {
		io.Copy(io.Discard, req.Body)
		req.Body.Close()
	}
	u := req.URL
	switch {
	case u.Host == "mcp-a.example" && u.Path == "/mcp":
		return resp(w.status, map[string]string{"Location": "https://mcp-b.example/mcp"}, ""), nil
	case u.Host == "mcp-b.example" && u.Path == "/mcp":
		return resp(401, map[string]string{"WWW-Authenticate": `Bearer resource_metadata="https://mcp-b.example/.well-known/oauth-protected-resource/mcp"`, "Content-Type": "text/plain"}, "unauthorized"), nil
	case u.Host == "mcp-b.example" && strings.HasPrefix(u.Path, "/.well-known/oauth-protected-resource"):
		res := "https://mcp-b.example/mcp"
		if w.sameAfter {
			res = "https://mcp-a.example/mcp"
		}
		return resp(200, map[string]string{"Content-Type": "application/json"}, fmt.Sprintf(`{"resource":%q,"authorization_servers":["https://as-b.example"]}`, res)), nil
	case u.Host == "as-b.example" && strings.HasPrefix(u.Path, "/.well-known/"):
		return resp(200, map[string]string{"Content-Type": "application/json"}, `{"issuer":"https://as-b.example","authorization_endpoint":"https://as-b.example/authorize","token_endpoint":"https://as-b.example/token","code_challenge_methods_supported":["S256"],"response_types_supported":["code"]}`), nil
	case u.Host == "as-b.example" && u.Path == "/token":
		return resp(200, map[string]string{"Content-Type": "application/json"}, `{"access_token":"token-from-as-b","token_type":"Bearer","expires_in":3600}`), nil
	}
	return resp(404, map[string]string{"Content-Type": "text/plain"}, "not found"), nil
}

func runC15Redirect(c *vh.Case) {
	r := c.R
	w := &c15RedirectWorld{log: c.Log, status: []int{307, 308}[r.Intn(2)], sameAfter: r.Chance(1, 4)}
	fetched := 0
	_ = fetched
	cfg := &auth.AuthorizationCodeHandlerConfig{RedirectURL: "http://localhost:3000/cb", Client: &http.Client{Transport: w},
		PreregisteredClient: &oauthex.ClientCredentials{ClientID: "pre-id", ClientSecretAuth: &oauthex.ClientSecretAuth{ClientSecret: "pre-secret"}},
		AuthorizationCodeFetcher: func(ctx context.Context, args *auth.AuthorizationArgs) (*auth.AuthorizationResult, error) {
			fetched++
			c.Log.Add("authorization-url", "url", args.URL)
			u := args.URL
			state := ""
			if i := strings.Index(u, "state="); i >= 0 {
				state = u[i+6:]
				if j := strings.IndexByte(state, '&'); j >= 0 {
					state = state[:j]
				}
			}
			return &auth.AuthorizationResult{Code: "code-1", State: state}, nil
		}}
	h, err := auth.NewAuthorizationCodeHandler(cfg)
	if err != nil {
		c.Inconclusive("handler config rejected: %v", err)
		return
	}
	c.SetSpec(map[string]any{"gen": "redirected-endpoint", "redirect_status": w.status, "metadata_names_configured_resource": w.sameAfter})
	client := mcp.NewClient(&mcp.Implementation{Name: "c", Version: "1"}, nil)
	ct := &mcp.StreamableClientTransport{Endpoint: "https://mcp-a.example/mcp", HTTPClient: &http.Client{Transport: w}, OAuthHandler: h, MaxRetries: -1}
	cs, cerr := client.Connect(context.Background(), ct, &mcp.ClientSessionOptions{ProtocolVersion: "2025-06-18"})
	if cs != nil {
		cs.Close()
	}
	c.Log.Add("connect-returned", "err", fmt.Sprint(cerr))
	ts, _ := h.TokenSource(context.Background())
	if !w.sameAfter {
		// the only metadata on offer describes https://mcp-b.example/mcp, which is not what was asked for
		// (falling back to the configured origin's own default endpoints is the handler's business; anything that
		// involves the authorization server named by the other resource's document, or that resource, is not)
		w.mu.Lock()
		reqs := append([]string(nil), w.requests...)
		w.mu.Unlock()
		for _, q := range reqs {
			if strings.Contains(q, "as-b.example") {
				c.Violate("authorized-for-another-resource", "the configured endpoint https://mcp-a.example/mcp redirected (%d) to https://mcp-b.example/mcp, whose metadata names itself as the resource; the client went on to use the authorization server that document names: %s; requests: %v", w.status, q, reqs)
				return
			}
		}
		for _, e := range c.Log.Events() {
			if e.Kind == "authorization-url" {
				if u := fmt.Sprint(e.F["url"]); strings.Contains(u, "as-b.example") || strings.Contains(u, "mcp-b.example") {
					c.Violate("authorized-for-another-resource", "authorization URL %s uses values of the redirected-to resource's metadata", u)
					return
				}
			}
		}
		_ = ts
	}
	c.Count("redirected_endpoint_cases", 1)
	c.Nontrivial(fmt.Sprintf("redirect/%d/%v", w.status, w.sameAfter))
}
