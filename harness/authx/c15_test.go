//go:build verif

// C15 — the OAuth client flow trusts only matching, safe metadata and a matching state/iss.
//
// The real AuthorizationCodeHandler.Authorize runs against a scripted world
// reached only through the injected http.Client and the AuthorizationCodeFetcher:
// a resource server answering 401/403 with generated WWW-Authenticate challenges,
// protected-resource metadata at its three locations, authorization-server
// metadata at its locations, registration and token endpoints. Every document
// the world serves embeds a unique marker in every endpoint, scope and client id
// it names, so each later contact (HTTP request, authorization URL, token
// request) can be traced to the document that caused it. The monitor checks
// safety invariants from the statement on every observed event; it does not
// predict the outcome of the flow.
package authx

import (
	"context"
	"crypto/sha256"
	"encoding/base64"
	"errors"
	"fmt"
	"io"
	"net"
	"net/http"
	"net/netip"
	"net/url"
	"regexp"
	"sort"
	"strings"
	"sync"
	"testing"
	"time"

	"github.com/modelcontextprotocol/go-sdk/auth"
	"github.com/modelcontextprotocol/go-sdk/internal/verifharness/vh"
	"github.com/modelcontextprotocol/go-sdk/oauthex"
	"golang.org/x/oauth2"
)

type c15Spec struct {
	Server    string    `json:"server"`     // MCP server URL
	Status    int       `json:"status"`     // 401 | 403
	Challenge string    `json:"challenge"`  // shape of WWW-Authenticate
	PRM       [3]string `json:"prm"`        // document variant at: challenge URL, path location, root location
	ASKind    string    `json:"as_kind"`    // host | host-path | loopback-path
	ASM       [3]string `json:"asm"`        // document variant per metadata location
	ASMFlags  []string  `json:"asm_flags"`  // cimd, iss, reg, post, basic, offline
	Reg       string    `json:"reg"`        // registration configuration of the handler
	Bound     string    `json:"bound"`      // pre-registered issuer binding: none | same | slash | port | host | path | scheme
	BoundTo   int       `json:"bound_to"`   // which PRM location's issuer the binding refers to (3 = fallback root)
	DCR       string    `json:"dcr"`        // registration response variant
	State     string    `json:"state"`      // what the fetcher returns as state
	Iss       string    `json:"iss"`        // what the fetcher returns as iss
	FetchErr  bool      `json:"fetch_err"`  // the fetcher fails
	Token     string    `json:"token"`      // token endpoint variant
	Mode      string    `json:"mode"`       // single | concurrent | sequential
	Initial   bool      `json:"initial"`    // handler starts with a token source
	Refresh   bool      `json:"refresh"`    // RequestRefreshToken
	TimeoutMs int       `json:"timeout_ms"` // context deadline of Authorize
	// Redirect: the first request of this kind (prm | asm | dcr | token) is answered with a redirect (302 for GET,
	// 307 for POST) to the same path on another host: over plain http ("http", which no request may ever follow) or
	// over https ("https").
	Redirect   string `json:"redirect,omitempty"`
	RedirectTo string `json:"redirect_to,omitempty"`
	// ClientPolicy: the application's http.Client has a redirect policy of its own ("at most 5 hops"), which says
	// nothing about schemes or hosts.
	ClientPolicy bool `json:"client_policy,omitempty"`
}

var (
	c15PRMBad = []string{"404", "500", "neterr", "timeout", "badct", "badjson", "res-host", "res-suffix", "res-path", "res-scheme", "res-port", "res-empty", "res-prefix", "res-parent",
		"as-http", "as-http-second", "as-js", "as-js-second", "as-data", "as-vbscript-second", "as-empty", "as-http-lookalike",
		"url-script:jwks_uri", "url-script:resource_documentation", "url-script:resource_policy_uri", "url-script:resource_tos_uri"}
	c15PRMOk  = []string{"ok", "ok", "ok", "ok-2as"}
	c15ASMBad = []string{"404", "404", "410", "500", "503", "neterr", "timeout", "badct", "badjson", "empty-object",
		"iss-host", "iss-suffix", "iss-port", "iss-path", "iss-scheme", "iss-empty", "iss-prefix",
		"nopkce-absent", "nopkce-empty",
		"ep-http:authorization_endpoint", "ep-http:token_endpoint", "ep-http:registration_endpoint", "ep-http:introspection_endpoint", "ep-lookalike:token_endpoint",
		"ep-script:authorization_endpoint", "ep-script:token_endpoint", "ep-script:jwks_uri", "ep-script:registration_endpoint", "ep-script:service_documentation",
		"ep-script:op_policy_uri", "ep-script:op_tos_uri", "ep-script:revocation_endpoint", "ep-script:introspection_endpoint"}
	c15ASMOk = []string{"ok", "ok", "ok", "iss-slash", "ok-loopback-ep"}
	// opaque forms, and authority forms whose host is a loopback address (a loopback host does not make a script URL safe)
	c15Schemes = []string{"javascript:alert(1)//", "data:text/html,x//", "vbscript:msgbox//", "JavaScript:alert(1)//", "DATA:text/html,",
		"javascript://127.0.0.1/%0Aalert(1)//", "data://[::1]/text/html,x//", "vbscript://localhost/msgbox//",
		// forms a browser still runs: it strips leading blanks and control characters, and tabs and line ends anywhere
		" javascript:alert(1)//", "\tjavascript:alert(1)//", "java\tscript:alert(1)//", "\x01javascript:alert(1)//", " data:text/html,x//", "jav\nascript:alert(1)//"}
	c15Marker = regexp.MustCompile(`q[pad][0-9]+q`)
)

func genC15(r *vh.Rand, idx int) c15Spec {
	s := c15Spec{Status: 401, Mode: "single", TimeoutMs: 30000}
	s.Server = []string{"https://mcp.example/mcp", "https://mcp.example/mcp", "https://mcp.example", "https://mcp.example/a/b", "https://mcp.example:8443/mcp",
		"http://localhost:8931/mcp", "http://127.0.0.1:8931/mcp", "http://[::1]:8931/mcp", "http://mcp.example/mcp", "http://localhost.evil.example/mcp", "http://127.0.0.1.evil.example:8931/mcp"}[r.Intn(11)]
	s.Challenge = []string{"none", "rm", "rm", "rm", "rm-scope", "rm-quoted-comma", "two-headers", "two-in-one", "rm-http", "rm-script", "rm-loopback", "malformed", "scope-only", "rm-unquoted", "decoy-quoted", "decoy-only", "decoy-escaped", "rm-second-challenge"}[r.Intn(18)]
	if r.Chance(1, 8) {
		s.Status = 403
		s.Challenge = r.Choose("403-insufficient", "403-insufficient", "403-invalid-token", "none")
	}
	s.ASKind = r.Choose("host", "host", "host-path", "loopback-path")
	// Most stages are well-formed; a few defects are placed at random stages.
	for i := range s.PRM {
		s.PRM[i] = c15PRMOk[r.Intn(len(c15PRMOk))]
		if r.Chance(1, 20) {
			s.PRM[i] = "ok-loopback-as"
		}
	}
	for i := range s.ASM {
		s.ASM[i] = c15ASMOk[r.Intn(len(c15ASMOk))]
	}
	for _, f := range []string{"cimd", "iss", "reg", "post", "basic", "offline"} {
		if r.Chance(1, 2) || (f == "reg" && r.Chance(1, 2)) {
			s.ASMFlags = append(s.ASMFlags, f)
		}
	}
	s.Reg = r.Choose("cimd", "prereg", "prereg", "dcr", "dcr", "cimd+prereg", "cimd+dcr", "prereg+dcr", "all")
	s.Bound = "none"
	s.DCR = r.Choose("ok", "ok", "ok", "ok200", "ok-none", "ok-post", "ok-basic")
	s.State, s.Iss, s.Token = "equal", "absent", r.Choose("ok", "ok", "ok-noexpiry", "ok-scope")
	if has(s.ASMFlags, "iss") {
		s.Iss = "equal"
	}
	s.Initial = r.Chance(1, 3)
	s.Refresh = r.Chance(1, 4)

	// PRM: earlier locations are often absent so that later ones get used
	switch r.Intn(6) {
	case 0:
		s.PRM[0] = r.Choose("404", "500", "neterr")
	case 1:
		s.PRM[0], s.PRM[1] = r.Choose("404", "badct"), r.Choose("404", "500")
	case 2:
		s.PRM[0], s.PRM[1], s.PRM[2] = "404", "404", r.Choose("404", "500", "neterr")
	}
	switch r.Intn(5) {
	case 0:
		s.ASM[0] = "404"
	case 1:
		s.ASM[0], s.ASM[1] = "404", "404"
	case 2:
		if r.Chance(1, 2) {
			s.ASM[0], s.ASM[1], s.ASM[2] = "404", "404", "404"
		}
	}
	nDefects := []int{0, 1, 1, 1, 2, 2, 3}[r.Intn(7)]
	for d := 0; d < nDefects; d++ {
		switch r.Intn(9) {
		case 0, 1:
			s.PRM[r.Intn(3)] = c15PRMBad[r.Intn(len(c15PRMBad))]
		case 2, 3, 4:
			s.ASM[r.Intn(3)] = c15ASMBad[r.Intn(len(c15ASMBad))]
		case 5:
			if !strings.Contains(s.Reg, "prereg") {
				s.Reg = r.Choose("prereg", "prereg+dcr", "cimd+prereg")
			}
			s.Bound = r.Choose("same", "slash", "port", "host", "path", "scheme", "suffix")
			s.BoundTo = r.Intn(4)
		case 6:
			s.State = r.Choose("other", "empty", "suffix", "prefix", "case", "space")
			if r.Chance(1, 3) {
				s.Mode = r.Choose("concurrent", "sequential")
				s.State = "swap"
			}
		case 7:
			s.Iss = r.Choose("absent", "equal", "other", "suffix", "slash", "case")
			if r.Chance(1, 8) {
				s.FetchErr = true
			}
		case 8:
			if r.Chance(1, 2) {
				s.DCR = r.Choose("400", "500", "noid", "redirect-js", "neterr", "logo-data", "badjson", "redirect-js-200", "logo-data-200", "client-uri-vbscript", "tos-js-200", "policy-data", "jwks-js-200", "logo-blank-js-200", "client-uri-tab-js")
				if !strings.Contains(s.Reg, "dcr") && s.Reg != "all" {
					s.Reg = "dcr"
				}
			} else {
				s.Token = r.Choose("400", "500", "neterr", "badjson", "timeout", "401")
			}
		}
	}
	if s.Mode == "single" && r.Chance(1, 10) {
		s.Mode = r.Choose("concurrent", "sequential")
	}
	if s.Bound != "none" && r.Chance(1, 2) {
		// make sure the bound credentials come into play
		s.Reg = r.Choose("prereg", "prereg+dcr")
	}
	if r.Chance(1, 6) {
		s.Redirect, s.RedirectTo = r.Choose("prm", "asm", "asm", "dcr", "token", "token"), r.Choose("http", "http", "https")
		s.ClientPolicy = r.Bool()
	}
	return s
}

func has(xs []string, x string) bool {
	for _, y := range xs {
		if y == x {
			return true
		}
	}
	return false
}

type c15Doc struct {
	kind       string // prm | asm | dcr
	variant    string
	acceptable bool
	served     bool
	issuer     string // prm: the issuer it names; asm: the issuer identifier the document claims
	asked      string // asm: the issuer it was asked for
	issParam   bool
}

type c15Attempt struct {
	n          int
	authURL    string
	state      string
	challenge  string
	clientID   string
	code       string
	retState   string
	retIss     string
	mustReject string // non-empty: why the authorization result must not be exchanged
	asmMarker  string
	issuer     string
	exchanged  int
	minted     []string
}

type c15World struct {
	c          *vh.Case
	spec       c15Spec
	mu         sync.Mutex
	redirected bool

	serverURL   *url.URL
	challengeRM string
	docs        map[string]*c15Doc
	asmKeys     map[string]string // issuer-key|loc -> marker
	nextMarker  int
	attempts    []*c15Attempt
	byCode      map[string]*c15Attempt
	preID       string
	preSecret   string
	boundIssuer string
	minted      map[string]*c15Attempt
	requests    int
	rejectSeen  map[string]bool
}

func c15Loopback(host string) bool {
	h, _, err := net.SplitHostPort(host)
	if err != nil {
		h = host
	}
	h = strings.Trim(h, "[]")
	if h == "localhost" {
		return true
	}
	ip, err := netip.ParseAddr(h)
	return err == nil && ip.IsLoopback()
}

// c15RequestKind classifies a request of the flow by its path.
func c15RequestKind(p string, isChallengeRM bool) string {
	switch {
	case isChallengeRM || strings.HasPrefix(p, "/.well-known/oauth-protected-resource"):
		return "prm"
	case strings.Contains(p, "/.well-known/oauth-authorization-server") || strings.Contains(p, "/.well-known/openid-configuration"):
		return "asm"
	case strings.Contains(p, "/register"):
		return "dcr"
	case strings.Contains(p, "/token"):
		return "token"
	}
	return ""
}

func c15SafeTarget(u *url.URL) bool {
	return u.Scheme == "https" || c15Loopback(u.Host)
}

// issuerFor returns the issuer identifier that the PRM document at location loc names.
func (w *c15World) issuerFor(loc int) string {
	if loc >= 3 {
		r := *w.serverURL
		r.Path, r.RawQuery = "", ""
		return r.String()
	}
	m := fmt.Sprintf("qp%dq", loc)
	kind := w.spec.ASKind
	if w.spec.PRM[loc] == "ok-loopback-as" {
		kind = "loopback-path"
	}
	switch kind {
	case "host-path":
		return "https://as-" + m + ".example/tenant/" + m
	case "loopback-path":
		return "http://localhost:9100/as/" + m
	}
	return "https://as-" + m + ".example"
}

func c15MangleIssuer(iss, how string) string {
	u, _ := url.Parse(iss)
	switch how {
	case "slash":
		return iss + "/"
	case "port":
		if u.Port() == "" {
			u.Host = u.Hostname() + ":8443"
		} else {
			u.Host = u.Hostname() + ":1" + u.Port()
		}
		return u.String()
	case "host":
		u.Host = "evil-" + strings.ReplaceAll(u.Host, "localhost", "localhost.example")
		return u.String()
	case "suffix":
		if u.Port() == "" {
			u.Host = u.Hostname() + ".evil.example"
		} else {
			u.Host = u.Hostname() + ".evil.example:" + u.Port()
		}
		return u.String()
	case "path":
		return iss + "/other"
	case "scheme":
		if u.Scheme == "https" {
			u.Scheme = "http"
		} else {
			u.Scheme = "https"
		}
		return u.String()
	case "prefix":
		return iss[:len(iss)-1]
	case "empty":
		return ""
	case "case":
		return strings.ToUpper(iss[:1]) + iss[1:]
	}
	return iss
}

// issuersSame is the reference comparison: identical strings; a difference of one
// trailing slash is borderline (reported as "maybe").
func issuersSame(a, b string) (same, borderline bool) {
	if a == b {
		return true, false
	}
	if strings.TrimSuffix(a, "/") == strings.TrimSuffix(b, "/") {
		return false, true
	}
	return false, false
}

func (w *c15World) violate(key, format string, args ...any) {
	w.c.Violate(key, format, args...)
}

// checkMarkers enforces I2 on a string that the SDK is about to use (a URL it
// contacts, the authorization URL, a token request).
// c15Random matches the random components (PKCE challenge/verifier, state) of URLs and forms: their
// base64url/base32 alphabets could spell a marker by chance.
var c15Random = regexp.MustCompile(`(code_challenge|code_verifier|state)=[^&\s]*`)

func (w *c15World) checkMarkers(where, s string) {
	for _, m := range c15Marker.FindAllString(c15Random.ReplaceAllString(s, "$1=-"), -1) {
		d := w.docs[m]
		switch {
		case d == nil || !d.served:
			w.violate("unserved-marker", "%s mentions %s, which no served document named: %s", where, m, s)
		case !d.acceptable:
			w.violate("used-rejected-document/"+d.kind+"/"+strings.SplitN(d.variant, ":", 2)[0], "%s uses a value named only by the %s document %s, which must be rejected (%s): %s", where, d.kind, m, d.variant, s)
		}
	}
}

func (w *c15World) checkPrereg(where, s string, issuerMarker string) {
	if w.boundIssuer == "" || w.preID == "" {
		return
	}
	if !strings.Contains(s, w.preID) && !strings.Contains(s, w.preSecret) {
		return
	}
	issuer := ""
	if d := w.docs[issuerMarker]; d != nil {
		issuer = d.issuer
		if d.kind == "asm" {
			issuer = d.asked
		}
	} else {
		issuer = issuerMarker
	}
	if same, borderline := issuersSame(issuer, w.boundIssuer); !same && !borderline {
		w.violate("preregistered-credentials-wrong-issuer", "%s carries the credentials pre-registered for issuer %q, but the authorization server in use is %q: %s", where, w.boundIssuer, issuer, s)
	}
}

func jsonResp(req *http.Request, status int, ct, body string) *http.Response {
	h := http.Header{}
	if ct != "" {
		h.Set("Content-Type", ct)
	}
	return &http.Response{StatusCode: status, Status: fmt.Sprintf("%d %s", status, http.StatusText(status)), Proto: "HTTP/1.1", ProtoMajor: 1, ProtoMinor: 1,
		Header: h, Body: io.NopCloser(strings.NewReader(body)), ContentLength: int64(len(body)), Request: req}
}

func (w *c15World) RoundTrip(req *http.Request) (*http.Response, error) {
	var body string
	if req.Body != nil {
		b, _ := io.ReadAll(req.Body)
		req.Body.Close()
		body = string(b)
	}
	u := req.URL
	if err := req.Context().Err(); err != nil {
		return nil, err
	}
	w.mu.Lock()
	w.requests++
	w.c.Log.Add("http", "method", req.Method, "url", u.String())
	// I1
	if !c15SafeTarget(u) {
		w.violate("request-to-unsafe-url", "%s %s: the request target is neither https nor loopback", req.Method, u.String())
	}
	// I2
	w.checkMarkers("request "+req.Method+" "+u.String(), u.String())
	if kind := c15RequestKind(u.Path, w.challengeRM != "" && u.String() == w.challengeRM); kind != "" && kind == w.spec.Redirect && !w.redirected && !strings.HasPrefix(u.Host, "mirror.") {
		w.redirected = true
		to := *u
		to.Scheme, to.Host = w.spec.RedirectTo, "mirror."+u.Hostname()
		code := 302
		if req.Method != "GET" {
			code = 307
		}
		w.c.Seen("redirects-served", kind+"->"+w.spec.RedirectTo)
		w.c.Log.Add("redirect", "kind", kind, "to", to.String())
		w.mu.Unlock()
		return &http.Response{StatusCode: code, Status: fmt.Sprintf("%d redirect", code), Header: http.Header{"Location": {to.String()}}, Body: http.NoBody, Request: req}, nil
	}
	res, fault := w.route(req, body)
	w.mu.Unlock()
	switch fault {
	case "neterr":
		return nil, errors.New("verif: connection refused")
	case "timeout":
		<-req.Context().Done()
		return nil, req.Context().Err()
	}
	return res, nil
}

func (w *c15World) route(req *http.Request, body string) (*http.Response, string) {
	u := req.URL
	p := u.Path
	const prmWK, asWK, oidcWK = "/.well-known/oauth-protected-resource", "/.well-known/oauth-authorization-server", "/.well-known/openid-configuration"
	switch {
	case w.challengeRM != "" && u.String() == w.challengeRM:
		return w.servePRM(req, 0, w.serverURL.String())
	case strings.HasPrefix(p, prmWK):
		if u.Host != w.serverURL.Host {
			return jsonResp(req, 404, "text/plain", "no"), ""
		}
		root := *w.serverURL
		root.Path, root.RawQuery = "", ""
		if p == prmWK {
			return w.servePRM(req, 2, root.String())
		}
		return w.servePRM(req, 1, w.serverURL.String())
	case strings.HasPrefix(p, asWK):
		return w.serveASM(req, 0, strings.TrimPrefix(p, asWK))
	case strings.HasPrefix(p, oidcWK):
		return w.serveASM(req, 1, strings.TrimPrefix(p, oidcWK))
	case strings.HasSuffix(p, oidcWK):
		return w.serveASM(req, 2, strings.TrimSuffix(p, oidcWK))
	case strings.Contains(p, "/register"):
		return w.serveDCR(req, body)
	case strings.Contains(p, "/token"):
		return w.serveToken(req, body)
	}
	return jsonResp(req, 404, "text/plain", "not found"), ""
}

func (w *c15World) statusFault(req *http.Request, variant string) (*http.Response, string, bool) {
	switch variant {
	case "404", "410", "500", "503", "400", "401":
		var code int
		fmt.Sscanf(variant, "%d", &code)
		return jsonResp(req, code, "text/plain", "status "+variant), "", true
	case "neterr", "timeout":
		return nil, variant, true
	case "badct":
		return jsonResp(req, 200, "text/html", `{"resource":"x"}`), "", true
	case "badjson":
		return jsonResp(req, 200, "application/json", `{"resource": "https://mcp.example/mcp", "issuer": `), "", true
	}
	return nil, "", false
}

func (w *c15World) servePRM(req *http.Request, loc int, asked string) (*http.Response, string) {
	variant := w.spec.PRM[loc]
	w.c.Seen("prm-served", fmt.Sprintf("%d:%s", loc, variant))
	if r, f, ok := w.statusFault(req, variant); ok {
		return r, f
	}
	m := fmt.Sprintf("qp%dq", loc)
	d := &c15Doc{kind: "prm", variant: variant, acceptable: strings.HasPrefix(variant, "ok") || variant == "as-empty", served: true, issuer: w.issuerFor(loc)}
	w.docs[m] = d
	if !d.acceptable {
		w.rejectSeen["prm:"+variant] = true
	}
	resource := asked
	as := []string{d.issuer}
	au, _ := url.Parse(asked)
	switch variant {
	case "ok-2as":
		as = append(as, "https://as2-"+m+".example")
	case "res-host":
		au.Host = "other-" + au.Host
		resource = au.String()
	case "res-suffix":
		resource = c15MangleIssuer(asked, "suffix")
	case "res-path":
		resource = asked + "/x"
	case "res-scheme":
		resource = c15MangleIssuer(asked, "scheme")
	case "res-port":
		resource = c15MangleIssuer(asked, "port")
	case "res-empty":
		resource = ""
	case "res-prefix":
		// a proper string prefix of what was asked for (a different resource, possibly a different origin)
		resource = asked[:len(asked)-2]
	case "res-parent":
		// the bare origin of what was asked for; the same resource only when the asked URL has no path
		resource = au.Scheme + "://" + au.Host
		if au.Path == "" || au.Path == "/" {
			d.acceptable = true
			delete(w.rejectSeen, "prm:"+variant)
		}
	case "as-http":
		as = []string{"http://as-" + m + ".example"}
	case "as-http-lookalike":
		as = []string{"http://localhost.as-" + m + ".example"}
	case "as-http-second":
		as = append(as, "http://as2-"+m+".example")
	case "as-js":
		as = []string{"javascript:alert(1)//as-" + m + ".example"}
	case "as-js-second":
		as = append(as, "JavaScript:alert(1)//as2-"+m+".example")
	case "as-vbscript-second":
		as = append(as, "vbscript:x//as2-"+m+".example")
	case "as-data":
		as = []string{"data:text/html,as-" + m}
	case "as-empty":
		as = []string{}
	}
	doc := map[string]any{"resource": resource, "authorization_servers": as, "scopes_supported": []string{"s-" + m, "read"}, "resource_name": "verif " + m,
		"jwks_uri": "https://rs-" + m + ".example/jwks", "resource_documentation": "https://rs-" + m + ".example/docs", "resource_policy_uri": "https://rs-" + m + ".example/policy"}
	if f, ok := strings.CutPrefix(variant, "url-script:"); ok {
		// any other URL member of the document with a script-capable scheme (the document is otherwise impeccable)
		doc[f] = c15Schemes[(loc+len(asked)+len(f)+w.c.Index)%len(c15Schemes)] + "rs-" + m
	}
	return jsonResp(req, 200, "application/json; charset=utf-8", vh.JSON(doc)), ""
}

func (w *c15World) serveASM(req *http.Request, loc int, issuerPath string) (*http.Response, string) {
	variant := w.spec.ASM[loc]
	w.c.Seen("asm-served", fmt.Sprintf("%d:%s", loc, strings.SplitN(variant, ":", 2)[0]))
	if r, f, ok := w.statusFault(req, variant); ok {
		return r, f
	}
	asked := req.URL.Scheme + "://" + req.URL.Host + issuerPath
	key := fmt.Sprintf("%s|%d", asked, loc)
	m, ok := w.asmKeys[key]
	if !ok {
		w.nextMarker++
		m = fmt.Sprintf("qa%dq", w.nextMarker)
		w.asmKeys[key] = m
	}
	d := &c15Doc{kind: "asm", variant: variant, acceptable: strings.HasPrefix(variant, "ok") || variant == "iss-slash", served: true, issuer: asked, asked: asked, issParam: has(w.spec.ASMFlags, "iss")}
	w.docs[m] = d
	if !d.acceptable {
		w.rejectSeen["asm:"+variant] = true
	}
	ep := func(name string) string { return "https://ep-" + m + ".example/" + name + "/" + m }
	if variant == "ok-loopback-ep" {
		ep = func(name string) string { return "http://127.0.0.1:7000/" + name + "/" + m }
	}
	doc := map[string]any{
		"issuer":                           asked,
		"authorization_endpoint":           ep("authorize"),
		"token_endpoint":                   ep("token"),
		"jwks_uri":                         ep("jwks"),
		"response_types_supported":         []string{"code"},
		"code_challenge_methods_supported": []string{"S256"},
		"service_documentation":            ep("docs"),
		"op_policy_uri":                    ep("policy"),
		"op_tos_uri":                       ep("tos"),
		"revocation_endpoint":              ep("revoke"),
		"introspection_endpoint":           ep("introspect"),
		"scopes_supported":                 []string{"read", "sa-" + m},
	}
	if has(w.spec.ASMFlags, "reg") {
		doc["registration_endpoint"] = ep("register")
	}
	if has(w.spec.ASMFlags, "cimd") {
		doc["client_id_metadata_document_supported"] = true
	}
	if d.issParam {
		doc["authorization_response_iss_parameter_supported"] = true
	}
	var methods []string
	if has(w.spec.ASMFlags, "post") {
		methods = append(methods, "client_secret_post")
	}
	if has(w.spec.ASMFlags, "basic") {
		methods = append(methods, "client_secret_basic")
	}
	if methods != nil {
		doc["token_endpoint_auth_methods_supported"] = methods
	}
	if has(w.spec.ASMFlags, "offline") {
		doc["scopes_supported"] = []string{"read", "offline_access", "sa-" + m}
	}
	switch {
	case variant == "empty-object":
		doc = map[string]any{}
	case strings.HasPrefix(variant, "iss-"):
		d.issuer = c15MangleIssuer(asked, strings.TrimPrefix(variant, "iss-"))
		doc["issuer"] = d.issuer
	case variant == "nopkce-absent":
		delete(doc, "code_challenge_methods_supported")
	case variant == "nopkce-empty":
		doc["code_challenge_methods_supported"] = []string{}
	case strings.HasPrefix(variant, "ep-http:"):
		f := strings.TrimPrefix(variant, "ep-http:")
		doc[f] = "http://ep-" + m + ".example/" + strings.TrimSuffix(f, "_endpoint") + "/" + m
	case strings.HasPrefix(variant, "ep-lookalike:"):
		f := strings.TrimPrefix(variant, "ep-lookalike:")
		doc[f] = "http://127.0.0.1.ep-" + m + ".example/token/" + m
	case strings.HasPrefix(variant, "ep-script:"):
		f := strings.TrimPrefix(variant, "ep-script:")
		doc[f] = c15Schemes[(w.nextMarker+len(f)+w.c.Index)%len(c15Schemes)] + "ep-" + m + ".example/" + m
	}
	return jsonResp(req, 200, "application/json", vh.JSON(doc)), ""
}

func (w *c15World) serveDCR(req *http.Request, body string) (*http.Response, string) {
	variant := w.spec.DCR
	w.c.Seen("dcr-served", variant)
	if req.Method != "POST" {
		return jsonResp(req, 405, "text/plain", "method"), ""
	}
	if strings.Contains(body, w.preID) || strings.Contains(body, w.preSecret) {
		w.violate("preregistered-credentials-leaked", "a registration request carries pre-registered credentials: %s", body)
	}
	switch variant {
	case "500", "neterr", "badjson":
		r, f, _ := w.statusFault(req, variant)
		return r, f
	case "400":
		return jsonResp(req, 400, "application/json", `{"error":"invalid_client_metadata","error_description":"no"}`), ""
	}
	w.nextMarker++
	m := fmt.Sprintf("qd%dq", w.nextMarker)
	d := &c15Doc{kind: "dcr", variant: variant, acceptable: strings.HasPrefix(variant, "ok"), served: true}
	w.docs[m] = d
	if !d.acceptable {
		w.rejectSeen["dcr:"+variant] = true
	}
	doc := map[string]any{"client_id": "dcr-id-" + m, "client_secret": "dcr-secret-" + m, "redirect_uris": []string{"http://localhost:3000/cb"}}
	status := 201
	switch variant {
	case "ok200":
		status = 200
	case "ok-none":
		doc["token_endpoint_auth_method"] = "none"
		delete(doc, "client_secret")
	case "ok-post":
		doc["token_endpoint_auth_method"] = "client_secret_post"
	case "ok-basic":
		doc["token_endpoint_auth_method"] = "client_secret_basic"
	case "noid":
		delete(doc, "client_id")
		doc["client_secret"] = "dcr-secret-" + m
	case "redirect-js":
		doc["redirect_uris"] = []string{"javascript:alert(1)//" + m}
	case "logo-data":
		doc["logo_uri"] = "data:image/svg+xml," + m
	case "redirect-js-200":
		status = 200
		doc["redirect_uris"] = []string{"http://localhost:3000/cb", "JavaScript:alert(1)//" + m}
	case "logo-data-200":
		status = 200
		doc["logo_uri"] = "data:image/svg+xml," + m
	case "client-uri-vbscript":
		doc["client_uri"] = "vbscript:msgbox//" + m
	case "tos-js-200":
		status = 200
		doc["tos_uri"] = "javascript:alert(1)//" + m
	case "policy-data":
		doc["policy_uri"] = "data:text/html," + m
	case "jwks-js-200":
		status = 200
		doc["jwks_uri"] = "javascript:alert(1)//" + m
	case "logo-blank-js-200":
		status = 200
		doc["logo_uri"] = " javascript:alert(1)//" + m
	case "client-uri-tab-js":
		doc["client_uri"] = "java\tscript:alert(1)//" + m
	}
	return jsonResp(req, status, "application/json", vh.JSON(doc)), ""
}

func (w *c15World) serveToken(req *http.Request, body string) (*http.Response, string) {
	form, _ := url.ParseQuery(body)
	code := form.Get("code")
	user, pass, hasBasic := req.BasicAuth()
	if uu, err := url.QueryUnescape(user); err == nil {
		user = uu
	}
	if pp, err := url.QueryUnescape(pass); err == nil {
		pass = pp
	}
	all := body + " basic=" + user + ":" + pass
	w.c.Log.Add("token-request", "code", code, "grant", form.Get("grant_type"), "basic", hasBasic)
	w.c.Count("token-requests", 1)
	w.checkMarkers("token request", all)
	if form.Get("grant_type") != "authorization_code" {
		// refreshes are not part of this scenario
		return jsonResp(req, 400, "application/json", `{"error":"unsupported_grant_type"}`), ""
	}
	a := w.byCode[code]
	if a == nil {
		w.violate("token-request-unknown-code", "token request with a code the fetcher never returned: %s", body)
		return jsonResp(req, 400, "application/json", `{"error":"invalid_grant"}`), ""
	}
	// I4: which authorization server is this endpoint part of?
	issuerMarker := a.issuer
	if ms := c15Marker.FindAllString(req.URL.String(), -1); len(ms) > 0 {
		issuerMarker = ms[len(ms)-1]
	}
	w.checkPrereg("token request to "+req.URL.String(), all, issuerMarker)
	// I3
	if a.mustReject != "" {
		w.violate("code-exchanged-after-failed-check/"+strings.SplitN(a.mustReject, ":", 2)[0], "attempt %d: the authorization code was sent to the token endpoint although %s (authorization URL %s; fetcher returned state=%q iss=%q)", a.n, a.mustReject, a.authURL, a.retState, a.retIss)
	}
	sum := sha256.Sum256([]byte(form.Get("code_verifier")))
	if got := base64.RawURLEncoding.EncodeToString(sum[:]); got != a.challenge {
		w.violate("pkce-verifier-mismatch", "attempt %d: code_verifier %q hashes to %q, the authorization request carried code_challenge %q", a.n, form.Get("code_verifier"), got, a.challenge)
	}
	if id := form.Get("client_id"); id != "" && id != a.clientID {
		w.violate("token-request-client-id", "attempt %d: the token request names client_id %q, the authorization request %q", a.n, id, a.clientID)
	}
	if hasBasic && user != a.clientID {
		w.violate("token-request-client-id", "attempt %d: the token request authenticates as %q, the authorization request named %q", a.n, user, a.clientID)
	}
	a.exchanged++
	variant := w.spec.Token
	w.c.Seen("token-served", variant)
	if r, f, ok := w.statusFault(req, variant); ok {
		return r, f
	}
	tok := fmt.Sprintf("at-%d-%d", a.n, a.exchanged)
	a.minted = append(a.minted, tok)
	w.minted[tok] = a
	doc := map[string]any{"access_token": tok, "token_type": "Bearer", "expires_in": 3600}
	switch variant {
	case "ok-noexpiry":
		delete(doc, "expires_in")
	case "ok-scope":
		doc["scope"] = "read extra"
	}
	return jsonResp(req, 200, "application/json", vh.JSON(doc)), ""
}

// fetch is the AuthorizationCodeFetcher: it inspects the authorization URL and
// answers according to the spec.
func (w *c15World) fetch(ctx context.Context, args *auth.AuthorizationArgs, n int, others func() []*c15Attempt) (*auth.AuthorizationResult, error) {
	au, err := url.Parse(args.URL)
	w.mu.Lock()
	if err != nil {
		w.violate("authorization-url-unparsable", "%q: %v", args.URL, err)
		w.mu.Unlock()
		return nil, err
	}
	q := au.Query()
	a := &c15Attempt{n: n, authURL: args.URL, state: q.Get("state"), challenge: q.Get("code_challenge"), clientID: q.Get("client_id")}
	a.code = fmt.Sprintf("code-%d-%d", n, len(w.attempts))
	w.attempts = append(w.attempts, a)
	w.byCode[a.code] = a
	w.c.Log.Add("authorization-url", "attempt", n, "endpoint", au.Scheme+"://"+au.Host+au.Path, "client_id", a.clientID, "scope", q.Get("scope"))
	w.c.Count("authorization-urls", 1)
	w.checkMarkers("authorization URL", args.URL)
	switch au.Scheme {
	case "https":
	case "http":
		if !c15Loopback(au.Host) {
			w.violate("authorization-url-unsafe", "the user is sent to %s (neither https nor loopback)", args.URL)
		}
	default:
		w.violate("authorization-url-unsafe", "the user is sent to a %q URL: %s", au.Scheme, args.URL)
	}
	if q.Get("code_challenge_method") != "S256" || a.challenge == "" {
		w.violate("authorization-url-no-pkce", "authorization URL without an S256 code challenge: %s", args.URL)
	}
	if a.state == "" {
		w.violate("authorization-url-no-state", "authorization URL without state: %s", args.URL)
	}
	for _, prev := range w.attempts[:len(w.attempts)-1] {
		if prev.state == a.state {
			w.violate("state-reused", "attempts %d and %d use the same state %q", prev.n, a.n, a.state)
		}
	}
	// which authorization server is this?
	var asm *c15Doc
	ms := c15Marker.FindAllString(au.Scheme+"://"+au.Host+au.Path, -1)
	if len(ms) > 0 {
		a.asmMarker = ms[len(ms)-1]
		asm = w.docs[a.asmMarker]
	}
	issuer, issParam := "", false
	if asm != nil && asm.kind == "asm" {
		issuer, issParam = asm.issuer, asm.issParam
		a.issuer = asm.asked
	} else {
		// fabricated endpoints below a validated base (2025-03-26 fallback)
		issuer = strings.TrimSuffix(au.Scheme+"://"+au.Host+au.Path, "/authorize")
		a.issuer = issuer
		// The fallback is for servers without metadata. A metadata document that was found and had
		// to be rejected is a failed check: nothing may proceed with that authorization server.
		for m, d := range w.docs {
			if d.kind == "asm" && d.served && !d.acceptable && d.asked == issuer {
				w.violate("fallback-after-rejected-metadata/"+strings.SplitN(d.variant, ":", 2)[0], "the authorization server metadata %s for issuer %s had to be rejected (%s), yet the flow goes on with default endpoints: %s", m, issuer, d.variant, args.URL)
			}
		}
	}
	w.checkPrereg("authorization URL", args.URL, a.issuer)
	w.mu.Unlock()

	if w.spec.FetchErr {
		w.mu.Lock()
		a.mustReject = "fetcher-error: the fetcher reported an error"
		w.mu.Unlock()
		return nil, errors.New("verif: user denied access")
	}
	// let overlapping attempts reach their own authorization request
	if w.spec.Mode == "concurrent" {
		time.Sleep(time.Second)
	}
	w.mu.Lock()
	defer w.mu.Unlock()
	res := &auth.AuthorizationResult{Code: a.code}
	switch w.spec.State {
	case "equal":
		res.State = a.state
	case "other":
		res.State = "Zm9yZ2VkLXN0YXRlLXZhbHVlMDAwMQ"
	case "empty":
		res.State = ""
	case "suffix":
		res.State = a.state + "x"
	case "prefix":
		res.State = a.state[:len(a.state)-1]
	case "case":
		res.State = strings.ToLower(a.state)
		if res.State == a.state {
			res.State = strings.ToUpper(a.state)
		}
	case "space":
		res.State = a.state + " "
	case "swap":
		// the state of another attempt on the same handler (an earlier one, or one in flight)
		res.State = a.state
		for _, o := range others() {
			if o != a && o.state != a.state {
				res.State = o.state
			}
		}
	}
	switch w.spec.Iss {
	case "absent":
	case "equal":
		res.Iss = issuer
	case "other":
		res.Iss = "https://evil-issuer.example"
	case "suffix":
		res.Iss = c15MangleIssuer(issuer, "suffix")
	case "slash":
		res.Iss = issuer + "/"
	case "case":
		res.Iss = strings.ToUpper(issuer[:1]) + issuer[1:]
	}
	a.retState, a.retIss = res.State, res.Iss
	switch {
	case res.State != a.state:
		a.mustReject = "state-mismatch: the returned state differs from the one generated for this attempt"
	case issParam && res.Iss == "":
		a.mustReject = "iss-missing: the server advertises the iss parameter and none was returned"
	case res.Iss != "" && res.Iss != issuer:
		// spelling differences that URL normalisation would remove (a trailing slash, scheme case) are
		// borderline: RFC 9207 asks for simple string comparison, a normalising client is not unsafe
		if w.spec.Iss != "slash" && w.spec.Iss != "case" {
			a.mustReject = "iss-mismatch: the returned iss differs from the issuer"
		}
	}
	if a.mustReject != "" {
		w.rejectSeen["fetch:"+strings.SplitN(a.mustReject, ":", 2)[0]] = true
	}
	w.c.Log.Add("authorization-result", "attempt", n, "state", w.spec.State, "iss", w.spec.Iss, "must_reject", a.mustReject)
	return res, nil
}

type c15StaticTS struct{ tok *oauth2.Token }

func (s *c15StaticTS) Token() (*oauth2.Token, error) { return s.tok, nil }

func TestVerifC15(t *testing.T) {
	cfg := vh.Config{
		Property: "C15",
		Cases:    vh.Pick(20000, 600000),
		Rule: "each case: one scripted OAuth world (server URL x WWW-Authenticate shape x PRM document variant at each of 3 locations x AS metadata variant at each of up to 3 locations x capability flags x handler registration config incl. issuer-bound pre-registered credentials x registration response x fetcher result (state/iss variants) x token endpoint behaviour x single/concurrent/sequential Authorize calls); " +
			"the real AuthorizationCodeHandler.Authorize runs against it through the injected http.Client and fetcher. Every document embeds a unique marker in all values it names; the monitor checks on every HTTP request, authorization URL and token request: I1 target is https or loopback; I2 no value that only a must-reject document named is used; I3 a code is exchanged only for the state generated for that attempt, a passing RFC 9207 check and with the matching PKCE verifier; I4 issuer-bound credentials never reach another issuer; I5 after an error without successful exchange the token source is unchanged, and an installed token is one minted for an accepted attempt. " +
			"non-trivial: at least one must-reject document/result was actually delivered to the SDK, or a token was installed. distinct = distinct (delivered rejects, stages reached)",
		MinNontrivial: 1500,
		Assumptions: []string{"the injected http.Client does not follow redirects to other origins (the scripted world never redirects)",
			"issuer identifiers differing only by one trailing slash are borderline: accepting and rejecting are both allowed",
			"an iss value returned although the server does not advertise the parameter must still equal the issuer"},
	}
	vh.Run(t, cfg, func(c *vh.Case) {
		if c.Index%200 == 199 {
			c.Bubble("", func() { runC15Redirect(c) }) // see c15redirect_test.go
			return
		}
		spec := genC15(c.R, c.Index)
		c.SetSpec(spec)
		c.Bubble("", func() { runC15(c, spec) })
	})
}

func runC15(c *vh.Case, spec c15Spec) {
	w := &c15World{c: c, spec: spec, docs: map[string]*c15Doc{}, asmKeys: map[string]string{}, byCode: map[string]*c15Attempt{}, minted: map[string]*c15Attempt{}, rejectSeen: map[string]bool{}}
	w.serverURL, _ = url.Parse(spec.Server)
	w.preID, w.preSecret = "pre-id-7f3a", "pre-secret-91c2"

	// ---- the 401/403 response
	hdr := http.Header{}
	rmURL := "https://meta.example/prm/doc"
	switch spec.Challenge {
	case "none":
	case "rm":
		hdr.Add("WWW-Authenticate", `Bearer resource_metadata="`+rmURL+`"`)
		w.challengeRM = rmURL
	case "rm-unquoted":
		hdr.Add("WWW-Authenticate", `Bearer resource_metadata=`+rmURL)
		w.challengeRM = rmURL
	case "rm-scope":
		hdr.Add("WWW-Authenticate", `Bearer realm="mcp", resource_metadata="`+rmURL+`", scope="chal-a chal-b"`)
		w.challengeRM = rmURL
	case "rm-quoted-comma":
		hdr.Add("WWW-Authenticate", `Bearer realm="a, b=\"c\", Basic x=y", resource_metadata="`+rmURL+`", error="invalid_token"`)
		w.challengeRM = rmURL
	case "two-headers":
		hdr.Add("WWW-Authenticate", `Basic realm="x"`)
		hdr.Add("WWW-Authenticate", `Bearer resource_metadata="`+rmURL+`"`)
		w.challengeRM = rmURL
	case "two-in-one":
		hdr.Add("WWW-Authenticate", `Basic realm="x", Bearer resource_metadata="`+rmURL+`", scope="chal-a"`)
		w.challengeRM = rmURL
	case "rm-http":
		hdr.Add("WWW-Authenticate", `Bearer resource_metadata="http://meta.example/prm/doc"`)
		w.challengeRM = "http://meta.example/prm/doc"
	case "rm-loopback":
		hdr.Add("WWW-Authenticate", `Bearer resource_metadata="http://localhost:8931/prm/doc"`)
		w.challengeRM = "http://localhost:8931/prm/doc"
	case "rm-script":
		hdr.Add("WWW-Authenticate", `Bearer resource_metadata="javascript:alert(1)//meta.example/prm/doc"`)
	case "decoy-quoted":
		// a resource_metadata look-alike inside a quoted string is text, not a parameter
		hdr.Add("WWW-Authenticate", `Bearer realm="a, resource_metadata=http://decoy.example/prm, b", resource_metadata="`+rmURL+`", scope="chal-a"`)
		w.challengeRM = rmURL
	case "decoy-only":
		hdr.Add("WWW-Authenticate", `Bearer realm="x resource_metadata=http://decoy.example/prm", error_description="see resource_metadata=\"http://decoy.example/prm2\" for details"`)
	case "decoy-escaped":
		hdr.Add("WWW-Authenticate", `Bearer realm="quote \" then , resource_metadata=\"http://decoy.example/prm\"", resource_metadata="`+rmURL+`"`)
		w.challengeRM = rmURL
	case "rm-second-challenge":
		hdr.Add("WWW-Authenticate", `Digest realm="d", nonce="n, resource_metadata=http://decoy.example/prm", Bearer resource_metadata="`+rmURL+`"`)
		w.challengeRM = rmURL
	case "malformed":
		hdr.Add("WWW-Authenticate", `Bearer resource_metadata="`+rmURL)
	case "scope-only":
		hdr.Add("WWW-Authenticate", `Bearer scope="chal-a"`)
	case "403-insufficient":
		hdr.Add("WWW-Authenticate", `Bearer error="insufficient_scope", scope="chal-a chal-more", resource_metadata="`+rmURL+`"`)
		w.challengeRM = rmURL
	case "403-invalid-token":
		hdr.Add("WWW-Authenticate", `Bearer error="invalid_token"`)
	}

	// ---- the handler
	cfg := &auth.AuthorizationCodeHandlerConfig{RedirectURL: "http://localhost:3000/cb", Client: &http.Client{Transport: w}, RequestRefreshToken: spec.Refresh}
	if spec.ClientPolicy {
		cfg.Client.CheckRedirect = func(req *http.Request, via []*http.Request) error {
			if len(via) >= 5 {
				return errors.New("stopped after 5 redirects")
			}
			return nil
		}
	}
	reg := spec.Reg
	if reg == "all" {
		reg = "cimd+prereg+dcr"
	}
	if strings.Contains(reg, "cimd") {
		cfg.ClientIDMetadataDocumentConfig = &auth.ClientIDMetadataDocumentConfig{URL: "https://client.example/cimd.json"}
	}
	if strings.Contains(reg, "prereg") {
		cc := &oauthex.ClientCredentials{ClientID: w.preID, ClientSecretAuth: &oauthex.ClientSecretAuth{ClientSecret: w.preSecret}}
		if spec.Bound != "none" {
			w.boundIssuer = c15MangleIssuer(w.issuerFor(spec.BoundTo), spec.Bound)
			cc.Issuer = w.boundIssuer
		}
		cfg.PreregisteredClient = cc
	}
	if strings.Contains(reg, "dcr") {
		cfg.DynamicClientRegistrationConfig = &auth.DynamicClientRegistrationConfig{Metadata: &oauthex.ClientRegistrationMetadata{RedirectURIs: []string{"http://localhost:3000/cb"}, ClientName: "verif"}}
	}
	var initial oauth2.TokenSource
	if spec.Initial {
		initial = &c15StaticTS{tok: &oauth2.Token{AccessToken: "initial-token", TokenType: "Bearer"}}
		cfg.InitialTokenSource = initial
	}
	var attemptN int
	var nmu sync.Mutex
	cfg.AuthorizationCodeFetcher = func(ctx context.Context, args *auth.AuthorizationArgs) (*auth.AuthorizationResult, error) {
		nmu.Lock()
		attemptN++
		n := attemptN
		nmu.Unlock()
		return w.fetch(ctx, args, n, func() []*c15Attempt { return w.attempts })
	}
	h, err := auth.NewAuthorizationCodeHandler(cfg)
	if err != nil {
		c.Inconclusive("handler config rejected: %v", err)
		return
	}

	authorize := func(tag string) error {
		ctx, cancel := context.WithTimeout(context.Background(), time.Duration(spec.TimeoutMs)*time.Millisecond)
		defer cancel()
		req, _ := http.NewRequestWithContext(ctx, "POST", spec.Server, nil)
		resp := &http.Response{StatusCode: spec.Status, Header: hdr.Clone(), Body: io.NopCloser(strings.NewReader("unauthorized")), Request: req}
		err := h.Authorize(ctx, req, resp)
		w.mu.Lock()
		c.Log.Add("authorize-returned", "call", tag, "err", fmt.Sprint(err))
		w.mu.Unlock()
		return err
	}
	mintedCount := func() int {
		w.mu.Lock()
		defer w.mu.Unlock()
		return len(w.minted)
	}
	before, _ := h.TokenSource(context.Background())
	var errs []error
	switch spec.Mode {
	case "single":
		errs = append(errs, authorize("a"))
	case "sequential":
		e1 := authorize("a")
		mid, _ := h.TokenSource(context.Background())
		m1 := mintedCount()
		c15CheckInstalled(c, w, "first call", before, mid, e1, m1 > 0)
		before = mid
		base := m1
		e2 := authorize("b")
		after, _ := h.TokenSource(context.Background())
		c15CheckInstalled(c, w, "second call", before, after, e2, mintedCount() > base)
		errs = append(errs, e1, e2)
	case "concurrent":
		var wg sync.WaitGroup
		res := make([]error, 2)
		for i := 0; i < 2; i++ {
			wg.Add(1)
			go func(i int) {
				defer wg.Done()
				res[i] = authorize(string(rune('a' + i)))
			}(i)
		}
		wg.Wait()
		errs = res
	}
	after, _ := h.TokenSource(context.Background())
	if spec.Mode != "sequential" {
		allErr := true
		for _, e := range errs {
			if e == nil {
				allErr = false
			}
		}
		var e error
		if allErr {
			e = errs[0]
		}
		c15CheckInstalled(c, w, "call", before, after, e, mintedCount() > 0)
	}

	// ---- classification of the run
	w.mu.Lock()
	defer w.mu.Unlock()
	var rej []string
	for k := range w.rejectSeen {
		rej = append(rej, k)
	}
	sort.Strings(rej)
	stage := "discovery"
	switch {
	case len(w.minted) > 0:
		stage = "token"
	case len(w.attempts) > 0:
		stage = "authorization"
	case w.requests == 0:
		stage = "none"
	}
	c.Seen("stage", stage)
	c.Seen("reg", spec.Reg+"/"+spec.Bound)
	for _, k := range rej {
		c.Seen("reject-delivered", k)
	}
	installed := after != nil && after != initial
	if installed {
		c.Count("tokens-installed", 1)
	}
	okCalls := 0
	for _, e := range errs {
		if e == nil {
			okCalls++
		}
	}
	c.Count("authorize-ok", okCalls)
	c.Count("authorize-err", len(errs)-okCalls)
	c.Count("http-requests", w.requests)
	if len(rej) > 0 || installed || (w.boundIssuer != "" && len(w.attempts) > 0) {
		c.Nontrivial(fmt.Sprintf("%s|%v|%s|%s|%s|%v", stage, rej, spec.Mode, spec.Reg, spec.Bound, installed))
	}
}

// c15CheckInstalled enforces I5 for one Authorize call (or a group of overlapping calls).
func c15CheckInstalled(c *vh.Case, w *c15World, what string, before, after oauth2.TokenSource, err error, mintedDuring bool) {
	if after == before {
		return
	}
	// a new token source was installed
	if !mintedDuring {
		c.Violate("token-installed-without-exchange", "%s: TokenSource() changed although no token request succeeded (Authorize error: %v)", what, err)
		return
	}
	if after == nil {
		c.Violate("token-source-cleared", "%s: TokenSource() became nil", what)
		return
	}
	tok, terr := after.Token()
	if terr != nil || tok == nil {
		return
	}
	w.mu.Lock()
	a := w.minted[tok.AccessToken]
	w.mu.Unlock()
	if a == nil {
		c.Violate("installed-token-unknown", "%s: the installed token %q was not minted by the token endpoint in this scenario", what, tok.AccessToken)
		return
	}
	if a.mustReject != "" {
		c.Violate("token-installed-after-failed-check", "%s: the installed token %q belongs to attempt %d, whose authorization result had to be rejected (%s)", what, tok.AccessToken, a.n, a.mustReject)
	}
}

var _ = testing.Short
