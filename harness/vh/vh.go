//go:build verif

// Package vh is the shared runtime-monitoring harness: deterministic scenario
// RNG, per-case event log on one logical clock, synctest bubble runner that
// turns deadlocks/leaks/panics into verdicts, and the report writer consumed by
// /verif/check.
package vh

import (
	"encoding/json"
	"fmt"
	"hash/fnv"
	"math/rand/v2"
	"os"
	"path/filepath"
	"regexp"
	"runtime"
	"sort"
	"strconv"
	"strings"
	"sync"
	"sync/atomic"
	"testing"
	"testing/synctest"
	"time"
)

// ---------------------------------------------------------------- environment

func envInt(name string, def int64) int64 {
	if v := os.Getenv(name); v != "" {
		n, err := strconv.ParseInt(v, 10, 64)
		if err == nil {
			return n
		}
	}
	return def
}

// Seed is VERIF_SEED (default 1).
func Seed() uint64 { return uint64(envInt("VERIF_SEED", 1)) }

// Tier is "quick" or "thorough".
func Tier() string {
	if os.Getenv("VERIF_TIER") == "thorough" {
		return "thorough"
	}
	return "quick"
}

// Thorough reports whether the thorough tier was requested.
func Thorough() bool { return Tier() == "thorough" }

// Pick returns q in the quick tier and th in the thorough tier.
func Pick(q, th int) int {
	if Thorough() {
		return th
	}
	return q
}

// ------------------------------------------------------------------------ RNG

// Rand is a PCG stream that is a pure function of (seed, case index).
type Rand struct{ *rand.Rand }

func NewRand(seed, idx uint64) *Rand {
	return &Rand{rand.New(rand.NewPCG(seed*0x9E3779B97F4A7C15+0x1234567, idx*0xD1B54A32D192ED03+0x89ABCDEF))}
}

// Intn returns a value in [0,n).
func (r *Rand) Intn(n int) int {
	if n <= 0 {
		return 0
	}
	return r.IntN(n)
}

// Range returns a value in [lo,hi].
func (r *Rand) Range(lo, hi int) int { return lo + r.Intn(hi-lo+1) }

// Bool returns true with probability 1/2.
func (r *Rand) Bool() bool { return r.Intn(2) == 0 }

// Chance returns true with probability num/den.
func (r *Rand) Chance(num, den int) bool { return r.Intn(den) < num }

// Choose2 returns one of two ints.
func (r *Rand) Choose2(a, b int) int {
	if r.Bool() {
		return a
	}
	return b
}

// Choose returns one of the given strings.
func (r *Rand) Choose(xs ...string) string { return xs[r.Intn(len(xs))] }

// ------------------------------------------------------------------ event log

// Event is one observation at the boundary of the system under test.
type Event struct {
	Seq  int64          `json:"seq"`         // global logical clock
	T    int64          `json:"t_us"`        // virtual microseconds since the case started
	Kind string         `json:"kind"`        // event kind
	F    map[string]any `json:"f,omitempty"` // operands
}

// Log is a concurrency-safe append-only event log with one logical clock.
type Log struct {
	mu     sync.Mutex
	clock  atomic.Int64
	start  time.Time
	events []Event
}

func NewLog() *Log { return &Log{start: time.Now()} }

// ResetStart re-bases virtual time (call first thing inside a bubble).
func (l *Log) ResetStart() { l.mu.Lock(); l.start = time.Now(); l.mu.Unlock() }

// Now returns the virtual time since the start of the case.
func (l *Log) Now() time.Duration { l.mu.Lock(); defer l.mu.Unlock(); return time.Since(l.start) }

// Tick returns the next logical timestamp without recording an event.
func (l *Log) Tick() int64 { return l.clock.Add(1) }

// Add records an event; kv are alternating key, value operands.
func (l *Log) Add(kind string, kv ...any) Event {
	var f map[string]any
	if len(kv) > 0 {
		f = make(map[string]any, len(kv)/2)
		for i := 0; i+1 < len(kv); i += 2 {
			f[fmt.Sprint(kv[i])] = kv[i+1]
		}
	}
	l.mu.Lock()
	defer l.mu.Unlock()
	e := Event{Seq: l.clock.Add(1), T: int64(time.Since(l.start) / time.Microsecond), Kind: kind, F: f}
	l.events = append(l.events, e)
	return e
}

// Events returns a snapshot ordered by logical time.
func (l *Log) Events() []Event {
	l.mu.Lock()
	defer l.mu.Unlock()
	out := append([]Event(nil), l.events...)
	sort.Slice(out, func(i, j int) bool { return out[i].Seq < out[j].Seq })
	return out
}

// Find returns the events of the given kind.
func (l *Log) Find(kind string) []Event {
	var out []Event
	for _, e := range l.Events() {
		if e.Kind == kind {
			out = append(out, e)
		}
	}
	return out
}

// KindSignature is the sequence of event kinds in logical order (operands
// abstracted), used to count distinct interleavings.
func (l *Log) KindSignature() string {
	var sb strings.Builder
	for _, e := range l.Events() {
		sb.WriteString(e.Kind)
		sb.WriteByte(';')
	}
	return sb.String()
}

// ----------------------------------------------------------------- case state

// Violation is one refutation of the property by a case.
type Violation struct {
	Key    string  `json:"key"` // stable class of the failing case (known-findings key)
	Msg    string  `json:"msg"`
	Index  int     `json:"index"`
	Spec   any     `json:"spec,omitempty"`
	Events []Event `json:"events,omitempty"`
	Stack  string  `json:"stack,omitempty"`
}

// Case is the per-scenario context handed to a scenario body.
type Case struct {
	Index int
	R     *Rand
	T     *testing.T
	Log   *Log

	mu         sync.Mutex
	spec       any
	nontrivial bool
	sig        string
	violations []Violation
	inconcl    []string
	counters   map[string]int64
	sets       map[string]map[string]struct{}
}

// SetSpec records the generated scenario (kept for samples/replay witnesses).
func (c *Case) SetSpec(s any) { c.mu.Lock(); c.spec = s; c.mu.Unlock() }

// Violate records a violation of the property under check.
func (c *Case) Violate(key, format string, args ...any) {
	c.mu.Lock()
	defer c.mu.Unlock()
	if len(c.violations) >= 8 {
		return
	}
	c.violations = append(c.violations, Violation{Key: key, Msg: fmt.Sprintf(format, args...), Index: c.Index})
}

// Violated reports whether this case has recorded a violation.
func (c *Case) Violated() bool { c.mu.Lock(); defer c.mu.Unlock(); return len(c.violations) > 0 }

// Inconclusive records that the case could not be decided (harness problem).
func (c *Case) Inconclusive(format string, args ...any) {
	c.mu.Lock()
	c.inconcl = append(c.inconcl, fmt.Sprintf(format, args...))
	c.mu.Unlock()
}

// Count adds n to a named counter reported in the evidence.
func (c *Case) Count(name string, n int) {
	c.mu.Lock()
	if c.counters == nil {
		c.counters = map[string]int64{}
	}
	c.counters[name] += int64(n)
	c.mu.Unlock()
}

// Seen adds a member to a named set; the evidence reports each set's
// cardinality over the whole run (distinct states/placements observed).
func (c *Case) Seen(set, member string) {
	c.mu.Lock()
	if c.sets == nil {
		c.sets = map[string]map[string]struct{}{}
	}
	m := c.sets[set]
	if m == nil {
		m = map[string]struct{}{}
		c.sets[set] = m
	}
	m[member] = struct{}{}
	c.mu.Unlock()
}

// Nontrivial marks the case as non-trivial by the check's rule; sig
// distinguishes cases (distinct signatures are counted).
func (c *Case) Nontrivial(sig string) {
	c.mu.Lock()
	c.nontrivial = true
	c.sig = sig
	c.mu.Unlock()
}

var bubbleHdr = regexp.MustCompile(`synctest bubble \d+`)

// stacksOfBubbles returns the stacks of all goroutines that belong to a
// synctest bubble (best effort, for witnesses).
func stacksOfBubbles(bubble string) string {
	buf := make([]byte, 8<<20)
	n := runtime.Stack(buf, true)
	var out []string
	for _, g := range strings.Split(string(buf[:n]), "\n\n") {
		hdr := strings.SplitN(g, "\n", 2)[0]
		if m := bubbleHdr.FindString(hdr); m != "" && (bubble == "" || m == bubble) {
			out = append(out, g)
		}
	}
	s := strings.Join(out, "\n\n")
	if len(s) > 24000 {
		s = s[:24000] + "\n...[truncated]"
	}
	return s
}

// PanicIsSDK reports whether a recovered panic was raised in SDK code (or in
// the runtime/stdlib on behalf of SDK code) rather than in the harness: the
// innermost frame, below the panic machinery, whose *source file* belongs to
// the module decides. File paths are used, not function names, because inlined
// closures and range-over-func bodies carry the caller's name.
func PanicIsSDK(stack string) bool {
	lines := strings.Split(stack, "\n")
	seenPanic := false
	for i := 0; i < len(lines); i++ {
		ln := lines[i]
		if strings.HasPrefix(ln, "panic(") {
			seenPanic = true
			continue
		}
		if !seenPanic || !strings.HasPrefix(ln, "\t") {
			continue
		}
		file := strings.TrimSpace(ln)
		switch {
		case strings.Contains(file, "go-sdk/internal/verifharness/"):
			return false
		case strings.Contains(file, "modelcontextprotocol/go-sdk/"):
			return true
		}
	}
	return false
}

// BubbleStacks returns the stacks of all goroutines of the calling goroutine's
// own bubble (call it from inside a bubble).
func BubbleStacks() string {
	hb := make([]byte, 256)
	b := bubbleHdr.FindString(string(hb[:runtime.Stack(hb, false)]))
	if b == "" {
		return ""
	}
	return stacksOfBubbles(b)
}

// Bubble runs fn inside a synctest bubble. A bubble deadlock (every goroutine
// durably blocked, no timer pending) is recorded as violation key
// "<keyPrefix>deadlock"; goroutines left behind when fn returns as
// "<keyPrefix>leak". fn must close what it opened and sleep past the SDK's
// bounded helpers before returning. It returns false if the bubble aborted.
func (c *Case) Bubble(keyPrefix string, fn func()) (ok bool) {
	ok = true
	bubble := ""
	func() {
		defer func() {
			if r := recover(); r != nil {
				ok = false
				msg := fmt.Sprint(r)
				stack := string(debugStack())
				switch {
				case strings.Contains(msg, "deadlock: main bubble goroutine has exited"):
					c.addViolation(Violation{Key: keyPrefix + "leak", Msg: "goroutines left behind after the scenario finished: " + msg, Stack: stacksOfBubbles(bubble)})
				case strings.Contains(msg, "deadlock: all goroutines in bubble are blocked"):
					c.addViolation(Violation{Key: keyPrefix + "deadlock", Msg: "scenario hung: " + msg, Stack: stacksOfBubbles(bubble)})
				default:
					if PanicIsSDK(stack) {
						c.addViolation(Violation{Key: keyPrefix + "panic", Msg: "SDK panic: " + msg, Stack: stack})
					} else {
						c.Inconclusive("harness panic in bubble: %v\n%s", r, stack)
					}
				}
			}
		}()
		synctest.Test(c.T, func(t *testing.T) {
			c.Log.ResetStart()
			hb := make([]byte, 256)
			bubble = bubbleHdr.FindString(string(hb[:runtime.Stack(hb, false)]))
			defer func() {
				// A panic raised synchronously in the bubble's root goroutine
				// must not reach tRunner (which would kill the process).
				if r := recover(); r != nil {
					ok = false
					stack := string(debugStack())
					if PanicIsSDK(stack) {
						c.addViolation(Violation{Key: keyPrefix + "panic", Msg: fmt.Sprintf("SDK panic: %v", r), Stack: stack})
					} else {
						c.Inconclusive("harness panic in bubble root: %v\n%s", r, stack)
					}
				}
			}()
			fn()
		})
	}()
	return ok
}

// Guard is deferred in goroutines the harness itself starts: a panic raised by
// SDK code called from there becomes a violation instead of killing the
// process (and with it every other monitor).
func (c *Case) Guard(keyPrefix string) {
	if r := recover(); r != nil {
		stack := string(debugStack())
		if PanicIsSDK(stack) {
			c.addViolation(Violation{Key: keyPrefix + "panic", Msg: fmt.Sprintf("SDK panic: %v", r), Stack: stack})
		} else {
			c.Inconclusive("harness panic: %v\n%s", r, stack)
		}
	}
}

func (c *Case) addViolation(v Violation) {
	c.mu.Lock()
	v.Index = c.Index
	c.violations = append(c.violations, v)
	c.mu.Unlock()
}

func debugStack() []byte {
	buf := make([]byte, 64<<10)
	return buf[:runtime.Stack(buf, false)]
}

// ------------------------------------------------------------------- runner

// Config describes one check.
type Config struct {
	Property      string
	Cases         int    // number of cases in this tier
	Rule          string // generation + non-triviality rule (goes to evidence)
	MinNontrivial int    // fewer distinct non-trivial cases ⇒ inconclusive
	Exhaustive    bool
	Assumptions   []string
	Shards        int // parallel shards (0 ⇒ GOMAXPROCS)
	Samples       int // number of sample cases to keep (default 3)
	SampleEvents  int // events kept per sample (default 60)
}

type sample struct {
	Index  int     `json:"index"`
	Spec   any     `json:"spec,omitempty"`
	Events []Event `json:"events,omitempty"`
}

// Report is what the harness hands to /verif/check.
type Report struct {
	Property           string              `json:"property"`
	Tier               string              `json:"tier"`
	Seed               uint64              `json:"seed"`
	Evaluations        int                 `json:"evaluations"`
	Nontrivial         int                 `json:"nontrivial"`
	DistinctNontrivial int                 `json:"distinct_nontrivial"`
	Rule               string              `json:"rule"`
	Exhaustive         bool                `json:"exhaustive"`
	Assumptions        []string            `json:"assumptions"`
	Samples            []sample            `json:"samples"`
	Counters           map[string]int64    `json:"counters"`
	Distinct           map[string]int      `json:"distinct"`
	DistinctMembers    map[string][]string `json:"distinct_members,omitempty"` // up to 80 members of each set, sorted
	EventKinds         map[string]int64    `json:"event_kinds"`
	Violations         []Violation         `json:"violations"`
	Inconclusive       []string            `json:"inconclusive"`
	Stuck              []int               `json:"stuck"` // cases abandoned by the wall-clock watchdog
	MinNontrivial      int                 `json:"min_nontrivial"`
	WallS              float64             `json:"wall_s"`
}

// caseWatchdog is the wall-clock budget of a single case (virtual-time cases
// take milliseconds); exceeding it is reported as inconclusive, never as a verdict.
var caseWatchdog = time.Duration(envInt("VERIF_CASE_WATCHDOG_S", 40)) * time.Second

func onlyList() map[int]bool {
	v := os.Getenv("VERIF_ONLY")
	if v == "" {
		return nil
	}
	m := map[int]bool{}
	for _, p := range strings.Split(v, ",") {
		if n, err := strconv.Atoi(strings.TrimSpace(p)); err == nil {
			m[n] = true
		}
	}
	return m
}

func hash64(s string) uint64 { h := fnv.New64a(); h.Write([]byte(s)); return h.Sum64() }

// Run executes cfg.Cases scenarios, each a pure function of (seed, index), in
// parallel shards, and writes $VERIF_OUT/report.json.
func Run(t *testing.T, cfg Config, body func(c *Case)) {
	start := time.Now()
	out := os.Getenv("VERIF_OUT")
	if out == "" {
		out = t.TempDir()
	}
	os.MkdirAll(out, 0o755)
	shards := cfg.Shards
	if shards <= 0 {
		shards = runtime.GOMAXPROCS(0)
	}
	if cfg.Samples == 0 {
		cfg.Samples = 3
	}
	if cfg.SampleEvents == 0 {
		cfg.SampleEvents = 60
	}
	only := onlyList()
	seed := Seed()

	var mu sync.Mutex
	rep := Report{Property: cfg.Property, Tier: Tier(), Seed: seed, Rule: cfg.Rule, Exhaustive: cfg.Exhaustive,
		Assumptions: cfg.Assumptions, Counters: map[string]int64{}, Distinct: map[string]int{}, EventKinds: map[string]int64{}, MinNontrivial: cfg.MinNontrivial}
	sigs := map[uint64]struct{}{}
	sets := map[string]map[string]struct{}{}

	t.Run("shards", func(t *testing.T) {
		for sh := 0; sh < shards; sh++ {
			sh := sh
			t.Run(fmt.Sprintf("s%d", sh), func(t *testing.T) {
				t.Parallel()
				cur := filepath.Join(out, fmt.Sprintf("current-case.%d", sh))
				for idx := sh; idx < cfg.Cases; idx += shards {
					if only != nil && !only[idx] {
						continue
					}
					mu.Lock()
					tooManyStuck := len(rep.Stuck) > 48
					mu.Unlock()
					if tooManyStuck {
						break // far beyond any tolerance: the run is decided by what the abandoned cases have in common
					}
					os.WriteFile(cur, []byte(strconv.Itoa(idx)), 0o644)
					c := &Case{Index: idx, R: NewRand(seed, uint64(idx)), T: t, Log: NewLog()}
					finished := make(chan struct{})
					go func() {
						defer close(finished)
						defer func() {
							if r := recover(); r != nil {
								stack := string(debugStack())
								if PanicIsSDK(stack) {
									c.addViolation(Violation{Key: "panic", Msg: fmt.Sprintf("SDK panic: %v", r), Stack: stack})
								} else {
									c.Inconclusive("harness panic: %v\n%s", r, stack)
								}
							}
						}()
						body(c)
					}()
					// Real-time watchdog (this select runs outside any bubble, so the timer is a
					// wall-clock one). A case that makes no progress in wall-clock time is neither
					// held nor violated: typically virtual time cannot advance because some goroutine
					// is blocked on a sync.Mutex (not a durable block for synctest) whose holder is
					// waiting for a timer. The case is abandoned, its stacks are kept for triage.
					wd := time.NewTimer(caseWatchdog)
					select {
					case <-finished:
						wd.Stop()
					case <-wd.C:
						buf := make([]byte, 8<<20)
						n := runtime.Stack(buf, true)
						c.mu.Lock()
						spec := c.spec
						c.mu.Unlock()
						extra, _ := json.MarshalIndent(map[string]any{"spec": spec, "events": c.Log.Events()}, "", " ")
						os.WriteFile(filepath.Join(out, fmt.Sprintf("hang-%d.txt", idx)), append(append(buf[:n], []byte("\n\n==== case ====\n")...), extra...), 0o644)
						mu.Lock()
						rep.Stuck = append(rep.Stuck, idx)
						mu.Unlock()
						continue
					}
					evs := c.Log.Events()
					mu.Lock()
					rep.Evaluations++
					for _, e := range evs {
						rep.EventKinds[e.Kind]++
					}
					for k, v := range c.counters {
						rep.Counters[k] += v
					}
					for k, m := range c.sets {
						if sets[k] == nil {
							sets[k] = map[string]struct{}{}
						}
						for x := range m {
							sets[k][x] = struct{}{}
						}
					}
					if c.nontrivial {
						rep.Nontrivial++
						sigs[hash64(c.sig)] = struct{}{}
						if len(rep.Samples) < cfg.Samples {
							s := sample{Index: idx, Spec: c.spec, Events: evs}
							if len(s.Events) > cfg.SampleEvents {
								s.Events = s.Events[:cfg.SampleEvents]
							}
							rep.Samples = append(rep.Samples, s)
						}
					}
					for _, v := range c.violations {
						if len(rep.Violations) < 40 {
							v.Spec = c.spec
							if len(evs) > 400 {
								v.Events = evs[len(evs)-400:]
							} else {
								v.Events = evs
							}
							rep.Violations = append(rep.Violations, v)
						}
					}
					if len(rep.Inconclusive) < 20 {
						for _, s := range c.inconcl {
							rep.Inconclusive = append(rep.Inconclusive, fmt.Sprintf("case %d: %s", idx, s))
						}
					}
					mu.Unlock()
				}
				os.Remove(cur)
			})
		}
	})

	rep.DistinctNontrivial = len(sigs)
	rep.DistinctMembers = map[string][]string{}
	for k, m := range sets {
		rep.Distinct[k] = len(m)
		var xs []string
		for x := range m {
			xs = append(xs, x)
		}
		sort.Strings(xs)
		if len(xs) > 80 {
			xs = xs[:80]
		}
		rep.DistinctMembers[k] = xs
	}
	sort.Slice(rep.Samples, func(i, j int) bool { return rep.Samples[i].Index < rep.Samples[j].Index })
	sort.Slice(rep.Violations, func(i, j int) bool { return rep.Violations[i].Index < rep.Violations[j].Index })
	rep.WallS = time.Since(start).Seconds()
	data, err := json.MarshalIndent(&rep, "", " ")
	if err != nil {
		t.Fatalf("marshal report: %v", err)
	}
	if err := os.WriteFile(filepath.Join(out, "report.json"), data, 0o644); err != nil {
		t.Fatalf("write report: %v", err)
	}
	if len(rep.Stuck) > 0 {
		// abandoned bubbles can never finish; leave without waiting for them
		fmt.Fprintf(os.Stderr, "VERIF-STUCK: %d case(s) abandoned by the watchdog: %v\n", len(rep.Stuck), rep.Stuck)
		os.Exit(4)
	}
	if len(rep.Violations) > 0 {
		t.Errorf("%s: %d violation(s); first: [%s] %s", cfg.Property, len(rep.Violations), rep.Violations[0].Key, rep.Violations[0].Msg)
	}
}

// JSON renders v compactly for messages.
func JSON(v any) string {
	b, err := json.Marshal(v)
	if err != nil {
		return fmt.Sprintf("%+v", v)
	}
	return string(b)
}
