//go:build verif

// C18 — change notifications are never lost, reach only entitled sessions, beat caches.
//
// One real Server with several real client sessions (legacy and 2026-07-28, with
// and without list-changed handlers, in-memory and HTTP transports) runs a
// generated schedule under virtual time: feature additions/removals with gaps
// drawn around the 10 ms debounce, resource updates, subscribe/unsubscribe,
// sessions connecting and closing, and client list/read calls, some of them kept
// in flight across a notification (responses that linger on their way back) or
// issued from inside the notification handler. Server-side writes of
// notifications can be slowed down per session, so changes land while a
// previous round is still being delivered. Every list result identifies the
// server state it reflects (item sets never repeat), every read the update
// counter of its resource.
package mcpx

import (
	"bytes"
	"context"
	"encoding/json"
	"errors"
	"fmt"
	"io"
	"log/slog"
	"net/http"
	"sort"
	"strings"
	"sync"
	"testing"
	"time"

	"github.com/modelcontextprotocol/go-sdk/internal/verifharness/vh"
	"github.com/modelcontextprotocol/go-sdk/internal/verifharness/vhm"
	"github.com/modelcontextprotocol/go-sdk/jsonrpc"
	"github.com/modelcontextprotocol/go-sdk/mcp"
)

type c18Sess struct {
	Kind          string   `json:"kind"`
	Version       string   `json:"version"`
	Handlers      []string `json:"handlers"`
	ConnectAt     int      `json:"connect_at"`
	CloseAt       int      `json:"close_at"`
	SlowWriteMs   int      `json:"slow_write_ms,omitempty"`
	RespDelayMs   int      `json:"resp_delay_ms,omitempty"`
	ListInHandler bool     `json:"list_in_handler,omitempty"`
}

type c18Op struct {
	At   int    `json:"at"`
	Op   string `json:"op"` // add | remove | update | sub | unsub | list | read
	Kind string `json:"kind,omitempty"`
	Sess int    `json:"sess,omitempty"`
	URI  int    `json:"uri,omitempty"`
	// Gateway: sub on a 2026-07-28 session over stateless HTTP: the POST that opens the listen stream is answered with
	// this status by a gateway (503, 502, 429): Subscribe must not report success then
	Gateway int `json:"gateway,omitempty"`
}

type c18Spec struct {
	TTLms      int       `json:"ttl_ms"`
	PageSize   int       `json:"page_size,omitempty"`   // > 0: the server pages its lists; every list is a full traversal by cursor
	RemoveBase bool      `json:"remove_base,omitempty"` // the initial item of a kind may be removed too, so a kind can become empty
	RejectURI  int       `json:"reject_uri,omitempty"`  // > 0: the server's SubscribeHandler refuses this URI (1-based) to legacy sessions
	CapOff     string    `json:"cap_off,omitempty"`
	Sessions   []c18Sess `json:"sessions"`
	Ops        []c18Op   `json:"ops"`
	EndAt      int       `json:"end_at"`
}

var (
	c18ListKinds = []string{"tools", "prompts", "resources", "templates"}
	c18URIs      = []string{"file:///u0", "file:///u1"}
	c18Gaps      = []int{0, 0, 1, 3, 5, 9, 10, 10, 11, 15, 25}
)

func c18NotifKind(listKind string) string {
	if listKind == "templates" {
		return "resources"
	}
	return listKind
}

func c18Method(nk string) string { return "notifications/" + nk + "/list_changed" }

func genC18(r *vh.Rand, idx int) c18Spec {
	s := c18Spec{TTLms: []int{0, 60000, 60000, 60000, 30}[r.Intn(5)]}
	if r.Chance(1, 7) {
		s.CapOff = r.Choose("tools", "prompts", "resources")
	}
	if r.Chance(1, 5) {
		s.PageSize = r.Range(1, 3)
	}
	if r.Chance(1, 5) {
		s.RejectURI = r.Range(1, len(c18URIs))
	}
	s.RemoveBase = r.Chance(1, 3)
	n := r.Range(1, 4)
	for i := 0; i < n; i++ {
		ss := c18Sess{CloseAt: -1}
		if r.Bool() {
			ss.Version = "2026-07-28"
			ss.Kind = r.Choose("mem", "mem", "mem", "http-stateless")
		} else {
			ss.Version = r.Choose("2025-11-25", "2025-06-18")
			ss.Kind = r.Choose("mem", "mem", "mem", "http", "sse")
		}
		for _, k := range []string{"tools", "prompts", "resources"} {
			if r.Chance(2, 3) {
				ss.Handlers = append(ss.Handlers, k)
			}
		}
		if r.Chance(1, 4) {
			ss.ConnectAt = r.Range(1, 60)
		}
		if r.Chance(1, 5) {
			ss.CloseAt = ss.ConnectAt + r.Range(10, 80)
		}
		if ss.Kind == "mem" && r.Chance(1, 4) {
			ss.SlowWriteMs = []int{1, 5, 12, 30}[r.Intn(4)]
		}
		if r.Chance(1, 3) {
			ss.RespDelayMs = []int{5, 15, 40}[r.Intn(3)]
		}
		ss.ListInHandler = r.Chance(1, 3)
		s.Sessions = append(s.Sessions, ss)
	}
	nops := r.Range(6, 26)
	at := r.Range(0, 5)
	for i := 0; i < nops; i++ {
		at += c18Gaps[r.Intn(len(c18Gaps))]
		op := c18Op{At: at, Sess: r.Intn(n), URI: r.Intn(len(c18URIs)), Kind: c18ListKinds[r.Intn(4)]}
		switch x := r.Intn(20); {
		case x < 6:
			op.Op = "add"
		case x < 9:
			op.Op = "remove"
		case x < 11:
			op.Op = "update"
			if x == 10 && r.Bool() {
				op.Op = "replace" // the resource is registered anew under its URI: announced by list_changed only
			}
		case x < 13:
			op.Op = "sub"
		case x < 14:
			op.Op = "unsub"
		case x < 18:
			op.Op = "list"
		default:
			op.Op = "read"
		}
		s.Ops = append(s.Ops, op)
	}
	// directed: a 2026-07-28 session over stateless HTTP opens (or ends) a per-URI listen stream at the very
	// instant a debounce timer fires (10 ms after a change): the request is served by a fresh server-side
	// session whose protocol version the server learns only while handling it
	for si, ss := range s.Sessions {
		if ss.Version != "2026-07-28" || ss.Kind != "http-stateless" {
			continue
		}
		for _, op := range s.Ops[:nops] {
			if (op.Op == "add" || op.Op == "remove") && r.Chance(1, 2) {
				s.Ops = append(s.Ops, c18Op{At: op.At + 10, Op: r.Choose("sub", "sub", "unsub"), Sess: si, URI: r.Intn(len(c18URIs)), Kind: op.Kind})
			}
		}
	}
	// directed: a session subscribes, later unsubscribes and at once subscribes again (one caller), and the
	// resource is updated afterwards: the second subscription must be in force
	for si := range s.Sessions {
		if r.Chance(1, 3) {
			uri := r.Intn(len(c18URIs))
			t0 := r.Range(2, 40)
			s.Ops = append(s.Ops, c18Op{At: t0, Op: "sub", Sess: si, URI: uri, Kind: "resources"},
				c18Op{At: t0 + r.Range(15, 40), Op: "resub", Sess: si, URI: uri, Kind: "resources"},
				c18Op{At: t0 + 95, Op: "update", Sess: si, URI: uri, Kind: "resources"})
			if at < t0+95 {
				at = t0 + 95
			}
		}
	}
	s.EndAt = at + 150
	// a gateway refuses the POST that would open a listen stream (stateless HTTP, 2026-07-28)
	for i := range s.Ops {
		if op := &s.Ops[i]; op.Op == "sub" && s.Sessions[op.Sess].Version == "2026-07-28" && s.Sessions[op.Sess].Kind == "http-stateless" && r.Chance(1, 4) {
			op.Gateway = []int{503, 502, 429, 504}[r.Intn(4)]
		}
	}
	return s
}

func TestVerifC18(t *testing.T) {
	cfg := vh.Config{
		Property: "C18",
		Cases:    vh.Pick(1500, 80000),
		Rule: "each case: one Server, 1..4 client sessions (legacy 2025-06-18/2025-11-25 or 2026-07-28; in-memory, stateless/stateful streamable HTTP, SSE; random subset of list-changed handlers; late connect; early close; slowed server-side notification writes; lingering list/read responses; lists issued from inside the handler), result TTL in {0, 30 ms, 60 s}, optionally one list-changed capability disabled; 6..26 timed operations with gaps in {0,1,3,5,9,10,11,15,25} ms: add/remove tool|prompt|resource|template, ResourceUpdated, subscribe/unsubscribe, list, read; then a quiet period and final lists/reads from every live session. " +
			"Oracle: (a) every entitled live session gets a list-changed notification sent after each change, non-entitled sessions and disabled capabilities get none; (b) each ResourceUpdated reaches exactly the subscribed sessions (unique nonce per call) and the logged subscriber_count lies between definitely- and possibly-subscribed live sessions; (c) a list/read issued after the client handled a notification reflects a state at least as new as every change that preceded the sending of that notification. " +
			"non-trivial: >=1 change with >=1 entitled session, or >=1 update with a subscriber, or a cached list. distinct = distinct event-kind interleavings",
		MinNontrivial: 300,
		Assumptions: []string{"events at strictly earlier virtual instants have fully taken effect (transports are zero-latency in the bubble); events at the same instant as a change/update are treated as concurrent with it",
			"a session that starts closing within 100 ms after a change/update is not required to receive its notification"},
	}
	vh.Run(t, cfg, func(c *vh.Case) {
		if c.Index%25 == 3 {
			// a raw 2026-07-28 peer whose listens name several URIs at once (c18raw_test.go)
			spec := genC18Raw(c.R)
			c.SetSpec(spec)
			if c.Bubble("", func() { runC18Raw(c, spec) }) {
				decideC18Raw(c, spec)
			}
			return
		}
		if c.Index%25 == 11 {
			// one peer whose transport stops taking notifications, the others healthy
			spec := genC18Stuck(c.R)
			c.SetSpec(spec)
			if c.Bubble("", func() { runC18Stuck(c, spec) }) {
				decideC18Stuck(c, spec)
			}
			return
		}
		if c.Index%25 == 7 {
			// a raw legacy peer whose initialize names a version other than the one that is negotiated
			spec := genC18RawLegacy(c.R)
			c.SetSpec(spec)
			if c.Bubble("", func() { runC18RawLegacy(c, spec) }) {
				decideC18RawLegacy(c, spec)
			}
			return
		}
		spec := genC18(c.R, c.Index)
		c.SetSpec(spec)
		var w *c18World
		if c.Bubble("", func() { w = runC18(c, spec) }) && w != nil {
			decideC18(c, spec, w)
		}
	})
}

type c18Arrival struct {
	seq, t     int64
	handledSeq int64 // the client's own handling finished / the user handler was invoked
	nonce      int
	uri        string
}

type c18Change struct {
	listKind          string
	idx               int // index into sets[listKind]
	t                 int64
	seqStart, seqDone int64
	// a resource re-registered under its URI (Server.AddResource replacing it): the list keeps its names, a read of
	// that URI returns replNonce or more from then on
	replURI   string
	replNonce int
}

type c18Update struct {
	uri               string
	nonce             int
	t, tDone          int64
	seqStart, seqDone int64
	count             int
}

type c18SubEv struct {
	seq, t int64
	what   string // sub-called | sub-effective | unsub-called | unsub-returned
}

type c18ListObs struct {
	sess      int
	listKind  string
	seqIssue  int64
	tIssue    int64
	names     string
	err       string
	final     bool
	inHandler bool
	pages     int
	seqDone   int64 // logical clock at the result
}

type c18ReadObs struct {
	sess     int
	uri      string
	seqIssue int64
	counter  int
	err      string
}

type c18SessRT struct {
	cs         *mcp.ClientSession
	pair       *vhm.Pair
	connT      int64 // Connect returned (virtual us); -1 if it never did
	connSeq    int64
	closeT     int64                   // Close was called; -1 if never
	closeDoneT int64                   // Close returned; -1 if not
	ackT       map[string]int64        // notification kind -> instant the granting acknowledgement arrived
	srvWrites  map[string][]c18Arrival // method -> server-side writes (in-memory sessions)
	recvs      map[string][]c18Arrival // method -> client-side receipts
	subEvents  map[string][]c18SubEv   // uri -> events
	gateway    map[string]int          // uri -> HTTP status with which a gateway refuses the next listen POST naming it
}

type c18World struct {
	mu           sync.Mutex
	log          *vh.Log
	sets         map[string][]string // list kind -> history of states (sorted, joined names)
	cur          map[string]map[string]bool
	nextName     int
	changes      []c18Change
	updates      []c18Update
	counters     map[string]int
	lists        []c18ListObs
	reads        []c18ReadObs
	sess         []*c18SessRT
	counts       map[int]int // nonce -> subscriber_count logged by the server
	pendingNonce int
	nextNonce    int
}

func c18Join(m map[string]bool) string {
	var xs []string
	for k := range m {
		xs = append(xs, k)
	}
	sort.Strings(xs)
	return strings.Join(xs, ",")
}

// c18Slog captures the server's "resource updated notification sent" records.
type c18Slog struct{ w *c18World }

func (h c18Slog) Enabled(context.Context, slog.Level) bool { return true }
func (h c18Slog) WithAttrs([]slog.Attr) slog.Handler       { return h }
func (h c18Slog) WithGroup(string) slog.Handler            { return h }
func (h c18Slog) Handle(_ context.Context, r slog.Record) error {
	if r.Message != "resource updated notification sent" {
		return nil
	}
	cnt := -1
	r.Attrs(func(a slog.Attr) bool {
		if a.Key == "subscriber_count" {
			cnt = int(a.Value.Int64())
		}
		return true
	})
	// ResourceUpdated calls are serialised by the harness: the record belongs to the call in progress
	h.w.mu.Lock()
	h.w.counts[h.w.pendingNonce] = cnt
	h.w.mu.Unlock()
	return nil
}

type c18Conn struct {
	mcp.Connection
	before func(jsonrpc.Message)
}

func (c *c18Conn) Write(ctx context.Context, msg jsonrpc.Message) error {
	c.before(msg)
	return c.Connection.Write(ctx, msg)
}

func c18Nonce(params json.RawMessage) (string, int) {
	var p struct {
		URI  string         `json:"uri"`
		Meta map[string]any `json:"_meta"`
	}
	json.Unmarshal(params, &p)
	n, _ := p.Meta["verif/nonce"].(float64)
	return p.URI, int(n)
}

func runC18(c *vh.Case, spec c18Spec) *c18World {
	ctx := context.Background()
	log := c.Log
	w := &c18World{log: log, sets: map[string][]string{}, cur: map[string]map[string]bool{}, counters: map[string]int{}, counts: map[int]int{}}
	so := &mcp.ServerOptions{
		Logger: slog.New(c18Slog{w}),
		SubscribeHandler: func(_ context.Context, req *mcp.SubscribeRequest) error {
			// the application refuses one URI to legacy sessions (an authorisation rule, a quota)
			if spec.RejectURI > 0 && req.Params.URI == c18URIs[spec.RejectURI-1] {
				if ip := req.Session.InitializeParams(); ip != nil && ip.ProtocolVersion < "2026-07-28" {
					return errors.New("verif-rejected: not for you")
				}
			}
			return nil
		},
		UnsubscribeHandler: func(context.Context, *mcp.UnsubscribeRequest) error { return nil },
	}
	switch spec.CapOff {
	case "tools":
		so.Capabilities = &mcp.ServerCapabilities{Tools: &mcp.ToolCapabilities{ListChanged: false}}
	case "prompts":
		so.Capabilities = &mcp.ServerCapabilities{Prompts: &mcp.PromptCapabilities{ListChanged: false}}
	case "resources":
		so.Capabilities = &mcp.ServerCapabilities{Resources: &mcp.ResourceCapabilities{ListChanged: false, Subscribe: true}}
	}
	so.PageSize = spec.PageSize
	server := mcp.NewServer(&mcp.Implementation{Name: "s", Version: "1"}, so)
	readHandler := func(ctx context.Context, req *mcp.ReadResourceRequest) (*mcp.ReadResourceResult, error) {
		w.mu.Lock()
		n := w.counters[req.Params.URI]
		w.mu.Unlock()
		return &mcp.ReadResourceResult{Contents: []*mcp.ResourceContents{{URI: req.Params.URI, Text: fmt.Sprintf("%d", n)}}}, nil
	}
	// a removal call may name further, unknown items (in any position): decided by the item's number
	withUnknown := func(id, unknown string, name string) []string {
		switch (int(name[len(name)-1]) - '0') % 4 {
		case 1:
			return []string{id, unknown}
		case 2:
			return []string{unknown, id, unknown + "-2"}
		}
		return []string{id}
	}
	apply := func(listKind, name string, add bool) {
		switch listKind {
		case "tools":
			if add {
				server.AddTool(&mcp.Tool{Name: name, InputSchema: json.RawMessage(`{"type":"object"}`)}, func(context.Context, *mcp.CallToolRequest) (*mcp.CallToolResult, error) {
					return &mcp.CallToolResult{}, nil
				})
			} else {
				server.RemoveTools(withUnknown(name, "no-such-tool", name)...)
			}
		case "prompts":
			if add {
				server.AddPrompt(&mcp.Prompt{Name: name}, func(context.Context, *mcp.GetPromptRequest) (*mcp.GetPromptResult, error) {
					return &mcp.GetPromptResult{}, nil
				})
			} else {
				server.RemovePrompts(withUnknown(name, "no-such-prompt", name)...)
			}
		case "resources":
			if add {
				server.AddResource(&mcp.Resource{Name: name, URI: "file:///" + name}, readHandler)
			} else {
				server.RemoveResources(withUnknown("file:///"+name, "file:///no-such", name)...)
			}
		case "templates":
			if add {
				server.AddResourceTemplate(&mcp.ResourceTemplate{Name: name, URITemplate: "tpl:///" + name + "/{x}"}, readHandler)
			} else {
				server.RemoveResourceTemplates(withUnknown("tpl:///"+name+"/{x}", "tpl:///no-such/{x}", name)...)
			}
		}
	}
	// initial state (never removed; also makes every capability present)
	for _, lk := range c18ListKinds {
		w.cur[lk] = map[string]bool{}
		name := lk[:1] + "0"
		apply(lk, name, true)
		w.cur[lk][name] = true
	}
	for _, u := range c18URIs {
		server.AddResource(&mcp.Resource{Name: strings.TrimPrefix(u, "file:///"), URI: u}, readHandler)
		w.cur["resources"][strings.TrimPrefix(u, "file:///")] = true
	}
	for _, lk := range c18ListKinds {
		w.sets[lk] = []string{c18Join(w.cur[lk])}
	}
	if spec.TTLms > 0 {
		server.AddReceivingMiddleware(func(next mcp.MethodHandler) mcp.MethodHandler {
			return func(ctx context.Context, method string, req mcp.Request) (mcp.Result, error) {
				res, err := next(ctx, method, req)
				if err == nil {
					switch r := res.(type) {
					case *mcp.ListToolsResult:
						r.TTLMs = spec.TTLms
					case *mcp.ListPromptsResult:
						r.TTLMs = spec.TTLms
					case *mcp.ListResourcesResult:
						r.TTLMs = spec.TTLms
					case *mcp.ListResourceTemplatesResult:
						r.TTLMs = spec.TTLms
					case *mcp.ReadResourceResult:
						r.TTLMs = spec.TTLms
					}
				}
				return res, err
			}
		})
	}
	// let the (empty) debounce timers of the initial additions pass
	time.Sleep(50 * time.Millisecond)
	log.ResetStart()

	for range spec.Sessions {
		w.sess = append(w.sess, &c18SessRT{connT: -1, closeT: -1, closeDoneT: -1, ackT: map[string]int64{}, srvWrites: map[string][]c18Arrival{}, recvs: map[string][]c18Arrival{}, subEvents: map[string][]c18SubEv{}})
	}

	var listFrom func(si int, listKind string, final, inHandler bool)
	var readFrom func(si int, uri string)
	connect := func(si int) {
		sp := spec.Sessions[si]
		rt := w.sess[si]
		opts := &mcp.ClientOptions{}
		mkHandler := func(lk string) func() {
			return func() {
				if sp.ListInHandler {
					listFrom(si, lk, false, true)
					if lk == "resources" {
						listFrom(si, "templates", false, true)
					}
				}
			}
		}
		markHandled := func(method string) {
			e := log.Add("handler-invoked", "sess", si, "method", method)
			w.mu.Lock()
			if rs := rt.recvs[method]; len(rs) > 0 {
				for i := range rs {
					if rs[i].handledSeq == 0 {
						rs[i].handledSeq = e.Seq
						break
					}
				}
			}
			w.mu.Unlock()
		}
		for _, k := range sp.Handlers {
			switch k {
			case "tools":
				f := mkHandler("tools")
				opts.ToolListChangedHandler = func(context.Context, *mcp.ToolListChangedRequest) { markHandled(c18Method("tools")); f() }
			case "prompts":
				f := mkHandler("prompts")
				opts.PromptListChangedHandler = func(context.Context, *mcp.PromptListChangedRequest) { markHandled(c18Method("prompts")); f() }
			case "resources":
				f := mkHandler("resources")
				opts.ResourceListChangedHandler = func(context.Context, *mcp.ResourceListChangedRequest) { markHandled(c18Method("resources")); f() }
			}
		}
		// the application's handler for resources/updated: by the time it runs the client's own handling (cache
		// invalidation) is done, so a read issued from inside it must already be fresh
		opts.ResourceUpdatedHandler = func(_ context.Context, req *mcp.ResourceUpdatedNotificationRequest) {
			nonce := 0
			if n, ok := req.Params.Meta["verif/nonce"].(float64); ok {
				nonce = int(n)
			}
			e := log.Add("handler-invoked", "sess", si, "method", "notifications/resources/updated", "nonce", nonce)
			w.mu.Lock()
			rs := rt.recvs["notifications/resources/updated"]
			for i := range rs {
				if rs[i].nonce == nonce && rs[i].handledSeq == 0 {
					rs[i].handledSeq = e.Seq
					break
				}
			}
			w.mu.Unlock()
			if sp.ListInHandler {
				readFrom(si, req.Params.URI)
			}
		}
		client := mcp.NewClient(&mcp.Implementation{Name: fmt.Sprintf("c%d", si), Version: "1"}, opts)
		client.AddReceivingMiddleware(func(next mcp.MethodHandler) mcp.MethodHandler {
			return func(ctx context.Context, method string, req mcp.Request) (mcp.Result, error) {
				if !strings.HasPrefix(method, "notifications/") {
					return next(ctx, method, req)
				}
				a := c18Arrival{}
				switch p := req.GetParams().(type) {
				case *mcp.ResourceUpdatedNotificationParams:
					a.uri = p.URI
					if n, ok := p.Meta["verif/nonce"].(float64); ok {
						a.nonce = int(n)
					}
				case *mcp.SubscriptionsAcknowledgedParams:
					e := log.Add("ack", "sess", si, "granted", vh.JSON(p.Notifications))
					w.mu.Lock()
					if p.Notifications.ToolsListChanged {
						rt.ackT["tools"] = e.T
					}
					if p.Notifications.PromptsListChanged {
						rt.ackT["prompts"] = e.T
					}
					if p.Notifications.ResourcesListChanged {
						rt.ackT["resources"] = e.T
					}
					for _, u := range p.Notifications.ResourceSubscriptions {
						rt.subEvents[u] = append(rt.subEvents[u], c18SubEv{e.Seq, e.T, "sub-effective"})
					}
					w.mu.Unlock()
					return next(ctx, method, req)
				}
				e := log.Add("recv", "sess", si, "method", method, "uri", a.uri, "nonce", a.nonce)
				a.seq, a.t = e.Seq, e.T
				w.mu.Lock()
				rt.recvs[method] = append(rt.recvs[method], a)
				pos := len(rt.recvs[method]) - 1
				w.mu.Unlock()
				res, err := next(ctx, method, req)
				e2 := log.Add("handled", "sess", si, "method", method)
				w.mu.Lock()
				if rt.recvs[method][pos].handledSeq == 0 {
					rt.recvs[method][pos].handledSeq = e2.Seq
				}
				w.mu.Unlock()
				return res, err
			}
		})
		if sp.RespDelayMs > 0 {
			client.AddSendingMiddleware(func(next mcp.MethodHandler) mcp.MethodHandler {
				return func(ctx context.Context, method string, req mcp.Request) (mcp.Result, error) {
					res, err := next(ctx, method, req)
					if strings.HasSuffix(method, "/list") || method == "resources/read" {
						// the response lingers on its way back to the caller
						time.Sleep(time.Duration(sp.RespDelayMs) * time.Millisecond)
					}
					return res, err
				}
			})
		}
		po := vhm.PairOpts{Kind: sp.Kind, Server: server, Client: client, ClientVersion: sp.Version, AsyncDelete: true}
		if sp.Kind == "mem" {
			po.WrapServer = func(conn mcp.Connection) mcp.Connection {
				return &c18Conn{Connection: conn, before: func(msg jsonrpc.Message) {
					req, ok := msg.(*jsonrpc.Request)
					if !ok || req.IsCall() || !(strings.HasSuffix(req.Method, "/list_changed") || req.Method == "notifications/resources/updated") {
						return
					}
					uri, nonce := c18Nonce(req.Params)
					e := log.Add("srv-write", "sess", si, "method", req.Method, "nonce", nonce)
					w.mu.Lock()
					rt.srvWrites[req.Method] = append(rt.srvWrites[req.Method], c18Arrival{seq: e.Seq, t: e.T, nonce: nonce, uri: uri})
					w.mu.Unlock()
					if sp.SlowWriteMs > 0 {
						time.Sleep(time.Duration(sp.SlowWriteMs) * time.Millisecond)
					}
				}}
			}
		}
		po.Before = func(req *http.Request, _ int64) (*http.Response, error) {
			if req.Method != "POST" || req.Body == nil {
				return nil, nil
			}
			b, _ := io.ReadAll(req.Body)
			req.Body = io.NopCloser(bytes.NewReader(b))
			if !bytes.Contains(b, []byte(`"subscriptions/listen"`)) {
				return nil, nil
			}
			w.mu.Lock()
			st := 0
			for u, code := range rt.gateway {
				if bytes.Contains(b, []byte(u)) {
					st = code
					delete(rt.gateway, u)
					break
				}
			}
			w.mu.Unlock()
			if st == 0 {
				return nil, nil
			}
			log.Add("gateway-refusal", "status", st, "sess", si)
			return &http.Response{StatusCode: st, Status: fmt.Sprintf("%d %s", st, http.StatusText(st)), Proto: "HTTP/1.1", ProtoMajor: 1, ProtoMinor: 1,
				Header: http.Header{"Content-Type": []string{"text/plain"}}, Body: io.NopCloser(strings.NewReader("try later")), Request: req}, nil
		}
		log.Add("connect-start", "sess", si)
		pair, err := vhm.Connect(ctx, po)
		if err != nil {
			log.Add("connect-failed", "sess", si, "err", err.Error())
			c.Inconclusive("session %d connect: %v", si, err)
			return
		}
		e := log.Add("connected", "sess", si, "version", pair.CS.InitializeResult().ProtocolVersion)
		w.mu.Lock()
		rt.cs, rt.pair, rt.connT, rt.connSeq = pair.CS, pair, e.T, e.Seq
		w.mu.Unlock()
	}
	session := func(si int) *mcp.ClientSession {
		w.mu.Lock()
		defer w.mu.Unlock()
		if w.sess[si].closeT >= 0 {
			return nil
		}
		return w.sess[si].cs
	}
	listFrom = func(si int, lk string, final, inHandler bool) {
		cs := session(si)
		if cs == nil {
			return
		}
		e := log.Add("list-issue", "sess", si, "kind", lk, "final", final, "in_handler", inHandler)
		obs := c18ListObs{sess: si, listKind: lk, seqIssue: e.Seq, tIssue: e.T, final: final, inHandler: inHandler}
		lctx, cancel := context.WithTimeout(ctx, 5*time.Second)
		defer cancel()
		names := map[string]bool{}
		var err error
		cursor := ""
		for obs.pages = 0; obs.pages < 64; {
			next := ""
			switch lk {
			case "tools":
				var res *mcp.ListToolsResult
				if res, err = cs.ListTools(lctx, &mcp.ListToolsParams{Cursor: cursor}); err == nil {
					for _, t := range res.Tools {
						names[t.Name] = true
					}
					next = res.NextCursor
				}
			case "prompts":
				var res *mcp.ListPromptsResult
				if res, err = cs.ListPrompts(lctx, &mcp.ListPromptsParams{Cursor: cursor}); err == nil {
					for _, t := range res.Prompts {
						names[t.Name] = true
					}
					next = res.NextCursor
				}
			case "resources":
				var res *mcp.ListResourcesResult
				if res, err = cs.ListResources(lctx, &mcp.ListResourcesParams{Cursor: cursor}); err == nil {
					for _, t := range res.Resources {
						names[t.Name] = true
					}
					next = res.NextCursor
				}
			case "templates":
				var res *mcp.ListResourceTemplatesResult
				if res, err = cs.ListResourceTemplates(lctx, &mcp.ListResourceTemplatesParams{Cursor: cursor}); err == nil {
					for _, t := range res.ResourceTemplates {
						names[t.Name] = true
					}
					next = res.NextCursor
				}
			}
			obs.pages++
			if err != nil || next == "" {
				break
			}
			cursor = next
		}
		if err != nil {
			obs.err = err.Error()
		}
		obs.names = c18Join(names)
		obs.seqDone = log.Add("list-result", "sess", si, "kind", lk, "names", obs.names, "err", obs.err).Seq
		w.mu.Lock()
		w.lists = append(w.lists, obs)
		w.mu.Unlock()
	}
	readFrom = func(si int, uri string) {
		cs := session(si)
		if cs == nil {
			return
		}
		e := log.Add("read-issue", "sess", si, "uri", uri)
		obs := c18ReadObs{sess: si, uri: uri, seqIssue: e.Seq, counter: -1}
		lctx, cancel := context.WithTimeout(ctx, 5*time.Second)
		defer cancel()
		res, err := cs.ReadResource(lctx, &mcp.ReadResourceParams{URI: uri})
		if err != nil {
			obs.err = err.Error()
		} else if len(res.Contents) == 1 {
			fmt.Sscanf(res.Contents[0].Text, "%d", &obs.counter)
		}
		log.Add("read-result", "sess", si, "uri", uri, "counter", obs.counter, "err", obs.err)
		w.mu.Lock()
		w.reads = append(w.reads, obs)
		w.mu.Unlock()
	}
	// serialises server-side changes and updates issued by the harness; a channel, not a mutex:
	// the holder may sleep (slowed writes) and waiting must count as durably blocked in the bubble
	changeSem := make(chan struct{}, 1)
	var doOp func(op c18Op)
	doOp = func(op c18Op) {
		switch op.Op {
		case "resub":
			// Unsubscribe directly followed by Subscribe of the same URI, by one caller
			u := op
			u.Op = "unsub"
			doOp(u)
			u.Op = "sub"
			doOp(u)
		case "add", "remove":
			changeSem <- struct{}{}
			defer func() { <-changeSem }()
			w.mu.Lock()
			var name string
			if op.Op == "add" {
				w.nextName++
				name = fmt.Sprintf("%s%d", op.Kind[:1], w.nextName)
			} else {
				var cands []string
				for n := range w.cur[op.Kind] {
					if (n != op.Kind[:1]+"0" || spec.RemoveBase) && !strings.HasPrefix(n, "u") {
						cands = append(cands, n)
					}
				}
				sort.Strings(cands)
				if len(cands) == 0 {
					w.mu.Unlock()
					return
				}
				name = cands[0]
			}
			w.mu.Unlock()
			e1 := log.Add("change-start", "kind", op.Kind, "op", op.Op, "name", name)
			apply(op.Kind, name, op.Op == "add")
			w.mu.Lock()
			if op.Op == "add" {
				w.cur[op.Kind][name] = true
			} else {
				delete(w.cur[op.Kind], name)
			}
			w.sets[op.Kind] = append(w.sets[op.Kind], c18Join(w.cur[op.Kind]))
			e2 := log.Add("change-done", "kind", op.Kind, "idx", len(w.sets[op.Kind])-1)
			w.changes = append(w.changes, c18Change{listKind: op.Kind, idx: len(w.sets[op.Kind]) - 1, t: e1.T, seqStart: e1.Seq, seqDone: e2.Seq})
			w.mu.Unlock()
		case "replace":
			changeSem <- struct{}{}
			defer func() { <-changeSem }()
			uri := c18URIs[op.URI]
			w.mu.Lock()
			w.nextNonce++
			nonce := w.nextNonce
			w.counters[uri] = nonce // what a read returns once the new registration is in place
			w.mu.Unlock()
			e1 := log.Add("change-start", "kind", "resources", "op", "replace", "name", uri)
			server.AddResource(&mcp.Resource{Name: strings.TrimPrefix(uri, "file:///"), URI: uri}, readHandler)
			w.mu.Lock()
			w.sets["resources"] = append(w.sets["resources"], c18Join(w.cur["resources"]))
			e2 := log.Add("change-done", "kind", "resources", "idx", len(w.sets["resources"])-1)
			w.changes = append(w.changes, c18Change{listKind: "resources", idx: len(w.sets["resources"]) - 1, t: e1.T, seqStart: e1.Seq, seqDone: e2.Seq, replURI: uri, replNonce: nonce})
			w.mu.Unlock()
		case "update":
			changeSem <- struct{}{}
			defer func() { <-changeSem }()
			uri := c18URIs[op.URI]
			w.mu.Lock()
			w.nextNonce++
			nonce := w.nextNonce    // unique per call
			w.counters[uri] = nonce // the counter a read returns: monotone per uri
			w.pendingNonce = nonce
			w.mu.Unlock()
			e1 := log.Add("update-start", "uri", uri, "nonce", nonce)
			server.ResourceUpdated(ctx, &mcp.ResourceUpdatedNotificationParams{URI: uri, Meta: mcp.Meta{"verif/nonce": nonce}})
			e2 := log.Add("update-done", "uri", uri, "nonce", nonce)
			w.mu.Lock()
			cnt, ok := w.counts[nonce]
			if !ok {
				cnt = -1
			}
			w.updates = append(w.updates, c18Update{uri: uri, nonce: nonce, t: e1.T, tDone: e2.T, seqStart: e1.Seq, seqDone: e2.Seq, count: cnt})
			w.mu.Unlock()
		case "sub", "unsub":
			cs := session(op.Sess)
			if cs == nil {
				return
			}
			rt := w.sess[op.Sess]
			uri := c18URIs[op.URI]
			modern := spec.Sessions[op.Sess].Version == "2026-07-28"
			e := log.Add(op.Op+"-called", "sess", op.Sess, "uri", uri)
			w.mu.Lock()
			rt.subEvents[uri] = append(rt.subEvents[uri], c18SubEv{e.Seq, e.T, op.Op + "-called"})
			w.mu.Unlock()
			var err error
			if op.Op == "sub" && op.Gateway != 0 {
				w.mu.Lock()
				if rt.gateway == nil {
					rt.gateway = map[string]int{}
				}
				rt.gateway[uri] = op.Gateway // the next listen POST naming this URI is refused by a gateway
				w.mu.Unlock()
			}
			if op.Op == "sub" {
				err = cs.Subscribe(ctx, &mcp.SubscribeParams{URI: uri})
			} else {
				err = cs.Unsubscribe(ctx, &mcp.UnsubscribeParams{URI: uri})
			}
			e2 := log.Add(op.Op+"-returned", "sess", op.Sess, "uri", uri, "err", fmt.Sprint(err))
			w.mu.Lock()
			switch {
			case err != nil && op.Op == "sub" && strings.Contains(err.Error(), "verif-rejected"):
				rt.subEvents[uri] = append(rt.subEvents[uri], c18SubEv{e2.Seq, e2.T, "rejected"})
			case err != nil:
				rt.subEvents[uri] = append(rt.subEvents[uri], c18SubEv{e2.Seq, e2.T, "error"})
			case op.Op == "unsub":
				rt.subEvents[uri] = append(rt.subEvents[uri], c18SubEv{e2.Seq, e2.T, "unsub-returned"})
			case !modern:
				rt.subEvents[uri] = append(rt.subEvents[uri], c18SubEv{e2.Seq, e2.T, "sub-effective"})
			default:
				rt.subEvents[uri] = append(rt.subEvents[uri], c18SubEv{e2.Seq, e2.T, "sub-returned"})
			}
			w.mu.Unlock()
		case "list":
			listFrom(op.Sess, op.Kind, false, false)
		case "read":
			readFrom(op.Sess, c18URIs[op.URI])
		}
	}

	// ---- run the schedule
	var wg sync.WaitGroup
	at := func(ms int, f func()) {
		wg.Add(1)
		go func() {
			defer wg.Done()
			if d := time.Duration(ms)*time.Millisecond - log.Now(); d > 0 {
				time.Sleep(d)
			}
			f()
		}()
	}
	for si, sp := range spec.Sessions {
		if sp.ConnectAt == 0 {
			connect(si)
		}
	}
	for si, sp := range spec.Sessions {
		si, sp := si, sp
		if sp.ConnectAt > 0 {
			at(sp.ConnectAt, func() { connect(si) })
		}
		if sp.CloseAt >= 0 {
			at(sp.CloseAt, func() {
				w.mu.Lock()
				rt := w.sess[si]
				cs := rt.cs
				if cs != nil {
					e := log.Add("close-called", "sess", si)
					rt.closeT = e.T
				}
				w.mu.Unlock()
				if cs != nil {
					cs.Close()
					e := log.Add("close-returned", "sess", si)
					if rt.pair != nil && rt.pair.SS != nil && spec.Sessions[si].Kind == "mem" {
						// the server forgets the session when its side has shut down (a slowed write may delay that)
						rt.pair.SS.Wait()
						e = log.Add("server-session-ended", "sess", si)
					}
					w.mu.Lock()
					rt.closeDoneT = e.T
					w.mu.Unlock()
				}
			})
		}
	}
	for _, op := range spec.Ops {
		op := op
		at(op.At, func() { doOp(op) })
	}
	// final lists and reads, after a quiet period
	at(spec.EndAt, func() {
		var fw sync.WaitGroup
		for si := range spec.Sessions {
			si := si
			fw.Add(1)
			go func() {
				defer fw.Done()
				for _, lk := range c18ListKinds {
					listFrom(si, lk, true, false)
				}
				for _, u := range c18URIs {
					readFrom(si, u)
				}
			}()
		}
		fw.Wait()
	})
	wg.Wait()
	time.Sleep(200 * time.Millisecond)
	log.Add("end")
	// ---- teardown
	for _, rt := range w.sess {
		if rt.cs != nil {
			rt.cs.Close()
		}
	}
	for ss := range server.Sessions() {
		ss.Close()
	}
	for _, rt := range w.sess {
		if rt.pair != nil && rt.pair.InProc != nil {
			rt.pair.InProc.Wait()
		}
	}
	time.Sleep(11 * time.Second)
	return w
}

func decideC18(c *vh.Case, spec c18Spec, w *c18World) {
	if c.Violated() {
		return
	}
	w.mu.Lock()
	defer w.mu.Unlock()
	// An acknowledgement can be slow (a lingering response in front of it). One that arrives when every Subscribe
	// of its URI has since been ended by a completed Unsubscribe belongs to a listen that is gone: it establishes nothing.
	for _, rt := range w.sess {
		for uri, evs := range rt.subEvents {
			open := 0
			var out []c18SubEv
			for _, ev := range evs {
				switch ev.what {
				case "sub-called":
					open++
				case "error", "rejected":
					if open > 0 {
						open--
					}
				case "unsub-returned":
					open = 0
				case "sub-effective":
					if open == 0 {
						c.Count("stale_acknowledgements", 1)
						continue
					}
					open--
				}
				out = append(out, ev)
			}
			rt.subEvents[uri] = out
		}
	}
	endT := int64(spec.EndAt) * 1000
	nontrivial := false
	aliveThrough := func(rt *c18SessRT, t int64) bool { return rt.closeT < 0 || rt.closeT > t+100_000 }
	ms := func(us int64) string { return (time.Duration(us) * time.Microsecond).String() }
	modernSess := func(si int) bool { return spec.Sessions[si].Version == "2026-07-28" }

	// ---- conservation on in-memory sessions: what the server wrote, the client received
	for si, rt := range w.sess {
		if spec.Sessions[si].Kind != "mem" || rt.closeT >= 0 {
			continue
		}
		for m, ws := range rt.srvWrites {
			if len(rt.recvs[m]) != len(ws) {
				c.Violate("notification-written-not-received", "session %d: the server wrote %d %s notifications, the client received %d", si, len(ws), m, len(rt.recvs[m]))
				return
			}
		}
	}

	var slowBudget int64
	for _, sp := range spec.Sessions {
		slowBudget += int64(sp.SlowWriteMs) * 1000
	}
	// ---- (a) list-changed delivery
	for si, rt := range w.sess {
		sp := spec.Sessions[si]
		modern := sp.Version == "2026-07-28"
		for _, nk := range []string{"tools", "prompts", "resources"} {
			m := c18Method(nk)
			arr := rt.recvs[m]
			if sp.Kind == "mem" {
				arr = rt.srvWrites[m]
			}
			if spec.CapOff == nk && len(rt.recvs[m]) > 0 {
				c.Violate("notified-although-capability-disabled", "session %d received %d %s although the server's %s.listChanged capability is off", si, len(rt.recvs[m]), m, nk)
				return
			}
			if spec.CapOff == nk {
				continue
			}
			_, acked := rt.ackT[nk]
			// What reaches a connection before its Connect returned is outside the claim: the server
			// does not know yet which protocol the peer speaks and treats it as legacy.
			// A delivery round that started before that may still be writing (slowed writes).
			afterConnect := 0
			for _, a := range rt.recvs[m] {
				if rt.connSeq > 0 && a.seq > rt.connSeq && a.t > rt.connT+slowBudget {
					afterConnect++
				}
			}
			if modern && !acked && afterConnect > 0 {
				c.Violate("notified-without-subscription", "2026-07-28 session %d has no acknowledged %s subscription but received %d %s after it had connected", si, nk, afterConnect, m)
				return
			}
			for _, ch := range w.changes {
				if c18NotifKind(ch.listKind) != nk || rt.connT < 0 {
					continue
				}
				entitledFrom := rt.connT
				if modern {
					if !acked {
						continue
					}
					entitledFrom = rt.ackT[nk]
				}
				if !(entitledFrom < ch.t) || !aliveThrough(rt, endT) {
					continue
				}
				nontrivial = true
				ok := false
				for _, a := range arr {
					if a.t > ch.t || (a.t == ch.t && a.seq > ch.seqStart) {
						ok = true
						break
					}
				}
				if !ok {
					c.Violate("change-notification-lost/"+nk, "session %d (%s, %s) is entitled to %s since %s; the %s change #%d at %s was followed by no notification to it (notifications at %v)", si, sp.Version, sp.Kind, m, ms(entitledFrom), ch.listKind, ch.idx, ms(ch.t), c18Times(arr))
					return
				}
			}
		}
	}

	// ---- a Subscribe that returned without error on a session that was definitely not subscribed must
	// be acknowledged by the server (2026-07-28: the subscription only exists once the listen is accepted)
	for si, rt := range w.sess {
		if !modernSess(si) || rt.closeT >= 0 {
			continue
		}
		for uri, evs := range rt.subEvents {
			state := "none" // none | sub | unknown
			for i, ev := range evs {
				switch ev.what {
				case "sub-effective":
					state = "sub"
				case "unsub-called", "error":
					state = "unknown"
				case "unsub-returned":
					// definitely gone only if nothing else for this URI happened at the same instant
					state = "none"
					for j, o := range evs {
						if j != i && o.t == ev.t && o.what != "unsub-called" {
							state = "unknown"
						}
					}
				case "sub-returned":
					if state != "none" {
						break
					}
					acked := false
					for _, o := range evs[i+1:] {
						if o.what == "sub-effective" {
							acked = true
						}
						if o.what == "unsub-called" || o.what == "error" {
							acked = true // superseded
						}
					}
					// the acknowledgement may also have overtaken the return of Subscribe
					for _, o := range evs[:i] {
						if o.what == "sub-effective" && o.t == ev.t {
							acked = true
						}
					}
					if !acked && ev.t+100_000 < endT {
						c.Violate("subscription-never-established", "session %d: Subscribe(%s) returned nil at %s on a session that was not subscribed to it, but the server never acknowledged the subscription (events %v)", si, uri, ms(ev.t), evs)
						return
					}
				}
			}
		}
	}

	// ---- (b) resources/updated reach exactly the subscribed sessions
	const updM = "notifications/resources/updated"
	for _, u := range w.updates {
		lower, upper := 0, 0
		for si, rt := range w.sess {
			// Linearise the session's subscribe/unsubscribe calls for this URI. Calls that overlap
			// with a call of the other kind leave the outcome open until a later call settles it.
			state := "none"
			ambiguous := false
			openSub, openUnsub, tainted := 0, 0, false
			beforeSub := "none"
			for _, ev := range rt.subEvents[u.uri] {
				if ev.t > u.t {
					// a subscribe/unsubscribe while ResourceUpdated is still delivering (slow writes to other
					// sessions make the call last): either order is a valid linearisation
					if ev.t <= u.tDone {
						ambiguous = true
					}
					break
				}
				if ev.t == u.t {
					ambiguous = true
					break
				}
				switch ev.what {
				case "rejected":
					// the server refused: nothing changed (decided only when no other call was open meanwhile)
					if openSub > 0 {
						openSub--
					}
					if openSub == 0 && openUnsub == 0 && !tainted && beforeSub == "none" {
						state = "none"
					}
				case "sub-called":
					if modernSess(si) && state == "sub" && openUnsub == 0 {
						break // already subscribed: the client returns at once, nothing is sent
					}
					if openSub == 0 && openUnsub == 0 && !tainted {
						beforeSub = state
					} else {
						beforeSub = "pending"
					}
					openSub++
					if state != "sub" {
						state = "pending"
					}
				case "unsub-called":
					openUnsub++
					state = "pending"
				case "sub-effective":
					if openSub > 0 {
						openSub--
					}
					state = "sub"
				case "unsub-returned":
					if openUnsub > 0 {
						openUnsub--
					}
					state = "none"
				case "error":
					openSub, openUnsub = 0, 0
					state = "pending"
					tainted = true
				}
				if openSub > 0 && openUnsub > 0 {
					tainted = true
				}
				if tainted {
					state = "pending"
				}
				if openSub == 0 && openUnsub == 0 && ev.what != "error" {
					if tainted {
						state = "pending"
					}
					tainted = false
				}
			}
			if openSub > 0 || openUnsub > 0 {
				state = "pending"
			}
			if rt.connT < 0 || rt.connT >= u.t {
				state = "none"
			}
			if rt.closeDoneT >= 0 && rt.closeDoneT < u.t {
				state = "none"
				ambiguous = false
			} else if rt.closeT >= 0 && rt.closeT <= u.t {
				ambiguous = true // closing
			}
			got := 0
			for _, a := range rt.recvs[updM] {
				if a.nonce == u.nonce {
					got++
				}
			}
			switch {
			case ambiguous || state == "pending":
				upper++
				if got > 1 {
					c.Violate("resource-updated-duplicated", "session %d received update nonce %d of %s %d times", si, u.nonce, u.uri, got)
					return
				}
			case state == "sub":
				lower++
				upper++
				nontrivial = true
				if got > 1 {
					c.Violate("resource-updated-duplicated", "session %d received update nonce %d of %s %d times", si, u.nonce, u.uri, got)
					return
				}
				if got == 0 && aliveThrough(rt, u.t) {
					c.Violate("resource-updated-not-delivered", "session %d is subscribed to %s (events %v) but did not receive the update issued at %s (nonce %d)", si, u.uri, rt.subEvents[u.uri], ms(u.t), u.nonce)
					return
				}
			default:
				if got > 0 {
					c.Violate("resource-updated-to-unsubscribed", "session %d is not subscribed to %s at %s (events %v) but received update nonce %d", si, u.uri, ms(u.t), rt.subEvents[u.uri], u.nonce)
					return
				}
			}
		}
		if u.count >= 0 && (u.count < lower || u.count > upper) {
			c.Violate("subscriber-count", "ResourceUpdated(%s) at %s reports subscriber_count=%d; between %d and %d sessions are subscribed and alive", u.uri, ms(u.t), u.count, lower, upper)
			return
		}
	}

	// ---- (c) freshness
	coverIdx := func(rt *c18SessRT, mem bool, method, listKind string, pos int, a c18Arrival) int {
		// the newest state of listKind whose change completed before this notification was sent
		best := 0
		for _, ch := range w.changes {
			if ch.listKind != listKind {
				continue
			}
			// HTTP transports are zero-latency and never slowed: sent at the instant it was received.
			// In-memory sessions: the server-side write of this very notification is on record.
			before := ch.t < a.t
			if mem {
				before = pos < len(rt.srvWrites[method]) && ch.seqDone < rt.srvWrites[method][pos].seq
			}
			if before && ch.idx > best {
				best = ch.idx
			}
		}
		return best
	}
	for _, l := range w.lists {
		if l.err != "" {
			if l.final {
				c.Violate("final-list-failed", "session %d: final %s list failed: %s", l.sess, l.listKind, l.err)
				return
			}
			continue
		}
		idx := -1
		for i, s := range w.sets[l.listKind] {
			if s == l.names {
				idx = i
			}
		}
		// A traversal of several pages that overlaps a change of that list may legitimately mix states (its union
		// may even coincide with an older state), and pages may have been cached at different times.
		overlapsChange := false
		if l.pages > 1 {
			for _, ch := range w.changes {
				if ch.listKind == l.listKind && ch.seqStart < l.seqDone && ch.seqDone > l.seqIssue {
					overlapsChange = true
				}
			}
		}
		if l.pages > 1 && (idx < 0 || overlapsChange) {
			// Only when nothing can be stale is a mixture wrong: a final traversal
			// (no change in progress) by a session that had handled the notification covering the last state.
			rt := w.sess[l.sess]
			m := c18Method(c18NotifKind(l.listKind))
			need := 0
			for pos, a := range rt.recvs[m] {
				if a.handledSeq == 0 || a.handledSeq > l.seqIssue {
					continue
				}
				if ci := coverIdx(rt, spec.Sessions[l.sess].Kind == "mem", m, l.listKind, pos, a); ci > need {
					need = ci
				}
			}
			if idx < 0 && l.final && need == len(w.sets[l.listKind])-1 {
				c.Violate("stale-page-after-notification/"+l.listKind, "session %d (%s, ttl %d ms, page size %d): the final %s traversal (%d pages) returned {%s} although the client had handled the notification sent after the last state {%s} was in place: some page is stale", l.sess, spec.Sessions[l.sess].Version, spec.TTLms, spec.PageSize, l.listKind, l.pages, l.names, w.sets[l.listKind][need])
				return
			}
			c.Count("paged_mixtures_undecided", 1)
			continue
		}
		if idx < 0 {
			c.Violate("list-matches-no-state", "session %d: %s list returned {%s}, which was never the server's state (history %v)", l.sess, l.listKind, l.names, w.sets[l.listKind])
			return
		}
		rt := w.sess[l.sess]
		m := c18Method(c18NotifKind(l.listKind))
		need, by := 0, -1
		for pos, a := range rt.recvs[m] {
			if a.handledSeq == 0 || a.handledSeq > l.seqIssue {
				continue
			}
			if ci := coverIdx(rt, spec.Sessions[l.sess].Kind == "mem", m, l.listKind, pos, a); ci > need {
				need, by = ci, pos
			}
		}
		if idx < need {
			key := "stale-list-after-notification/" + l.listKind
			if spec.Sessions[l.sess].RespDelayMs > 0 {
				key = "stale-fill/in-flight-list"
			}
			c.Violate(key, "session %d (%s, ttl %d ms): a %s list issued at %s, after the client handled %s #%d (received %s), returned state #%d {%s}; that notification was sent after state #%d {%s} was in place", l.sess, spec.Sessions[l.sess].Version, spec.TTLms, l.listKind, ms(l.tIssue), m, by, ms(rt.recvs[m][by].t), idx, l.names, need, w.sets[l.listKind][need])
			return
		}
		if need > 0 {
			nontrivial = true
		}
	}
	for _, r := range w.reads {
		if r.err != "" {
			continue
		}
		rt := w.sess[r.sess]
		need := 0
		for _, a := range rt.recvs[updM] {
			if a.uri == r.uri && a.handledSeq != 0 && a.handledSeq < r.seqIssue && a.nonce > need {
				need = a.nonce
			}
		}
		if r.counter < need {
			c.Violate("stale-read-after-notification", "session %d: a read of %s issued after the client handled the update with counter %d returned counter %d", r.sess, r.uri, need, r.counter)
			return
		}
		// ... and the same for a resource that was registered anew: that is announced by resources/list_changed
		lcM := c18Method("resources")
		need2 := 0
		for pos, a := range rt.recvs[lcM] {
			if a.handledSeq == 0 || a.handledSeq > r.seqIssue {
				continue
			}
			ci := coverIdx(rt, spec.Sessions[r.sess].Kind == "mem", lcM, "resources", pos, a)
			for _, ch := range w.changes {
				if ch.listKind == "resources" && ch.replURI == r.uri && ch.idx <= ci && ch.replNonce > need2 {
					need2 = ch.replNonce
				}
			}
		}
		if r.counter < need2 {
			c.Violate("stale-read-after-list-changed", "session %d (%s, ttl %d ms): a read of %s issued after the client handled a resources/list_changed notification that was sent after the resource had been registered anew (counter %d) returned the older content (counter %d)", r.sess, spec.Sessions[r.sess].Version, spec.TTLms, r.uri, need2, r.counter)
			return
		}
		if need2 > 0 {
			c.Count("reads_after_replacement", 1)
		}
	}
	c.Count("changes", len(w.changes))
	c.Count("updates", len(w.updates))
	c.Count("lists", len(w.lists))
	c.Count("reads", len(w.reads))
	for _, rt := range w.sess {
		for _, rs := range rt.recvs {
			c.Count("notifications-received", len(rs))
		}
	}
	if nontrivial {
		c.Nontrivial(w.log.KindSignature())
	}
}

func c18Times(arr []c18Arrival) []string {
	var out []string
	for _, a := range arr {
		out = append(out, (time.Duration(a.t) * time.Microsecond).String())
	}
	return out
}

var _ = testing.Short
