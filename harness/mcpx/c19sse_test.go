//go:build verif

// C19, SSE framing at the start of a legacy HTTP+SSE stream: what the server writes after the endpoint event is part
// of the stream like everything else, also when it reaches the client in the same read as the endpoint event (one
// Write on the server, a coalescing proxy, a client that is slow to start reading).
package mcpx

import (
	"context"
	"encoding/json"
	"fmt"
	"io"
	"net/http"
	"strings"
	"sync"
	"time"

	"github.com/modelcontextprotocol/go-sdk/internal/verifharness/vh"
	"github.com/modelcontextprotocol/go-sdk/internal/verifharness/vhm"
	"github.com/modelcontextprotocol/go-sdk/mcp"
)

func c19CoalescedSSE(c *vh.Case) {
	r := c.R
	ctx, cancel := context.WithCancel(context.Background())
	defer cancel()
	early := r.Range(1, 3)     // messages written together with the endpoint event
	oneWrite := r.Chance(3, 4) // ... in one Write; otherwise in separate Writes without a pause in between
	version := r.Choose("2025-06-18", "2025-11-25", "2025-03-26")
	// an event without an "event:" field is a message event (the SSE default): servers may leave the field out
	evName := "event: message\n"
	if r.Chance(1, 3) {
		evName = ""
		c.Count("sse_sessions_with_unnamed_message_events", 1)
	}
	var mu sync.Mutex
	var posted []string
	toStream := make(chan string, 16)
	h := http.HandlerFunc(func(w http.ResponseWriter, req *http.Request) {
		switch {
		case req.Method == "GET" && req.URL.Path == "/sse":
			w.Header().Set("Content-Type", "text/event-stream")
			w.WriteHeader(200)
			first := "event: endpoint\ndata: /msg?sessionid=s1\n\n"
			var rest []string
			for i := 0; i < early; i++ {
				rest = append(rest, fmt.Sprintf("%sdata: {\"jsonrpc\":\"2.0\",\"id\":\"early-%d\",\"method\":\"ping\"}\n\n", evName, i))
			}
			if oneWrite {
				io.WriteString(w, first+strings.Join(rest, ""))
			} else {
				io.WriteString(w, first)
				for _, x := range rest {
					io.WriteString(w, x)
				}
			}
			w.(http.Flusher).Flush()
			for {
				select {
				case <-req.Context().Done():
					return
				case m := <-toStream:
					io.WriteString(w, evName+"data: "+m+"\n\n")
					w.(http.Flusher).Flush()
				}
			}
		case req.Method == "POST" && req.URL.Path == "/msg":
			b, _ := io.ReadAll(req.Body)
			mu.Lock()
			posted = append(posted, string(b))
			mu.Unlock()
			var m struct {
				ID     json.RawMessage `json:"id"`
				Method string          `json:"method"`
			}
			json.Unmarshal(b, &m)
			if m.Method == "initialize" {
				toStream <- fmt.Sprintf(`{"jsonrpc":"2.0","id":%s,"result":%s}`, m.ID, vhm.InitializeResultJSON(version))
			} else if m.Method != "" && m.ID != nil {
				toStream <- fmt.Sprintf(`{"jsonrpc":"2.0","id":%s,"result":{}}`, m.ID)
			}
			w.WriteHeader(202)
		default:
			w.WriteHeader(404)
		}
	})
	ip := &vhm.InProc{Handler: h}
	client := mcp.NewClient(&mcp.Implementation{Name: "c", Version: "1"}, nil)
	cs, err := client.Connect(ctx, &mcp.SSEClientTransport{Endpoint: "http://example.test/sse", HTTPClient: &http.Client{Transport: ip}}, &mcp.ClientSessionOptions{ProtocolVersion: version})
	if err != nil {
		c.Inconclusive("connect to the scripted HTTP+SSE endpoint: %v", err)
		return
	}
	time.Sleep(2 * time.Second)
	mu.Lock()
	got := append([]string(nil), posted...)
	mu.Unlock()
	answered := 0
	for i := 0; i < early; i++ {
		for _, p := range got {
			var m struct {
				ID     string          `json:"id"`
				Result json.RawMessage `json:"result"`
				Error  json.RawMessage `json:"error"`
			}
			if json.Unmarshal([]byte(p), &m) == nil && m.ID == fmt.Sprintf("early-%d", i) && (m.Result != nil || m.Error != nil) {
				answered++
				break
			}
		}
	}
	cs.Close()
	cancel()
	ip.Wait()
	time.Sleep(11 * time.Second)
	c.Count("sse_messages_sent_with_the_endpoint_event", early)
	if answered != early {
		c.Violate("message-lost-in-sse-framing", "the server wrote %d ping request(s) right behind the endpoint event (one Write: %v); the client answered %d of them (it posted %d message(s): %v): what shared a read with the endpoint event never reached the session", early, oneWrite, answered, len(got), trunc80(strings.Join(got, " | ")))
		return
	}
	c.Nontrivial(fmt.Sprintf("coalesced-sse/%d/%v/%s/%v", early, oneWrite, version, evName == ""))
}
