//go:build verif

// C07 — the negotiated protocol version is supported by both sides and the transport, in every setup.
//
// Two exhaustively enumerated matrices, every cell a real Client.Connect followed
// by ListTools and CallTool:
//
//   - real x real: requested version x server transport configuration x an earlier
//     connection to the same Server through a transport of the other kind x
//     client with/without list-changed handlers;
//   - real client x scripted server: requested version x the way the server answers
//     server/discover x the set of versions it supports x the way it answers
//     initialize.
//
// The oracle is written from the statement: membership of the negotiated version
// in (SDK versions ∩ what the transport/server can serve), equality with the
// requested version when that is mutually supported, fall-back to initialize
// observed on the wire, and immediate usability of the session.
package mcpx

import (
	"context"
	"encoding/json"
	"fmt"
	"io"
	"net/http"
	"slices"
	"sort"
	"strings"
	"sync"
	"testing"
	"time"

	"github.com/modelcontextprotocol/go-sdk/internal/verifharness/vh"
	"github.com/modelcontextprotocol/go-sdk/internal/verifharness/vhm"
	"github.com/modelcontextprotocol/go-sdk/jsonrpc"
	"github.com/modelcontextprotocol/go-sdk/mcp"
)

var (
	c07SDK        = []string{"2026-07-28", "2025-11-25", "2025-06-18", "2025-03-26", "2024-11-05"}
	c07Requested  = []string{"", "2026-07-28", "2025-11-25", "2025-06-18", "2025-03-26", "2024-11-05", "2020-01-01", "2025-07-01", "2099-12-31", "zzz", "1.0", "2026-07-29", c07EmptyOptions}
	c07Transports = []string{"mem", "mem-logged", "mem-legacy", "mem-legacy-logged", "pipe", "pipe-logged", "pipe-legacy", "pipe-legacy-logged", "pipe-legacy-clientfirst", "sse", "http", "http-json", "http-es", "http-json-es", "http-nosid", "http-nosid-json", "http-stateless", "http-stateless-json", "http-stateless-es"}
	c07Priors     = []string{"none", "stateless-first", "stateful-open", "stateless-open", "sse-first", "trimmed-probe", "same-client-sse-first"}
	c07Discovers  = []string{"ok", "notfound", "invalid-params", "unsupported-data", "unsupported-data-always", "unsupported-nodata", "internal", "unsupported-data-sdkwide"}
	c07Sets       = [][]string{
		{"2026-07-28", "2025-11-25", "2025-06-18", "2025-03-26", "2024-11-05"},
		{"2025-11-25", "2025-06-18", "2025-03-26", "2024-11-05"},
		{"2026-07-28"},
		{"2026-07-28", "2025-06-18"},
		{"2025-03-26", "2024-11-05"},
		{"2027-01-01"},
		{"2027-01-01", "2026-07-28", "2025-11-25"},
		{"2027-01-01", "2025-06-18"},
		{},
		// the order of the list is not prescribed: oldest first, and the modern version last
		{"2024-11-05", "2025-03-26", "2025-06-18", "2025-11-25", "2026-07-28"},
		{"2025-11-25", "2026-07-28"},
		// a server from the future that lists the very string an application asked for, which this SDK does not know
		{"2099-12-31", "2026-07-28"},
		{"2099-12-31"},
		{"zzz", "2025-06-18"},
	}
	c07Inits = []string{"std", "unknown-version", "error", "future-version", "echo", "modern"}
)

const c07Modern = "2026-07-28"

// c07EmptyOptions stands for a non-nil ClientSessionOptions whose ProtocolVersion is empty: the default.
const c07EmptyOptions = "<empty options>"

var c07HTTPDiscover = []string{"404-plain", "400-plain", "405-plain", "404-json", "400-json", "200-json-notfound", "404-empty", "401-plain-then-404", "200-html", "202-empty", "501-plain"}

type c07Spec struct {
	Part      string   `json:"part"`
	Requested string   `json:"requested"`
	Transport string   `json:"transport,omitempty"`
	Prior     string   `json:"prior,omitempty"`
	Handlers  bool     `json:"handlers"`
	Discover  string   `json:"discover,omitempty"`
	Set       []string `json:"set,omitempty"`
	Init      string   `json:"init,omitempty"`
}

func c07RealCells() int {
	return len(c07Requested) * len(c07Transports) * len(c07Priors) * 2
}
func c07ScriptCells() int {
	return len(c07Requested) * len(c07Discovers) * len(c07Sets) * len(c07Inits) * 2
}

func c07HTTPCells() int { return len(c07HTTPDiscover) * 4 * 2 }

// how a legacy HTTP+SSE endpoint that has never heard of server/discover answers the POST carrying it
var c07SSEDiscover = []string{"400-plain", "404-plain", "405-plain", "500-plain", "202-error-on-stream", "202-silence"}

func c07SSECells() int { return len(c07SSEDiscover) * 4 * 2 }

func c07Cell(i int) c07Spec {
	if i >= c07RealCells()+c07ScriptCells()+c07HTTPCells() {
		i -= c07RealCells() + c07ScriptCells() + c07HTTPCells()
		s := c07Spec{Part: "sse-script"}
		s.Discover = c07SSEDiscover[i%len(c07SSEDiscover)]
		i /= len(c07SSEDiscover)
		s.Requested = []string{"", c07Modern, "2099-12-31", c07EmptyOptions}[i%4]
		i /= 4
		s.Handlers = i%2 == 1
		return s
	}
	if i >= c07RealCells()+c07ScriptCells() {
		i -= c07RealCells() + c07ScriptCells()
		s := c07Spec{Part: "http-script"}
		s.Discover = c07HTTPDiscover[i%len(c07HTTPDiscover)]
		i /= len(c07HTTPDiscover)
		s.Requested = []string{"", c07Modern, "2099-12-31", c07EmptyOptions}[i%4]
		i /= 4
		s.Handlers = i%2 == 1
		return s
	}
	if i < c07RealCells() {
		s := c07Spec{Part: "real"}
		s.Requested = c07Requested[i%len(c07Requested)]
		i /= len(c07Requested)
		s.Transport = c07Transports[i%len(c07Transports)]
		i /= len(c07Transports)
		s.Prior = c07Priors[i%len(c07Priors)]
		i /= len(c07Priors)
		s.Handlers = i%2 == 1
		return s
	}
	i -= c07RealCells()
	s := c07Spec{Part: "script"}
	s.Requested = c07Requested[i%len(c07Requested)]
	i /= len(c07Requested)
	s.Discover = c07Discovers[i%len(c07Discovers)]
	i /= len(c07Discovers)
	s.Set = c07Sets[i%len(c07Sets)]
	i /= len(c07Sets)
	s.Init = c07Inits[i%len(c07Inits)]
	i /= len(c07Inits)
	s.Handlers = i%2 == 1
	return s
}

func TestVerifC07(t *testing.T) {
	// the one guarded hook this check uses: at the named point inside Server.Connect other goroutines get to run
	// first (a millisecond of virtual time), as they may on any real scheduler
	mcp.VerifSetPointHook(func(name string) {
		if name == "server-connect:connection-started" {
			time.Sleep(time.Millisecond)
		}
	})
	defer mcp.VerifSetPointHook(nil)
	total := c07RealCells() + c07ScriptCells() + c07HTTPCells() + c07SSECells()
	cfg := vh.Config{
		Property:   "C07",
		Cases:      total,
		Exhaustive: true,
		Rule: fmt.Sprintf("complete matrices (%d cells). real x real (%d): %d requested versions (default, the 5 SDK versions, unknown older/in-between/newer strings) x %d server transport configurations (in-memory, stdio pipe, each also behind a transport that declares legacy versions only; SSE; streamable stateful with/without JSON responses, event store, suppressed session ids; streamable stateless with/without JSON responses, event store) x %d kinds of earlier connection to the same Server through another transport x client with/without list-changed handlers. "+
			"real client x scripted server (%d): %d requested versions x %d ways of answering server/discover x %d supported-version sets x %d ways of answering initialize x handlers. Each cell: Client.Connect, then ListTools and CallTool. "+
			"non-trivial: every cell whose Connect outcome the statement constrains (success required, or success observed). distinct = distinct cells",
			total, c07RealCells(), len(c07Requested), len(c07Transports), len(c07Priors), c07ScriptCells(), len(c07Requested), len(c07Discovers), len(c07Sets), len(c07Inits)),
		MinNontrivial: 1000,
		Assumptions: []string{"a transport wrapper that declares only legacy versions stands for 'server advertising a subset' on in-memory/stdio; legacy-version subsets are exercised with the scripted server",
			"Connect may fail when the requested version is not an SDK version; it must succeed in a fault-free setup when it is (or is the default)"},
	}
	vh.Run(t, cfg, func(c *vh.Case) {
		spec := c07Cell(c.Index)
		c.SetSpec(spec)
		switch spec.Part {
		case "real":
			c.Bubble("", func() { runC07Real(c, spec) })
		case "http-script":
			c.Bubble("", func() { runC07HTTP(c, spec) })
		case "sse-script":
			c.Bubble("", func() { runC07SSE(c, spec) })
		default:
			c.Bubble("", func() { runC07Script(c, spec) })
		}
	})
}

// legacyOnlyTransport declares that it cannot serve the sessionless protocol.
type legacyOnlyTransport struct{ mcp.Transport }

func (legacyOnlyTransport) SupportsProtocolVersion(v string) bool { return v < c07Modern }

type c07Echo struct {
	Text string `json:"text"`
}

func c07Server(log *vh.Log, nosid bool) *mcp.Server {
	var so *mcp.ServerOptions
	if nosid {
		so = &mcp.ServerOptions{GetSessionID: func() string { return "" }}
	}
	server := mcp.NewServer(&mcp.Implementation{Name: "s", Version: "1"}, so)
	mcp.AddTool(server, &mcp.Tool{Name: "echo"}, func(ctx context.Context, req *mcp.CallToolRequest, in c07Echo) (*mcp.CallToolResult, any, error) {
		return &mcp.CallToolResult{Content: []mcp.Content{&mcp.TextContent{Text: "echo:" + in.Text}}}, nil, nil
	})
	// an application-defined method next to the standard ones
	mcp.AddReceivingCustomMethod(server, "acme/search", func(ctx context.Context, ss *mcp.ServerSession, p *c07SearchParams) (*c07SearchResult, error) {
		return &c07SearchResult{Hits: []string{"hit:" + p.Query}}, nil
	})
	server.AddReceivingMiddleware(func(next mcp.MethodHandler) mcp.MethodHandler {
		return func(ctx context.Context, method string, req mcp.Request) (mcp.Result, error) {
			log.Add("server-received", "method", method)
			return next(ctx, method, req)
		}
	})
	return server
}

type c07SearchParams struct {
	mcp.ParamsBase
	Query string `json:"query"`
}

type c07SearchResult struct {
	mcp.ResultBase
	Hits []string `json:"hits"`
}

func c07Client(handlers bool) *mcp.Client {
	var opts *mcp.ClientOptions
	if handlers {
		opts = &mcp.ClientOptions{ToolListChangedHandler: func(context.Context, *mcp.ToolListChangedRequest) {}, ResourceListChangedHandler: func(context.Context, *mcp.ResourceListChangedRequest) {},
			KeepAlive: time.Hour} // an application option that has nothing to do with versions
	}
	cl := mcp.NewClient(&mcp.Implementation{Name: "c", Version: "1"}, opts)
	mcp.AddSendingCustomMethod[*c07SearchParams, *c07SearchResult](cl, "acme/search")
	return cl
}

// c07Use checks that the session can list and call tools right away.
func c07Use(c *vh.Case, ctx context.Context, cs *mcp.ClientSession, v string) {
	lt, err := cs.ListTools(ctx, nil)
	if err != nil {
		c.Violate("session-unusable/list", "Connect succeeded with version %q but ListTools fails: %v", v, err)
		return
	}
	if len(lt.Tools) != 1 || lt.Tools[0].Name != "echo" {
		c.Violate("session-unusable/list", "Connect succeeded with version %q but ListTools returned %d tools", v, len(lt.Tools))
		return
	}
	res, err := cs.CallTool(ctx, &mcp.CallToolParams{Name: "echo", Arguments: map[string]any{"text": "hi"}})
	if err != nil {
		c.Violate("session-unusable/call", "Connect succeeded with version %q but CallTool fails: %v", v, err)
		return
	}
	if res.IsError || len(res.Content) != 1 || textOf(res) != "echo:hi" {
		c.Violate("session-unusable/call", "Connect succeeded with version %q but CallTool returned %s", v, vh.JSON(res))
		return
	}
	// the application's own method is served on the negotiated session like the standard ones
	sr, err := mcp.CallCustomMethod[*c07SearchParams, *c07SearchResult](ctx, cs, "acme/search", &c07SearchParams{Query: "q"})
	if err != nil || sr == nil || len(sr.Hits) != 1 || sr.Hits[0] != "hit:q" {
		c.Violate("session-unusable/custom-method", "Connect succeeded with version %q but the registered custom method fails: %v %s", v, err, vh.JSON(sr))
	}
}

func runC07Real(c *vh.Case, spec c07Spec) {
	ctx := context.Background()
	log := c.Log
	server := c07Server(log, strings.Contains(spec.Transport, "-nosid"))
	get := func(*http.Request) *mcp.Server { return server }
	var waits []func()
	var closers []func()

	client := c07Client(spec.Handlers)
	// ---- an earlier connection to the same Server through another transport
	connectHTTP := func(ho *mcp.StreamableHTTPOptions, client *mcp.Client, copts *mcp.ClientSessionOptions) (*mcp.ClientSession, error) {
		h := mcp.NewStreamableHTTPHandler(get, ho)
		ip := &vhm.InProc{Handler: h, Log: log, AsyncDelete: true}
		waits = append(waits, ip.Wait)
		ct := &mcp.StreamableClientTransport{Endpoint: "http://example.test/mcp", HTTPClient: ip.Client()}
		return client.Connect(ctx, ct, copts)
	}
	connectSSE := func(client *mcp.Client, copts *mcp.ClientSessionOptions) (*mcp.ClientSession, error) {
		h := mcp.NewSSEHandler(get, nil)
		ip := &vhm.InProc{Handler: h, Log: log}
		waits = append(waits, ip.Wait)
		ct := &mcp.SSEClientTransport{Endpoint: "http://example.test/sse", HTTPClient: ip.Client()}
		return client.Connect(ctx, ct, copts)
	}
	if spec.Prior == "trimmed-probe" {
		// Another server of this process advertises a subset by trimming its discover result in a
		// middleware (in place) and is probed once. Whatever comes of that probe, it concerns that server only.
		other := mcp.NewServer(&mcp.Implementation{Name: "other", Version: "1"}, nil)
		other.AddReceivingMiddleware(func(next mcp.MethodHandler) mcp.MethodHandler {
			return func(ctx context.Context, method string, req mcp.Request) (mcp.Result, error) {
				res, err := next(ctx, method, req)
				if dr, ok := res.(*mcp.DiscoverResult); ok && err == nil {
					dr.SupportedVersions = slices.DeleteFunc(dr.SupportedVersions, func(v string) bool { return v >= c07Modern })
				}
				return res, err
			}
		})
		st, ct := mcp.NewInMemoryTransports()
		if oss, err := other.Connect(ctx, st, nil); err == nil {
			if pcs, err := c07Client(false).Connect(ctx, ct, nil); err == nil {
				pcs.Close()
			}
			oss.Close()
		}
	} else if spec.Prior != "none" {
		var pcs *mcp.ClientSession
		var err error
		switch spec.Prior {
		case "same-client-sse-first":
			// the very Client object under test has served a legacy-only endpoint before (and fell back there)
			pcs, err = connectSSE(client, nil)
		case "stateless-first", "stateless-open":
			pcs, err = connectHTTP(&mcp.StreamableHTTPOptions{Stateless: true}, c07Client(false), nil)
		case "stateful-open":
			pcs, err = connectHTTP(&mcp.StreamableHTTPOptions{}, c07Client(false), nil)
		case "sse-first":
			pcs, err = connectSSE(c07Client(false), nil)
		}
		if err != nil {
			c.Violate("prior-connect-failed", "the earlier default connection (%s) failed: %v", spec.Prior, err)
			return
		}
		want := c07Modern
		if spec.Prior == "stateful-open" || spec.Prior == "sse-first" || spec.Prior == "same-client-sse-first" {
			want = "2025-11-25"
		}
		if got := pcs.InitializeResult().ProtocolVersion; got != want {
			c.Violate("prior-negotiated", "the earlier default connection (%s) negotiated %q, want %q", spec.Prior, got, want)
		}
		c07Use(c, ctx, pcs, pcs.InitializeResult().ProtocolVersion)
		if strings.HasSuffix(spec.Prior, "-first") {
			pcs.Close()
		} else {
			closers = append(closers, func() { pcs.Close() })
		}
	}
	log.Add("main-connect")

	// ---- the connection under test
	copts := c07Options(spec.Requested)
	var cs *mcp.ClientSession
	var err error
	modernCapable := true
	switch spec.Transport {
	case "mem", "mem-logged", "mem-legacy", "pipe", "pipe-logged", "pipe-legacy", "mem-legacy-logged", "pipe-legacy-logged", "pipe-legacy-clientfirst":
		var st, ct mcp.Transport
		if strings.HasPrefix(spec.Transport, "mem") {
			st, ct = mcp.NewInMemoryTransports()
		} else {
			cr, sw := io.Pipe()
			sr, cw := io.Pipe()
			st = &mcp.IOTransport{Reader: sr, Writer: sw}
			ct = &mcp.IOTransport{Reader: cr, Writer: cw}
		}
		if strings.Contains(spec.Transport, "-legacy") {
			st = legacyOnlyTransport{st}
			modernCapable = false
		}
		if strings.HasSuffix(spec.Transport, "-logged") {
			// the SDK's own logging wrapper, on the server's side, around a transport that cannot serve the sessionless
			// protocol (-legacy-logged) or around one that can (-logged)
			st = &mcp.LoggingTransport{Transport: st, Writer: io.Discard}
		}
		var early chan struct{}
		if strings.HasSuffix(spec.Transport, "-clientfirst") {
			// the client is there first (a stdio server whose client has already written its first request when the
			// server starts): the request is read the moment the server's connection starts
			early = make(chan struct{})
			go func() {
				defer close(early)
				cs, err = client.Connect(ctx, ct, copts)
			}()
			synctestWait()
		}
		ss, serr := server.Connect(ctx, st, nil)
		if serr != nil {
			c.Inconclusive("server connect: %v", serr)
			return
		}
		closers = append(closers, func() { ss.Close() })
		if early != nil {
			<-early
		} else {
			cs, err = client.Connect(ctx, ct, copts)
		}
	case "sse":
		modernCapable = false
		cs, err = connectSSE(client, copts)
	default:
		ho := &mcp.StreamableHTTPOptions{}
		if strings.Contains(spec.Transport, "-json") {
			ho.JSONResponse = true
		}
		if strings.Contains(spec.Transport, "-es") {
			ho.EventStore = mcp.NewMemoryEventStore(nil)
		}
		if strings.Contains(spec.Transport, "-stateless") {
			ho.Stateless = true
		} else {
			modernCapable = false
		}
		cs, err = connectHTTP(ho, client, copts)
	}

	// ---- oracle
	requested := spec.Requested
	if requested == "" || requested == c07EmptyOptions {
		requested = c07Modern
	}
	reqIsSDK := slices.Contains(c07SDK, requested)
	canServe := func(v string) bool { return slices.Contains(c07SDK, v) && (v < c07Modern || modernCapable) }
	var sawInit, sawDiscover bool
	seenMain := false
	for _, e := range log.Events() {
		if e.Kind == "main-connect" {
			seenMain = true
		}
		if seenMain && e.Kind == "server-received" {
			switch e.F["method"] {
			case "initialize":
				sawInit = true
			case "server/discover":
				sawDiscover = true
			}
		}
	}
	if err != nil {
		log.Add("connect-failed", "err", err.Error())
		c.Count("real-connect-failed", 1)
		c.Seen("real-failure", spec.Transport+"/"+spec.Requested)
		if reqIsSDK {
			c.Violate("connect-failed/"+c07Class(spec.Transport), "requested %q over %s (server can serve it or a fall-back exists) but Connect failed: %v", spec.Requested, spec.Transport, err)
		}
	} else {
		v := cs.InitializeResult().ProtocolVersion
		log.Add("connected", "version", v, "saw_initialize", sawInit, "saw_discover", sawDiscover)
		c.Count("real-connected", 1)
		c.Seen("negotiated", spec.Transport+"/"+spec.Requested+"->"+v)
		switch {
		case !slices.Contains(c07SDK, v):
			c.Violate("negotiated-unknown-version", "requested %q over %s: negotiated %q, which the SDK does not support", spec.Requested, spec.Transport, v)
		case !canServe(v):
			c.Violate("negotiated-unserved-version/"+c07Class(spec.Transport), "requested %q over %s: negotiated %q, which this transport cannot serve", spec.Requested, spec.Transport, v)
		case canServe(requested) && v != requested:
			c.Violate("requested-version-not-honoured/"+c07Class(spec.Transport), "requested %q over %s is mutually supported, but %q was negotiated", spec.Requested, spec.Transport, v)
		case v < c07Modern && !sawInit:
			c.Violate("legacy-without-initialize", "requested %q over %s: negotiated legacy %q but the server never received initialize", spec.Requested, spec.Transport, v)
		case requested >= c07Modern && !sawDiscover:
			c.Violate("no-discovery-attempt", "requested %q over %s: the server never received server/discover", spec.Requested, spec.Transport)
		}
		if !c.Violated() {
			c07Use(c, ctx, cs, v)
		}
		cs.Close()
		c.Nontrivial(fmt.Sprintf("real/%s/%s/%s/%v", spec.Transport, spec.Requested, spec.Prior, spec.Handlers))
	}
	if err != nil && reqIsSDK {
		c.Nontrivial(fmt.Sprintf("real/%s/%s/%s/%v", spec.Transport, spec.Requested, spec.Prior, spec.Handlers))
	}
	for _, f := range closers {
		f()
	}
	for ss := range server.Sessions() {
		ss.Close()
	}
	for _, wf := range waits {
		wf()
	}
	time.Sleep(11 * time.Second)
}

func c07Class(tr string) string {
	switch {
	case strings.HasPrefix(tr, "http-stateless"):
		return "stateless-http"
	case strings.HasPrefix(tr, "http"):
		return "stateful-http"
	}
	return tr
}

// ---- real client x scripted server

type c07Script struct {
	mu        sync.Mutex
	discovers []string // versions carried by server/discover requests
	inits     []string // versions carried by initialize requests
	others    []string // method@version of later requests
}

func c07MetaVersion(params json.RawMessage) string {
	var p struct {
		Meta map[string]any `json:"_meta"`
	}
	json.Unmarshal(params, &p)
	v, _ := p.Meta["io.modelcontextprotocol/protocolVersion"].(string)
	return v
}

func runC07Script(c *vh.Case, spec c07Spec) {
	ctx := context.Background()
	log := c.Log
	sc := vhm.NewScriptConn(log)
	st := &c07Script{}
	set := spec.Set
	var legacy []string
	for _, v := range set {
		if v < c07Modern {
			legacy = append(legacy, v)
		}
	}
	sort.Sort(sort.Reverse(sort.StringSlice(legacy)))
	setJSON, _ := json.Marshal(append([]string{}, set...))
	discoverOK := func(id jsonrpc.ID) {
		sc.Inject(vhm.Resp(id, `{"supportedVersions":`+string(setJSON)+`,"capabilities":{"tools":{"listChanged":true},"resources":{"listChanged":true}},"_meta":{"io.modelcontextprotocol/serverInfo":{"name":"scripted","version":"1"}}}`))
	}
	unsupported := func(id jsonrpc.ID, requested string, supported []string, withData bool) {
		data := ""
		if withData {
			b, _ := json.Marshal(map[string]any{"supported": append([]string{}, supported...), "requested": requested})
			data = string(b)
		}
		sc.Inject(vhm.ErrResp(id, -32022, "unsupported protocol version", data))
	}
	sc.OnWrite = func(wctx context.Context, msg jsonrpc.Message) error {
		req, ok := msg.(*jsonrpc.Request)
		if !ok || !req.IsCall() {
			return nil
		}
		mv := c07MetaVersion(req.Params)
		st.mu.Lock()
		defer st.mu.Unlock()
		switch req.Method {
		case "server/discover":
			st.discovers = append(st.discovers, mv)
			log.Add("discover", "version", mv)
			switch spec.Discover {
			case "ok":
				discoverOK(req.ID)
			case "notfound":
				sc.Inject(vhm.ErrResp(req.ID, -32601, "method not found", ""))
			case "invalid-params":
				sc.Inject(vhm.ErrResp(req.ID, -32602, "invalid params", ""))
			case "internal":
				sc.Inject(vhm.ErrResp(req.ID, -32603, "internal error", ""))
			case "unsupported-nodata":
				unsupported(req.ID, mv, nil, false)
			case "unsupported-data":
				if slices.Contains(set, mv) {
					discoverOK(req.ID)
				} else {
					unsupported(req.ID, mv, set, true)
				}
			case "unsupported-data-sdkwide":
				// like the SDK's own server: the error lists every version the implementation knows,
				// the discover result only what this endpoint serves
				if slices.Contains(c07SDK, mv) {
					discoverOK(req.ID)
				} else {
					unsupported(req.ID, mv, c07SDK, true)
				}
			case "unsupported-data-always":
				unsupported(req.ID, mv, set, true)
			}
		case "initialize":
			var p struct {
				ProtocolVersion string `json:"protocolVersion"`
			}
			json.Unmarshal(req.Params, &p)
			st.inits = append(st.inits, p.ProtocolVersion)
			log.Add("initialize", "version", p.ProtocolVersion)
			switch spec.Init {
			case "std":
				switch {
				case slices.Contains(legacy, p.ProtocolVersion):
					sc.Inject(vhm.Resp(req.ID, vhm.InitializeResultJSON(p.ProtocolVersion)))
				case len(legacy) > 0:
					sc.Inject(vhm.Resp(req.ID, vhm.InitializeResultJSON(legacy[0])))
				default:
					sc.Inject(vhm.ErrResp(req.ID, -32602, "unsupported protocol version", ""))
				}
			case "echo":
				sc.Inject(vhm.Resp(req.ID, vhm.InitializeResultJSON(p.ProtocolVersion)))
			case "unknown-version":
				sc.Inject(vhm.Resp(req.ID, vhm.InitializeResultJSON("1999-01-01")))
			case "future-version":
				sc.Inject(vhm.Resp(req.ID, vhm.InitializeResultJSON("2027-01-01")))
			case "modern":
				// a server that answers the legacy handshake with the sessionless protocol's version, which has no handshake
				sc.Inject(vhm.Resp(req.ID, vhm.InitializeResultJSON(c07Modern)))
			case "error":
				sc.Inject(vhm.ErrResp(req.ID, -32603, "initialize failed", ""))
			}
		case "tools/list":
			st.others = append(st.others, req.Method+"@"+mv)
			sc.Inject(vhm.Resp(req.ID, `{"tools":[{"name":"echo","inputSchema":{"type":"object"}}]}`))
		case "tools/call":
			st.others = append(st.others, req.Method+"@"+mv)
			sc.Inject(vhm.Resp(req.ID, `{"content":[{"type":"text","text":"echo:hi"}]}`))
		case "acme/search":
			st.others = append(st.others, req.Method+"@"+mv)
			sc.Inject(vhm.Resp(req.ID, `{"hits":["hit:q"]}`))
		case "subscriptions/listen":
			st.others = append(st.others, req.Method+"@"+mv)
			// a long-lived stream: no response while it is open
		default:
			sc.Inject(vhm.Resp(req.ID, `{}`))
		}
		return nil
	}
	copts := c07Options(spec.Requested)
	client := c07Client(spec.Handlers)
	cctx, cancel := context.WithTimeout(ctx, 30*time.Second)
	defer cancel()
	cs, err := client.Connect(cctx, sc, copts)

	// ---- oracle
	requested := spec.Requested
	if requested == "" || requested == c07EmptyOptions {
		requested = c07Modern
	}
	discoverWorks := spec.Discover == "ok" || spec.Discover == "unsupported-data" || spec.Discover == "unsupported-data-sdkwide"
	serverHas := func(v string) bool {
		if v >= c07Modern {
			return discoverWorks && slices.Contains(set, v)
		}
		if spec.Init == "echo" {
			return true
		}
		return slices.Contains(legacy, v) && spec.Init == "std"
	}
	mutual := func(v string) bool { return slices.Contains(c07SDK, v) && serverHas(v) }
	modernOverlap := mutual(c07Modern)
	legacyOverlap := false
	for _, v := range legacy {
		if mutual(v) {
			legacyOverlap = true
		}
	}
	st.mu.Lock()
	nDisc, nInit := len(st.discovers), len(st.inits)
	st.mu.Unlock()
	mustSucceed := (requested >= c07Modern && modernOverlap) || (legacyOverlap && (requested < c07Modern || !modernOverlap))
	if spec.Init == "echo" {
		// this server answers initialize with whatever version was asked for
		legacyOverlap = true
		mustSucceed = (requested >= c07Modern) || slices.Contains(c07SDK, requested)
	}
	sig := fmt.Sprintf("script/%s/%s/%v/%s/%v", spec.Requested, spec.Discover, spec.Set, spec.Init, spec.Handlers)
	if err != nil {
		log.Add("connect-failed", "err", err.Error())
		c.Count("script-connect-failed", 1)
		if mustSucceed {
			c.Nontrivial(sig)
			if requested >= c07Modern && !modernOverlap && nInit == 0 {
				c.Violate("no-fallback-to-initialize", "requested %q; discovery (%s, versions %v) yields no modern overlap and the server supports legacy %v, yet initialize was never sent: %v", spec.Requested, spec.Discover, set, legacy, err)
			} else {
				c.Violate("connect-failed/scripted", "requested %q against a server supporting %v (discover: %s, initialize: %s): a mutually supported version exists but Connect failed: %v", spec.Requested, set, spec.Discover, spec.Init, err)
			}
		}
		if nDisc > 2 {
			c.Violate("discover-loop", "%d server/discover requests in one Connect", nDisc)
		}
		time.Sleep(11 * time.Second)
		return
	}
	v := cs.InitializeResult().ProtocolVersion
	log.Add("connected", "version", v, "discovers", nDisc, "initializes", nInit)
	c.Count("script-connected", 1)
	if mustSucceed {
		c.Count("script-connected-required", 1)
	}
	c.Nontrivial(sig)
	c.Seen("negotiated", fmt.Sprintf("%s/%s/%v/%s->%s", spec.Requested, spec.Discover, spec.Set, spec.Init, v))
	switch {
	case !slices.Contains(c07SDK, v):
		c.Violate("negotiated-unknown-version", "requested %q: negotiated %q, which the SDK does not support (server: discover %s, set %v, initialize %s)", spec.Requested, v, spec.Discover, set, spec.Init)
	case v >= c07Modern && !(discoverWorks && slices.Contains(set, v)):
		c.Violate("negotiated-version-server-lacks", "requested %q: negotiated %q, which the server never offered (discover %s, set %v)", spec.Requested, v, spec.Discover, set)
	case v < c07Modern && nInit == 0:
		c.Violate("legacy-without-initialize", "requested %q: negotiated legacy %q without an initialize handshake", spec.Requested, v)
	case v < c07Modern && spec.Init == "std" && !slices.Contains(legacy, v):
		c.Violate("negotiated-version-server-lacks", "requested %q: negotiated %q, the server supports %v", spec.Requested, v, set)
	case mutual(requested) && v != requested:
		c.Violate("requested-version-not-honoured/scripted", "requested %q is mutually supported (server %v, discover %s) but %q was negotiated", spec.Requested, set, spec.Discover, v)
	case nDisc > 2:
		c.Violate("discover-loop", "%d server/discover requests in one Connect", nDisc)
	}
	if !c.Violated() {
		c07Use(c, ctx, cs, v)
		st.mu.Lock()
		for _, o := range st.others {
			m, mv, _ := strings.Cut(o, "@")
			if v >= c07Modern && mv != v {
				c.Violate("request-version-differs", "session negotiated %q but its %s request carries protocol version %q", v, m, mv)
			}
			if v < c07Modern && mv != "" {
				c.Violate("request-version-differs", "legacy session (%q) sends %s with per-request protocol version %q", v, m, mv)
			}
		}
		st.mu.Unlock()
	}
	cs.Close()
	time.Sleep(11 * time.Second)
}

var _ = testing.Short

func c07Options(requested string) *mcp.ClientSessionOptions {
	switch requested {
	case "":
		return nil
	case c07EmptyOptions:
		return &mcp.ClientSessionOptions{}
	}
	return &mcp.ClientSessionOptions{ProtocolVersion: requested}
}

// ---- real streamable client x scripted legacy HTTP endpoint that does not know server/discover

type c07HTTPServer struct {
	c        *vh.Case
	spec     c07Spec
	mu       sync.Mutex
	methods  []string
	nDisc    int
	versions []string
}

func (s *c07HTTPServer) resp(req *http.Request, status int, ctype, body string, hdr map[string]string) *http.Response {
	h := http.Header{}
	if ctype != "" {
		h.Set("Content-Type", ctype)
	}
	for k, v := range hdr {
		h.Set(k, v)
	}
	return &http.Response{Status: fmt.Sprintf("%d %s", status, http.StatusText(status)), StatusCode: status, Proto: "HTTP/1.1", ProtoMajor: 1, ProtoMinor: 1, Header: h,
		Body: io.NopCloser(strings.NewReader(body)), Request: req, ContentLength: int64(len(body))}
}

func (s *c07HTTPServer) RoundTrip(req *http.Request) (*http.Response, error) {
	if err := req.Context().Err(); err != nil {
		return nil, err
	}
	s.mu.Lock()
	defer s.mu.Unlock()
	switch req.Method {
	case "GET":
		return s.resp(req, 405, "text/plain", "no standalone stream", nil), nil
	case "DELETE":
		return s.resp(req, 204, "", "", nil), nil
	}
	body, _ := io.ReadAll(req.Body)
	var m struct {
		ID     json.RawMessage `json:"id"`
		Method string          `json:"method"`
		Params struct {
			ProtocolVersion string `json:"protocolVersion"`
		} `json:"params"`
	}
	json.Unmarshal(body, &m)
	s.methods = append(s.methods, m.Method)
	s.c.Log.Add("http-request", "method", m.Method, "version_header", req.Header.Get("Mcp-Protocol-Version"))
	switch m.Method {
	case "server/discover":
		s.nDisc++
		switch s.spec.Discover {
		case "404-plain":
			return s.resp(req, 404, "text/plain; charset=utf-8", "404 page not found\n", nil), nil
		case "404-empty":
			return s.resp(req, 404, "", "", nil), nil
		case "400-plain":
			return s.resp(req, 400, "text/plain", "Bad Request: unknown method", nil), nil
		case "405-plain":
			return s.resp(req, 405, "text/plain", "method not allowed", nil), nil
		case "200-html":
			return s.resp(req, 200, "text/html", "<html>welcome</html>", nil), nil // a gateway's landing page
		case "202-empty":
			return s.resp(req, 202, "", "", nil), nil // accepted, never answered
		case "501-plain":
			return s.resp(req, 501, "text/plain", "not implemented", nil), nil
		case "404-json":
			return s.resp(req, 404, "application/json", fmt.Sprintf(`{"jsonrpc":"2.0","id":%s,"error":{"code":-32601,"message":"method not found"}}`, m.ID), nil), nil
		case "400-json":
			return s.resp(req, 400, "application/json", fmt.Sprintf(`{"jsonrpc":"2.0","id":%s,"error":{"code":-32601,"message":"method not found"}}`, m.ID), nil), nil
		case "401-plain-then-404":
			if s.nDisc == 1 {
				return s.resp(req, 404, "text/html", "<html>not here</html>", nil), nil
			}
			return s.resp(req, 404, "text/plain", "not found", nil), nil
		default: // 200-json-notfound
			return s.resp(req, 200, "application/json", fmt.Sprintf(`{"jsonrpc":"2.0","id":%s,"error":{"code":-32601,"message":"method not found"}}`, m.ID), nil), nil
		}
	case "initialize":
		s.versions = append(s.versions, m.Params.ProtocolVersion)
		v := m.Params.ProtocolVersion
		if !slices.Contains(c07SDK, v) || v >= c07Modern {
			v = "2025-11-25"
		}
		return s.resp(req, 200, "application/json", fmt.Sprintf(`{"jsonrpc":"2.0","id":%s,"result":%s}`, m.ID, vhm.InitializeResultJSON(v)), map[string]string{"Mcp-Session-Id": "legacy-1"}), nil
	case "tools/list":
		return s.resp(req, 200, "application/json", fmt.Sprintf(`{"jsonrpc":"2.0","id":%s,"result":{"tools":[{"name":"echo","inputSchema":{"type":"object"}}]}}`, m.ID), nil), nil
	case "tools/call":
		return s.resp(req, 200, "application/json", fmt.Sprintf(`{"jsonrpc":"2.0","id":%s,"result":{"content":[{"type":"text","text":"echo:hi"}]}}`, m.ID), nil), nil
	case "acme/search":
		return s.resp(req, 200, "application/json", fmt.Sprintf(`{"jsonrpc":"2.0","id":%s,"result":{"hits":["hit:q"]}}`, m.ID), nil), nil
	}
	if len(m.ID) == 0 {
		return s.resp(req, 202, "", "", nil), nil
	}
	return s.resp(req, 200, "application/json", fmt.Sprintf(`{"jsonrpc":"2.0","id":%s,"result":{}}`, m.ID), nil), nil
}

func runC07HTTP(c *vh.Case, spec c07Spec) {
	ctx := context.Background()
	srv := &c07HTTPServer{c: c, spec: spec}
	client := c07Client(spec.Handlers)
	cctx, cancel := context.WithTimeout(ctx, 60*time.Second)
	defer cancel()
	cs, err := client.Connect(cctx, &mcp.StreamableClientTransport{Endpoint: "http://example.test/mcp", HTTPClient: &http.Client{Transport: srv}}, c07Options(spec.Requested))
	srv.mu.Lock()
	methods := append([]string(nil), srv.methods...)
	srv.mu.Unlock()
	sig := fmt.Sprintf("http-script/%s/%s/%v", spec.Requested, spec.Discover, spec.Handlers)
	c.Nontrivial(sig)
	if err != nil {
		c.Log.Add("connect-failed", "err", err.Error())
		if !slices.Contains(methods, "initialize") {
			c.Violate("no-fallback-to-initialize", "requested %q; the legacy endpoint answered server/discover with %s; initialize was never sent (requests: %v): %v", spec.Requested, spec.Discover, methods, err)
		} else {
			c.Violate("connect-failed/http-script", "requested %q; legacy endpoint (discover answered %s) offers 2025-11-25 via initialize, but Connect failed (requests: %v): %v", spec.Requested, spec.Discover, methods, err)
		}
		time.Sleep(11 * time.Second)
		return
	}
	v := cs.InitializeResult().ProtocolVersion
	c.Log.Add("connected", "version", v)
	c.Seen("negotiated", fmt.Sprintf("http-script/%s/%s->%s", spec.Requested, spec.Discover, v))
	if v >= c07Modern || !slices.Contains(c07SDK, v) {
		c.Violate("negotiated-version-server-lacks", "requested %q against a legacy HTTP endpoint (discover: %s): negotiated %q", spec.Requested, spec.Discover, v)
	} else {
		c07Use(c, ctx, cs, v)
	}
	cs.Close()
	time.Sleep(11 * time.Second)
}

// ---- real SSE client x scripted legacy HTTP+SSE endpoint that does not know server/discover

type c07SSEServer struct {
	c       *vh.Case
	spec    c07Spec
	mu      sync.Mutex
	methods []string
	stream  *io.PipeWriter
}

func (s *c07SSEServer) push(data string) {
	s.mu.Lock()
	w := s.stream
	s.mu.Unlock()
	if w != nil {
		go w.Write([]byte("event: message\ndata: " + data + "\n\n"))
	}
}

func (s *c07SSEServer) RoundTrip(req *http.Request) (*http.Response, error) {
	if err := req.Context().Err(); err != nil {
		return nil, err
	}
	mk := func(status int, ctype, body string) *http.Response {
		h := http.Header{}
		if ctype != "" {
			h.Set("Content-Type", ctype)
		}
		return &http.Response{Status: fmt.Sprintf("%d %s", status, http.StatusText(status)), StatusCode: status, Proto: "HTTP/1.1", ProtoMajor: 1, ProtoMinor: 1, Header: h,
			Body: io.NopCloser(strings.NewReader(body)), Request: req, ContentLength: int64(len(body))}
	}
	if req.Method == "GET" {
		pr, pw := io.Pipe()
		s.mu.Lock()
		s.stream = pw
		s.mu.Unlock()
		context.AfterFunc(req.Context(), func() { pw.CloseWithError(req.Context().Err()) })
		go pw.Write([]byte("event: endpoint\ndata: /messages?sessionid=1\n\n"))
		return &http.Response{Status: "200 OK", StatusCode: 200, Proto: "HTTP/1.1", ProtoMajor: 1, ProtoMinor: 1, Header: http.Header{"Content-Type": {"text/event-stream"}}, Body: pr, Request: req, ContentLength: -1}, nil
	}
	body, _ := io.ReadAll(req.Body)
	var m struct {
		ID     json.RawMessage `json:"id"`
		Method string          `json:"method"`
		Params struct {
			ProtocolVersion string `json:"protocolVersion"`
		} `json:"params"`
	}
	json.Unmarshal(body, &m)
	s.mu.Lock()
	s.methods = append(s.methods, m.Method)
	s.mu.Unlock()
	s.c.Log.Add("sse-post", "method", m.Method)
	switch m.Method {
	case "server/discover":
		switch s.spec.Discover {
		case "400-plain":
			return mk(400, "text/plain", "Bad Request: unknown method"), nil
		case "404-plain":
			return mk(404, "text/plain", "404 page not found"), nil
		case "405-plain":
			return mk(405, "text/plain", "method not allowed"), nil
		case "500-plain":
			return mk(500, "text/plain", "internal error"), nil
		case "202-silence":
			return mk(202, "", ""), nil // accepted and never answered: the client's own probe timeout decides
		default:
			s.push(fmt.Sprintf(`{"jsonrpc":"2.0","id":%s,"error":{"code":-32601,"message":"method not found"}}`, m.ID))
			return mk(202, "", ""), nil
		}
	case "initialize":
		v := m.Params.ProtocolVersion
		if !slices.Contains(c07SDK, v) || v >= c07Modern {
			v = "2025-11-25"
		}
		s.push(fmt.Sprintf(`{"jsonrpc":"2.0","id":%s,"result":%s}`, m.ID, vhm.InitializeResultJSON(v)))
	case "tools/list":
		s.push(fmt.Sprintf(`{"jsonrpc":"2.0","id":%s,"result":{"tools":[{"name":"echo","inputSchema":{"type":"object"}}]}}`, m.ID))
	case "tools/call":
		s.push(fmt.Sprintf(`{"jsonrpc":"2.0","id":%s,"result":{"content":[{"type":"text","text":"echo:hi"}]}}`, m.ID))
	case "acme/search":
		s.push(fmt.Sprintf(`{"jsonrpc":"2.0","id":%s,"result":{"hits":["hit:q"]}}`, m.ID))
	default:
		if len(m.ID) > 0 {
			s.push(fmt.Sprintf(`{"jsonrpc":"2.0","id":%s,"result":{}}`, m.ID))
		}
	}
	return mk(202, "", ""), nil
}

func runC07SSE(c *vh.Case, spec c07Spec) {
	ctx := context.Background()
	srv := &c07SSEServer{c: c, spec: spec}
	client := c07Client(spec.Handlers)
	cctx, cancel := context.WithTimeout(ctx, 10*time.Minute)
	defer cancel()
	cs, err := client.Connect(cctx, &mcp.SSEClientTransport{Endpoint: "http://example.test/sse", HTTPClient: &http.Client{Transport: srv}}, c07Options(spec.Requested))
	srv.mu.Lock()
	methods := append([]string(nil), srv.methods...)
	srv.mu.Unlock()
	c.Nontrivial(fmt.Sprintf("sse-script/%s/%s/%v", spec.Requested, spec.Discover, spec.Handlers))
	if err != nil {
		c.Log.Add("connect-failed", "err", err.Error())
		if spec.Discover == "202-silence" {
			// a server that swallows the probe: whether and when the client gives the probe up is its own policy
			c.Seen("negotiated", fmt.Sprintf("sse-script/%s/%s->failed", spec.Requested, spec.Discover))
		} else if !slices.Contains(methods, "initialize") {
			c.Violate("no-fallback-to-initialize", "requested %q; the legacy SSE endpoint answered server/discover with %s; initialize was never sent (requests: %v): %v", spec.Requested, spec.Discover, methods, err)
		} else {
			c.Violate("connect-failed/sse-script", "requested %q; legacy SSE endpoint (discover answered %s) offers 2025-11-25 via initialize, but Connect failed (requests: %v): %v", spec.Requested, spec.Discover, methods, err)
		}
		srv.mu.Lock()
		if srv.stream != nil {
			srv.stream.Close()
		}
		srv.mu.Unlock()
		time.Sleep(11 * time.Second)
		return
	}
	v := cs.InitializeResult().ProtocolVersion
	c.Seen("negotiated", fmt.Sprintf("sse-script/%s/%s->%s", spec.Requested, spec.Discover, v))
	if v >= c07Modern || !slices.Contains(c07SDK, v) {
		c.Violate("negotiated-version-server-lacks", "requested %q against a legacy SSE endpoint (discover: %s): negotiated %q", spec.Requested, spec.Discover, v)
	} else {
		c07Use(c, ctx, cs, v)
	}
	cs.Close()
	srv.mu.Lock()
	if srv.stream != nil {
		srv.stream.Close()
	}
	srv.mu.Unlock()
	time.Sleep(11 * time.Second)
}
