//go:build verif

// C04, raw-caller mode: the calling side is a hand-written JSON-RPC peer (as a non-SDK client is), so request
// ids take every legal shape: small integers, integers beyond 2^53, digit-only strings next to the equal
// number. The SDK server parks every call in a handler that records the cancellation of its context; the
// peer cancels a subset with notifications/cancelled, optionally after re-sending one in-flight id (which
// the server refuses). Exactly the handlers of the cancelled requests may observe cancellation, at the
// instant of the notice.
package mcpx

import (
	"bufio"
	"context"
	"encoding/json"
	"fmt"
	"io"
	"strings"
	"sync"
	"time"

	"github.com/modelcontextprotocol/go-sdk/internal/verifharness/vh"
	"github.com/modelcontextprotocol/go-sdk/mcp"
)

type c04RawCall struct {
	N        int    `json:"n"`
	ID       string `json:"id"`        // raw JSON of the request id
	CancelAt int    `json:"cancel_ms"` // -1: never cancelled
}

type c04RawSpec struct {
	Mode  string       `json:"mode"`
	Calls []c04RawCall `json:"calls"`
	DupOf int          `json:"dup_of"` // > 0: at 1 ms the id of this call is sent again with another request (refused: the id is in flight)
	// Stray: requestIds of cancellation notices (sent at 1 ms) that name no request in flight but LOOK like one that
	// is: the number as a string, the digit string as a number, the number with a fraction. They cancel nothing.
	Stray []string `json:"stray,omitempty"`
}

// groups of ids that a lossy conversion would confuse
var c04IDGroups = [][]string{
	{`7`, `"7"`},
	{`9007199254740992`, `9007199254740993`},
	{`-9007199254740993`, `-9007199254740992`},
	{`"9007199254740993"`, `9007199254740993`},
	{`0`, `"0"`, `""`},
	{`12`, `"12"`, `"012"`},
	{`9223372036854775807`, `9223372036854775806`},
	{`1`, `2`, `3`},
	{`"a"`, `"A"`},
}

func genC04Raw(r *vh.Rand) c04RawSpec {
	s := c04RawSpec{Mode: "raw"}
	used := map[string]bool{}
	n := 0
	for g := 0; g < r.Range(1, 3); g++ {
		grp := c04IDGroups[r.Intn(len(c04IDGroups))]
		for _, id := range grp {
			if used[id] {
				continue
			}
			used[id] = true
			n++
			call := c04RawCall{N: n, ID: id, CancelAt: -1}
			if r.Chance(2, 5) {
				call.CancelAt = r.Range(2, 9)
			}
			s.Calls = append(s.Calls, call)
		}
	}
	if r.Chance(1, 3) {
		s.DupOf = s.Calls[r.Intn(len(s.Calls))].N
	}
	if r.Bool() {
		for _, call := range s.Calls {
			var alikes []string
			if strings.HasPrefix(call.ID, `"`) {
				if inner := strings.Trim(call.ID, `"`); inner != "" && strings.Trim(inner, "0123456789") == "" && (inner == "0" || inner[0] != '0') {
					alikes = append(alikes, inner)
				}
			} else {
				alikes = append(alikes, `"`+call.ID+`"`, call.ID+".5")
			}
			for _, a := range alikes {
				if !used[a] && r.Bool() {
					used[a] = true
					s.Stray = append(s.Stray, a)
				}
			}
		}
	}
	return s
}

func runC04Raw(c *vh.Case, spec c04RawSpec) {
	log := c.Log
	ctx := context.Background()
	server := mcp.NewServer(&mcp.Implementation{Name: "s", Version: "1"}, nil)
	server.AddTool(&mcp.Tool{Name: "park", InputSchema: json.RawMessage(`{"type":"object"}`)}, func(ctx context.Context, req *mcp.CallToolRequest) (*mcp.CallToolResult, error) {
		var a struct{ Nonce int }
		json.Unmarshal(req.Params.Arguments, &a)
		log.Add("handler-start", "n", a.Nonce)
		<-ctx.Done()
		log.Add("handler-ctx-done", "n", a.Nonce, "cause", fmt.Sprint(context.Cause(ctx)))
		return &mcp.CallToolResult{Content: []mcp.Content{&mcp.TextContent{Text: fmt.Sprintf("nonce-%d", a.Nonce)}}}, nil
	})
	cr, sw := io.Pipe()
	sr, cw := io.Pipe()
	ss, err := server.Connect(ctx, &mcp.IOTransport{Reader: sr, Writer: sw}, nil)
	if err != nil {
		c.Inconclusive("connect: %v", err)
		return
	}
	readerDone := make(chan struct{})
	go func() {
		defer close(readerDone)
		sc := bufio.NewScanner(cr)
		sc.Buffer(make([]byte, 1<<20), 1<<20)
		for sc.Scan() {
		}
	}()
	var wmu sync.Mutex
	send := func(s string) {
		wmu.Lock()
		defer wmu.Unlock()
		cw.Write([]byte(s + "\n"))
	}
	send(`{"jsonrpc":"2.0","id":"init","method":"initialize","params":{"protocolVersion":"2025-06-18","capabilities":{},"clientInfo":{"name":"raw","version":"0"}}}`)
	send(`{"jsonrpc":"2.0","method":"notifications/initialized"}`)
	synctestWait()
	for _, call := range spec.Calls {
		send(fmt.Sprintf(`{"jsonrpc":"2.0","id":%s,"method":"tools/call","params":{"name":"park","arguments":{"nonce":%d}}}`, call.ID, call.N))
	}
	synctestWait()
	log.Add("all-in-flight")
	var wg sync.WaitGroup
	if spec.DupOf > 0 {
		wg.Add(1)
		go func() {
			defer wg.Done()
			time.Sleep(ms(1))
			for _, call := range spec.Calls {
				if call.N == spec.DupOf {
					log.Add("dup-sent", "n", call.N)
					send(fmt.Sprintf(`{"jsonrpc":"2.0","id":%s,"method":"tools/call","params":{"name":"park","arguments":{"nonce":%d}}}`, call.ID, 8000+call.N))
				}
			}
		}()
	}
	if len(spec.Stray) > 0 {
		wg.Add(1)
		go func() {
			defer wg.Done()
			time.Sleep(ms(1))
			for _, id := range spec.Stray {
				log.Add("stray-cancel", "id", id)
				send(fmt.Sprintf(`{"jsonrpc":"2.0","method":"notifications/cancelled","params":{"requestId":%s,"reason":"not yours"}}`, id))
			}
		}()
		c.Count("stray_cancellation_notices", len(spec.Stray))
	}
	for _, call := range spec.Calls {
		if call.CancelAt < 0 {
			continue
		}
		call := call
		wg.Add(1)
		go func() {
			defer wg.Done()
			time.Sleep(ms(call.CancelAt))
			log.Add("cancel", "n", call.N)
			send(fmt.Sprintf(`{"jsonrpc":"2.0","method":"notifications/cancelled","params":{"requestId":%s,"reason":"gave up"}}`, call.ID))
		}()
	}
	wg.Wait()
	time.Sleep(ms(20))
	log.Add("closing")
	cw.Close()
	ss.Wait()
	sw.Close()
	<-readerDone
	time.Sleep(11 * time.Second)
}

func decideC04Raw(c *vh.Case, spec c04RawSpec) {
	if c.Violated() {
		return
	}
	hstart, hdone := map[int]vh.Event{}, map[int]vh.Event{}
	cancelT := map[int]int64{}
	var closing int64 = 1 << 60
	for _, e := range c.Log.Events() {
		n := fint(e, "n")
		switch e.Kind {
		case "handler-start":
			hstart[n] = e
		case "handler-ctx-done":
			if _, ok := hdone[n]; !ok {
				hdone[n] = e
			}
		case "cancel":
			cancelT[n] = e.T
		case "closing":
			closing = e.T
		}
	}
	cancelled, spared := 0, 0
	for _, call := range spec.Calls {
		if _, ok := hstart[call.N]; !ok {
			c.Violate("call-not-dispatched", "request %d (id %s) never reached its handler", call.N, call.ID)
			return
		}
		hd, done := hdone[call.N]
		if ct, ok := cancelT[call.N]; ok {
			cancelled++
			if !done || hd.T != ct {
				c.Violate("handler-not-cancelled", "request %d (id %s) was cancelled by the peer at %dus; its handler observed cancellation: %v (at %dus); ids in flight: %s", call.N, call.ID, ct, done, hd.T, vh.JSON(spec.Calls))
				return
			}
			continue
		}
		spared++
		if done && hd.T < closing {
			c.Violate("wrong-handler-cancelled", "request %d (id %s) was never cancelled, yet its handler's context was cancelled at %dus (cause %s); ids in flight: %s", call.N, call.ID, hd.T, fstr(hd, "cause"), vh.JSON(spec.Calls))
			return
		}
	}
	if hs, ok := hstart[8000+spec.DupOf]; ok && spec.DupOf > 0 {
		_ = hs // a refused duplicate may or may not be dispatched (C02's subject); it must not disturb the others
	}
	c.Count("raw_calls", len(spec.Calls))
	if cancelled >= 1 && spared >= 1 {
		c.Nontrivial("raw:" + vh.JSON(spec))
	}
}
