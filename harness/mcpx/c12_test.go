//go:build verif

// C12 — HTTP preconditions hold before dispatch; the SDK client always satisfies them.
//
// soundness: raw requests, each with at most one precondition violated, against
// the streamable (stateless 2026-07-28 / stateful legacy) and SSE handlers; a
// receiving middleware and the tool handler witness whether anything reached
// the MCP server. agreement: the SDK's own streamable client calls tools whose
// generated schemas put x-mcp-header on string/integer/boolean properties at
// depth <= 5, with schema-valid hostile argument values; every call must reach
// the handler with identical arguments.
package mcpx

import (
	"bytes"
	"context"
	"encoding/base64"
	"encoding/json"
	"fmt"
	"net"
	"net/http"
	"strings"
	"sync"
	"sync/atomic"
	"testing"
	"time"

	"github.com/modelcontextprotocol/go-sdk/internal/verifharness/vh"
	"github.com/modelcontextprotocol/go-sdk/internal/verifharness/vhm"
	"github.com/modelcontextprotocol/go-sdk/jsonrpc"
	"github.com/modelcontextprotocol/go-sdk/mcp"
	"golang.org/x/oauth2"
)

func TestVerifC12(t *testing.T) {
	cfg := vh.Config{
		Property: "C12",
		Cases:    vh.Pick(4000, 150000),
		Rule: "case i mod 3 == 0: agreement - a generated tool schema (1..6 annotated string/integer/boolean properties at depth 1..5, plus unannotated ones) and 1..4 SDK-client calls with schema-valid arguments drawn from {\"\", ASCII, non-ASCII, blank-padded, control characters, base64-sentinel look-alikes, true/false, integers up to +-(2^53-1)}, present or absent; " +
			"otherwise soundness - one raw request with exactly one (or no) violated precondition out of {Host vs loopback listener, Content-Type, Accept, body size, protocol version header, header/_meta version mismatch, Mcp-Method, Mcp-Name, Mcp-Param-* absent/different/bad base64/unexpected} against the stateless 2026-07-28 endpoint, the stateful legacy endpoint or the SSE handler. " +
			"non-trivial: an agreement case with >=1 annotated argument present, or a soundness case with a violation. distinct = distinct generated requests / (schema, arguments)",
		MinNontrivial: 200,
		Assumptions:   []string{"the client has listed the tools before calling them (it learns the annotations there)", "integers within +-(2^53-1)", "soundness requests violate at most one precondition, so no order among checks is assumed"},
	}
	vh.Run(t, cfg, func(c *vh.Case) {
		if c.Index%3 == 0 {
			c.Bubble("", func() { c12Agreement(c) })
		} else {
			c.Bubble("", func() { c12Soundness(c) })
		}
	})
}

// --------------------------------------------------------------- agreement

var c12Strings = []string{"", "plain", "with space", " lead", "trail ", "\ttab", "héllo", "日本語", "a\nb", "\x01ctl", "=?base64?aGk=?=", "=?base64?", "?=", "true", "17", "null", "a,b;c=d", "  ", " ", "del\x7f", "\x7f", "a\rb", "nul\x00", "\u0080", "tilde~", "~\x7f"}

type c12Prop struct {
	Path   []string `json:"path"`
	Type   string   `json:"type"`
	Header string   `json:"header,omitempty"`
}

func c12Agreement(c *vh.Case) {
	r := c.R
	ctx := context.Background()
	// schema
	var props []c12Prop
	nAnn := r.Range(1, 6)
	depthPath := func(d int, leaf string) []string {
		p := []string{}
		for i := 1; i < d; i++ {
			p = append(p, fmt.Sprintf("lvl%d", i))
		}
		return append(p, leaf)
	}
	shared := r.Range(1, 5) // depth at which several annotated siblings live
	for i := 0; i < nAnn; i++ {
		d := shared
		if r.Chance(1, 3) {
			d = r.Range(1, 5)
		}
		props = append(props, c12Prop{Path: depthPath(d, fmt.Sprintf("p%d", i)), Type: r.Choose("string", "string", "integer", "boolean"), Header: fmt.Sprintf("%s%d", r.Choose("X-Arg", "arg", "Region", "z"), i)})
	}
	for i := 0; i < r.Intn(3); i++ {
		props = append(props, c12Prop{Path: depthPath(r.Range(1, 3), fmt.Sprintf("u%d", i)), Type: r.Choose("string", "integer", "boolean")})
	}
	schema := map[string]any{"type": "object", "properties": map[string]any{}}
	for _, p := range props {
		cur := schema
		for i, part := range p.Path {
			ps := cur["properties"].(map[string]any)
			if i == len(p.Path)-1 {
				leaf := map[string]any{"type": p.Type}
				if p.Header != "" {
					leaf["x-mcp-header"] = p.Header
				}
				ps[part] = leaf
			} else {
				nx, ok := ps[part].(map[string]any)
				if !ok {
					nx = map[string]any{"type": "object", "properties": map[string]any{}}
					ps[part] = nx
				}
				cur = nx
			}
		}
	}
	var got atomic.Value
	var calls atomic.Int64
	// 1/3: the server pages its tool list and the annotated tool is not on the first page
	var sopts *mcp.ServerOptions
	fillers := 0
	if r.Chance(1, 3) {
		sopts = &mcp.ServerOptions{PageSize: r.Range(1, 3)}
		fillers = r.Range(3, 7)
	}
	server := mcp.NewServer(&mcp.Implementation{Name: "s", Version: "1"}, sopts)
	for i := 0; i < fillers; i++ {
		server.AddTool(&mcp.Tool{Name: fmt.Sprintf("filler%d", i), InputSchema: json.RawMessage(`{"type":"object"}`)}, func(context.Context, *mcp.CallToolRequest) (*mcp.CallToolResult, error) {
			return &mcp.CallToolResult{}, nil
		})
	}
	server.AddTool(&mcp.Tool{Name: "t", InputSchema: schema}, func(ctx context.Context, req *mcp.CallToolRequest) (*mcp.CallToolResult, error) {
		calls.Add(1)
		got.Store(string(req.Params.Arguments))
		return &mcp.CallToolResult{Content: []mcp.Content{&mcp.TextContent{Text: "ok"}}}, nil
	})
	// tools/list can be made slow, so that a call can be issued while a list is in flight
	var listDelayMs atomic.Int64
	server.AddReceivingMiddleware(func(next mcp.MethodHandler) mcp.MethodHandler {
		return func(ctx context.Context, method string, req mcp.Request) (mcp.Result, error) {
			if d := listDelayMs.Load(); d > 0 && method == "tools/list" {
				time.Sleep(time.Duration(d) * time.Millisecond)
			}
			return next(ctx, method, req)
		}
	})
	var h http.Handler = mcp.NewStreamableHTTPHandler(func(*http.Request) *mcp.Server { return server }, &mcp.StreamableHTTPOptions{Stateless: true})
	// 1/3: the endpoint sits behind bearer authorization whose token rotates now and then, so
	// some requests are answered 401 first and re-sent by the client after re-authorizing
	var oh *rotatingAuth
	if r.Chance(1, 3) {
		oh = &rotatingAuth{every: r.Range(2, 4)}
		inner := h
		h = http.HandlerFunc(func(w http.ResponseWriter, req *http.Request) {
			if !oh.admit(req.Header.Get("Authorization")) {
				w.Header().Set("WWW-Authenticate", "Bearer")
				http.Error(w, "token expired", http.StatusUnauthorized)
				return
			}
			inner.ServeHTTP(w, req)
		})
	}
	ip := &vhm.InProc{Handler: h, LocalAddr: &net.TCPAddr{IP: net.IPv4(127, 0, 0, 1), Port: 8080}}
	// 1/2: the client listens for tool-list changes (on 2026-07-28 that opens a subscriptions/listen stream)
	var copts *mcp.ClientOptions
	listens := oh == nil && r.Bool()
	if listens {
		copts = &mcp.ClientOptions{ToolListChangedHandler: func(context.Context, *mcp.ToolListChangedRequest) {}}
	}
	client := mcp.NewClient(&mcp.Implementation{Name: "c", Version: "1"}, copts)
	ct := &mcp.StreamableClientTransport{Endpoint: "http://localhost:8080/mcp", HTTPClient: ip.Client()}
	if oh != nil {
		ct.OAuthHandler = oh
	}
	cs, err := client.Connect(ctx, ct, nil)
	if err != nil {
		c.Inconclusive("connect: %v", err)
		return
	}
	defer func() { cs.Close(); ip.Wait(); time.Sleep(11 * time.Second) }()
	if v := cs.InitializeResult().ProtocolVersion; v != "2026-07-28" {
		// both sides support 2026-07-28 on this stateless endpoint: ending up elsewhere means the client's
		// own server/discover request was refused
		c.Violate("client-server-disagree", "client and stateless server both support 2026-07-28 but negotiated %s: the client's server/discover request was not accepted (oauth rotation: %v)", v, oh != nil)
		return
	}
	if fillers > 0 {
		seen := false
		for tool, err := range cs.Tools(ctx, nil) {
			if err != nil {
				c.Inconclusive("Tools: %v", err)
				return
			}
			seen = seen || tool.Name == "t"
		}
		if !seen {
			c.Inconclusive("tool t not listed")
			return
		}
		c.Count("agreement_paged", 1)
	} else if _, err := cs.ListTools(ctx, nil); err != nil {
		c.Inconclusive("ListTools: %v", err)
		return
	}
	nontrivial := false
	var specCalls []any
	for k, n := 0, r.Range(1, 4); k < n; k++ {
		args := map[string]any{}
		for _, p := range props {
			if r.Chance(1, 4) {
				continue // absent
			}
			var v any
			switch p.Type {
			case "string":
				v = c12Strings[r.Intn(len(c12Strings))]
			case "integer":
				v = []int64{0, 1, -1, 42, 1<<53 - 1, -(1<<53 - 1), 1 << 31, -(1 << 40)}[r.Intn(8)]
			default:
				v = r.Bool()
			}
			cur := args
			for i, part := range p.Path {
				if i == len(p.Path)-1 {
					cur[part] = v
				} else {
					nx, ok := cur[part].(map[string]any)
					if !ok {
						nx = map[string]any{}
						cur[part] = nx
					}
					cur = nx
				}
			}
			if p.Header != "" {
				nontrivial = true
			}
		}
		// what happened since the client listed the tools: nothing; the list is being fetched again right now; the
		// server's tool set changed (and said so); or both at once. None of this makes the call any less legitimate.
		disturb := "none"
		if oh == nil {
			disturb = r.Choose("none", "none", "relist-in-flight", "list-changed", "relist-during-change")
			if !listens && disturb != "none" {
				disturb = "relist-in-flight"
			}
		}
		var bg sync.WaitGroup
		extra := func() {
			server.AddTool(&mcp.Tool{Name: fmt.Sprintf("extra%d-%d", c.Index, k), InputSchema: json.RawMessage(`{"type":"object"}`)}, func(context.Context, *mcp.CallToolRequest) (*mcp.CallToolResult, error) {
				return &mcp.CallToolResult{}, nil
			})
		}
		relist := func() {
			listDelayMs.Store(30)
			bg.Add(1)
			go func() {
				defer bg.Done()
				for _, err := range cs.Tools(ctx, nil) {
					if err != nil {
						break
					}
				}
			}()
			time.Sleep(time.Millisecond)
		}
		switch disturb {
		case "relist-in-flight":
			relist()
		case "list-changed":
			extra()
			time.Sleep(50 * time.Millisecond) // past the debounce: the notification has been handled
		case "relist-during-change":
			relist()
			extra()
			time.Sleep(20 * time.Millisecond) // notification handled while the list is still in flight
		}
		c.Seen("agreement_disturbances", disturb)
		specCalls = append(specCalls, map[string]any{"disturbance": disturb})
		specCalls = append(specCalls, args)
		before := calls.Load()
		res, err := cs.CallTool(ctx, &mcp.CallToolParams{Name: "t", Arguments: args})
		listDelayMs.Store(0)
		bg.Wait()
		sent, _ := json.Marshal(args)
		if err != nil {
			key := "client-server-disagree"
			c.Violate(key, "legitimate call with arguments %s (schema %s) was rejected: %v", sent, vh.JSON(schema), err)
			break
		}
		if res.IsError || calls.Load() != before+1 {
			c.Violate("client-server-disagree", "call with arguments %s: handler ran %d time(s), result %s", sent, calls.Load()-before, vh.JSON(res))
			break
		}
		if g, _ := got.Load().(string); !jsonEqual([]byte(g), sent) {
			c.Violate("arguments-altered", "handler received %s, client sent %s", g, sent)
			break
		}
	}
	c.SetSpec(map[string]any{"gen": "agreement", "props": props, "calls": specCalls, "fillers": fillers})
	c.Count("agreement_calls", len(specCalls))
	if nontrivial {
		c.Nontrivial("agree:" + vh.JSON(props) + vh.JSON(specCalls))
	}
}

// --------------------------------------------------------------- soundness

type c12Req struct {
	Endpoint  string            `json:"endpoint"`  // stateless | stateful | sse
	Violation string            `json:"violation"` // "" = none
	Listener  string            `json:"listener"`
	Host      string            `json:"host"`
	Headers   map[string]string `json:"headers"`
	Body      string            `json:"body"`
	Want      []int             `json:"want_status"`
	WantCode  int               `json:"want_code,omitempty"`
	JSONResp  bool              `json:"json_response,omitempty"`  // the handler is configured with JSONResponse
	Notif     bool              `json:"notification,omitempty"`   // stateless: the POST carries a notification, not a call
	Prelude   bool              `json:"prelude,omitempty"`        // the same handler first serves a request that arrived on a non-loopback address (a server listening on 0.0.0.0)
	NoSID     bool              `json:"no_session_ids,omitempty"` // stateful endpoint whose server suppresses session ids (GetSessionID returns ""): every request is served by an ephemeral session
	Wrapped   bool              `json:"wrapped,omitempty"`        // the violating message travels as the only element of a JSON array
	// DefaultLimit: the handler is built without a body limit of its own ("nil-options": nil *StreamableHTTPOptions;
	// "zero-limit": options that leave MaxRequestBodyBytes at 0) and the documented default of 4 MiB applies; the
	// oversize body is padded to 4 MiB + 100 bytes when it is sent (the replay keeps the short form)
	DefaultLimit string `json:"default_limit,omitempty"`
}

func b64h(s string) string { return "=?base64?" + base64.StdEncoding.EncodeToString([]byte(s)) + "?=" }

func genC12Req(r *vh.Rand) c12Req {
	q := c12Req{Endpoint: r.Choose("stateless", "stateless", "stateless", "stateful", "sse"), Listener: "127.0.0.1:8080", Host: r.Choose("localhost:8080", "127.0.0.1:8080", "[::1]:8080", "localhost")}
	if r.Chance(1, 4) {
		q.Listener = "10.1.2.3:8080" // not a loopback listener: any Host is fine
		q.Host = r.Choose("example.com", "localhost:8080", "evil.test:8080")
	}
	q.JSONResp = q.Endpoint != "sse" && r.Chance(1, 3)
	q.Prelude = q.Endpoint != "sse" && r.Chance(1, 4)
	meta := `"_meta":{"io.modelcontextprotocol/protocolVersion":"2026-07-28","io.modelcontextprotocol/clientCapabilities":{},"io.modelcontextprotocol/clientInfo":{"name":"raw","version":"1"}}`
	a := c12Strings[r.Intn(len(c12Strings))]
	n := []int64{0, 7, -3, 1<<53 - 1}[r.Intn(4)]
	b := r.Bool()
	deep := r.Choose("x", "dé", " pad ")
	ab, _ := json.Marshal(a)
	db, _ := json.Marshal(deep)
	enc := func(s string) string {
		need := false
		if len(s) > 0 && (s[0] == ' ' || s[0] == '\t' || s[len(s)-1] == ' ' || s[len(s)-1] == '\t') {
			need = true
		}
		for _, ch := range s {
			if ch < 0x20 || ch > 0x7e {
				need = true
			}
		}
		if strings.HasPrefix(s, "=?base64?") && strings.HasSuffix(s, "?=") {
			need = true
		}
		if need {
			return b64h(s)
		}
		return s
	}
	q.Headers = map[string]string{"Content-Type": r.Choose("application/json", "application/json; charset=utf-8", "APPLICATION/JSON"),
		"Accept": r.Choose("application/json, text/event-stream", "text/event-stream, application/json;q=0.9", "*/*", "application/*, text/*")}
	switch q.Endpoint {
	case "stateless":
		// o1..o4 are optional annotated properties that this request omits : no header for them
		o3 := ""
		q.Body = fmt.Sprintf(`{"jsonrpc":"2.0","id":1,"method":"tools/call","params":{%s,"name":"h","arguments":{%s"a":%s,"n":%d,"b":%v,"nested":{"deep":%s}}}}`, meta, o3, ab, n, b, db)
		q.Headers["Mcp-Protocol-Version"] = "2026-07-28"
		q.Headers["Mcp-Method"] = "tools/call"
		q.Headers["Mcp-Name"] = "h"
		q.Headers["Mcp-Param-A"] = enc(a)
		if r.Chance(1, 5) {
			q.Headers["Mcp-Param-A"] = b64h(a) // base64 form of a value that does not need it is still the same value
		}
		q.Headers["Mcp-Param-N"] = fmt.Sprint(n)
		q.Headers["Mcp-Param-B"] = fmt.Sprint(b)
		q.Headers["Mcp-Param-Deep"] = enc(deep)
		if r.Chance(1, 5) {
			// a POST that carries only a notification is subject to the same header rules
			q.Notif = true
			q.Body = fmt.Sprintf(`{"jsonrpc":"2.0","method":"notifications/progress","params":{%s,"progressToken":"t","progress":1}}`, meta)
			q.Headers["Mcp-Method"] = "notifications/progress"
			for _, h := range []string{"Mcp-Name", "Mcp-Param-A", "Mcp-Param-N", "Mcp-Param-B", "Mcp-Param-Deep"} {
				delete(q.Headers, h)
			}
		}
	case "stateful":
		q.Body = `{"jsonrpc":"2.0","id":1,"method":"initialize","params":{"protocolVersion":"2025-06-18","capabilities":{},"clientInfo":{"name":"raw","version":"1"}}}`
		if r.Bool() {
			q.Headers["Mcp-Protocol-Version"] = r.Choose("2025-06-18", "2025-03-26", "2024-11-05", "2025-11-25")
		}
	case "sse":
		q.Body = `{"jsonrpc":"2.0","id":1,"method":"ping"}`
	}
	q.Want = []int{200}
	if q.Endpoint == "sse" || q.Notif {
		q.Want = []int{202}
	}
	if r.Chance(1, 4) {
		return q // fully valid request
	}
	viol := []string{"host", "content-type", "accept", "size", "version-old"}
	if q.Endpoint == "stateless" {
		viol = append(viol, "version-future", "version-mismatch", "version-header-missing", "method-missing", "method-mismatch", "name-missing", "name-mismatch",
			"param-missing", "param-mismatch", "param-bad-base64", "param-unexpected", "param-int-mismatch", "param-bool-mismatch", "param-deep-mismatch")
	}
	if q.Endpoint == "sse" {
		viol = []string{"host", "content-type"}
	}
	if q.Notif {
		viol = []string{"host", "content-type", "size", "version-old", "version-mismatch", "version-header-missing", "method-missing", "method-mismatch", "method-mismatch"}
	}
	q.Violation = viol[r.Intn(len(viol))]
	switch q.Violation {
	case "host":
		q.Listener, q.Host = r.Choose("127.0.0.1:8080", "[::1]:8080"), r.Choose("evil.test", "evil.test:8080", "127.0.0.1.evil.test", "localhost.evil.test:8080", "10.0.0.1", "0.0.0.0:8080", "0.0.0.0", "[::]:8080", "[::ffff:10.0.0.1]:8080")
		q.Want = []int{403}
	case "content-type":
		q.Headers["Content-Type"] = r.Choose("", "text/plain", "application/jsonx", "application/x-www-form-urlencoded", "json")
		q.Want = []int{415}
	case "accept":
		q.Headers["Accept"] = r.Choose("", "application/json", "text/event-stream", "text/html", "application/xml, text/plain")
		q.Want = []int{400}
	case "size":
		q.Body = q.Body[:len(q.Body)-1] + strings.Repeat(" ", 5000) + "}"
		q.Want = []int{413}
		if q.Endpoint != "sse" && r.Chance(1, 4) {
			q.DefaultLimit = "zero-limit"
			if q.Endpoint == "stateful" && !q.JSONResp && r.Bool() {
				q.DefaultLimit = "nil-options"
			}
		}
		if r.Bool() {
			q.Headers["Transfer-Encoding"] = "chunked" // a body whose length is not announced must be limited too
		}
	case "version-old":
		q.Headers["Mcp-Protocol-Version"] = r.Choose("1999-01-01", "2025-06-17", "garbage")
		q.Want = []int{400}
	case "version-future":
		// header and body agree on a version after 2026-07-28 that the server does not support
		v := r.Choose("2026-07-29", "2099-12-31", "2027-01-01")
		q.Headers["Mcp-Protocol-Version"] = v
		q.Body = strings.Replace(q.Body, `"io.modelcontextprotocol/protocolVersion":"2026-07-28"`, `"io.modelcontextprotocol/protocolVersion":"`+v+`"`, 1)
		q.Want = []int{400}
	case "version-mismatch":
		q.Headers["Mcp-Protocol-Version"] = "2099-01-01"
		q.Want, q.WantCode = []int{400}, -32020
	case "version-header-missing":
		delete(q.Headers, "Mcp-Protocol-Version")
		q.Want, q.WantCode = []int{400}, -32020
	case "method-missing":
		delete(q.Headers, "Mcp-Method")
		q.Want, q.WantCode = []int{400}, -32020
	case "method-mismatch":
		q.Headers["Mcp-Method"] = r.Choose("tools/list", "TOOLS/CALL", "tools/call ")
		if q.Notif {
			q.Headers["Mcp-Method"] = r.Choose("notifications/cancelled", "Notifications/Progress", "tools/call")
		}
		q.Want, q.WantCode = []int{400}, -32020
	case "name-missing":
		delete(q.Headers, "Mcp-Name")
		q.Want, q.WantCode = []int{400}, -32020
	case "name-mismatch":
		q.Headers["Mcp-Name"] = r.Choose("other", "H", "h2")
		q.Want, q.WantCode = []int{400}, -32020
	case "param-missing":
		delete(q.Headers, r.Choose("Mcp-Param-N", "Mcp-Param-B", "Mcp-Param-Deep"))
		q.Want, q.WantCode = []int{400}, -32020
	case "param-mismatch":
		q.Headers["Mcp-Param-A"] = enc(a + "x")
		q.Want, q.WantCode = []int{400}, -32020
	case "param-bad-base64":
		q.Headers["Mcp-Param-A"] = "=?base64?!!!not-base64!!!?="
		q.Want, q.WantCode = []int{400}, -32020
	case "param-unexpected":
		q.Body = strings.Replace(q.Body, fmt.Sprintf(`"n":%d,`, n), "", 1) // argument absent, header still sent
		q.Want, q.WantCode = []int{400}, -32020
	case "param-int-mismatch":
		q.Headers["Mcp-Param-N"] = r.Choose(fmt.Sprint(n+1), "x", fmt.Sprintf("%d.5", n), "")
		q.Want, q.WantCode = []int{400}, -32020
	case "param-bool-mismatch":
		q.Headers["Mcp-Param-B"] = r.Choose(fmt.Sprint(!b), "TRUE", "1", "yes")
		q.Want, q.WantCode = []int{400}, -32020
	case "param-deep-mismatch":
		q.Headers["Mcp-Param-Deep"] = enc(deep + "!")
		q.Want, q.WantCode = []int{400}, -32020
	}
	if q.Endpoint == "stateful" && r.Chance(1, 3) {
		q.NoSID = true
	}
	if q.WantCode == -32020 && r.Chance(1, 4) {
		// the same violating message as the only element of a JSON array: whatever the server makes of arrays,
		// the header mismatch must not get past it (any 4xx, nothing dispatched)
		q.Body, q.Wrapped = "["+q.Body+"]", true
		q.Want, q.WantCode = []int{400, 404, 405, 409, 413, 415, 422}, 0
	}
	return q
}

func c12Soundness(c *vh.Case) {
	r := c.R
	ctx := context.Background()
	q := genC12Req(r)
	c.SetSpec(q)
	var reached atomic.Int64
	var rmu sync.Mutex
	var methods []string
	var sopts *mcp.ServerOptions
	if q.NoSID {
		sopts = &mcp.ServerOptions{GetSessionID: func() string { return "" }}
	}
	server := mcp.NewServer(&mcp.Implementation{Name: "s", Version: "1"}, sopts)
	schema := json.RawMessage(`{"type":"object","properties":{"a":{"type":"string","x-mcp-header":"A"},"n":{"type":"integer","x-mcp-header":"N"},"b":{"type":"boolean","x-mcp-header":"B"},"nested":{"type":"object","properties":{"deep":{"type":"string","x-mcp-header":"Deep"}}},"o1":{"type":"string","x-mcp-header":"O1"},"o2":{"type":"integer","x-mcp-header":"O2"},"o3":{"type":"string","x-mcp-header":"O3"},"o4":{"type":"boolean","x-mcp-header":"O4"}}}`)
	server.AddTool(&mcp.Tool{Name: "h", InputSchema: schema}, func(ctx context.Context, req *mcp.CallToolRequest) (*mcp.CallToolResult, error) {
		return &mcp.CallToolResult{Content: []mcp.Content{&mcp.TextContent{Text: "ok"}}}, nil
	})
	server.AddReceivingMiddleware(func(next mcp.MethodHandler) mcp.MethodHandler {
		return func(ctx context.Context, method string, req mcp.Request) (mcp.Result, error) {
			reached.Add(1)
			rmu.Lock()
			methods = append(methods, method)
			rmu.Unlock()
			return next(ctx, method, req)
		}
	})
	host, portS, _ := net.SplitHostPort(q.Listener)
	port := 0
	fmt.Sscan(portS, &port)
	la := &net.TCPAddr{IP: net.ParseIP(strings.Trim(host, "[]")), Port: port}
	var h http.Handler
	limit, sendBody := int64(4096), q.Body
	if q.DefaultLimit != "" {
		limit = 0
		sendBody = q.Body[:len(q.Body)-1] + strings.Repeat(" ", mcp.DefaultMaxRequestBodyBytes+100-len(q.Body)) + "}"
		c.Seen("default_body_limit", q.DefaultLimit+"/"+q.Endpoint)
	}
	url := "http://" + q.Host + "/mcp"
	var ssePostURL string
	var sseCancel context.CancelFunc
	switch q.Endpoint {
	case "stateless":
		h = mcp.NewStreamableHTTPHandler(func(*http.Request) *mcp.Server { return server }, &mcp.StreamableHTTPOptions{Stateless: true, MaxRequestBodyBytes: limit, JSONResponse: q.JSONResp})
	case "stateful":
		if q.DefaultLimit == "nil-options" {
			h = mcp.NewStreamableHTTPHandler(func(*http.Request) *mcp.Server { return server }, nil)
		} else {
			h = mcp.NewStreamableHTTPHandler(func(*http.Request) *mcp.Server { return server }, &mcp.StreamableHTTPOptions{MaxRequestBodyBytes: limit, JSONResponse: q.JSONResp})
		}
	case "sse":
		h = mcp.NewSSEHandler(func(*http.Request) *mcp.Server { return server }, nil)
	}
	ip := &vhm.InProc{Handler: h, LocalAddr: la}
	if q.Endpoint == "sse" {
		// a legitimate GET from a loopback host establishes the session whose POST endpoint is attacked
		gctx, cancel := context.WithCancel(ctx)
		sseCancel = cancel
		greq, _ := http.NewRequestWithContext(gctx, "GET", "http://localhost:8080/sse", nil)
		gresp, err := ip.RoundTrip(greq)
		if err != nil || gresp.StatusCode != 200 {
			c.Inconclusive("sse GET failed")
			cancel()
			return
		}
		ep := make(chan string, 1)
		go func() {
			vhm.ReadSSE(gresp.Body, func(e vhm.SSEvent) {
				if e.Name == "endpoint" {
					select {
					case ep <- e.Data:
					default:
					}
				}
			})
			gresp.Body.Close()
		}()
		ssePostURL = "http://" + q.Host + <-ep
		url = ssePostURL
		delete(q.Headers, "Accept")
		synctestWait()
		reached.Store(0)
	}
	if q.Prelude {
		// whether a connection is a loopback one is a property of that connection, not of the handler
		ip2 := &vhm.InProc{Handler: h, LocalAddr: &net.TCPAddr{IP: net.IPv4(10, 1, 2, 3), Port: 8080}}
		ip2.Do(ctx, "POST", "http://example.com/mcp", map[string]string{"Host": "example.com", "Content-Type": "application/json", "Accept": "application/json, text/event-stream"}, []byte(`{"jsonrpc":"2.0","id":99,"method":"ping"}`))
		ip2.Wait()
		synctestWait()
		reached.Store(0)
		rmu.Lock()
		methods = nil
		rmu.Unlock()
	}
	hdr := map[string]string{}
	for k, v := range q.Headers {
		hdr[k] = v
	}
	hdr["Host"] = q.Host
	st, rh, body, err := ip.Do(ctx, "POST", url, hdr, []byte(sendBody))
	if err != nil {
		c.Inconclusive("transport error: %v", err)
	}
	synctestWait()
	if sseCancel != nil {
		sseCancel()
	}
	if rh != nil && rh.Get("Mcp-Session-Id") != "" {
		// a session was created: end it, otherwise it lives (correctly) for ever
		ip.Do(ctx, "DELETE", "http://localhost:8080/mcp", map[string]string{"Mcp-Session-Id": rh.Get("Mcp-Session-Id"), "Host": "localhost:8080"}, nil)
	}
	ip.Wait()
	time.Sleep(11 * time.Second)
	if err != nil {
		return
	}
	okStatus := false
	for _, w := range q.Want {
		if st == w {
			okStatus = true
		}
	}
	rmu.Lock()
	ms := append([]string(nil), methods...)
	rmu.Unlock()
	if q.Violation != "" {
		if reached.Load() != 0 {
			c.Violate("violating-request-dispatched", "request violating %q reached the MCP server (methods %v, HTTP %d): %s", q.Violation, ms, st, vh.JSON(q))
			return
		}
		if !okStatus {
			c.Violate("wrong-rejection-status", "request violating %q answered HTTP %d (%s), mandated %v: %s", q.Violation, st, trunc80(string(body)), q.Want, vh.JSON(q))
			return
		}
		if q.WantCode != 0 {
			var m struct {
				Error *struct{ Code int } `json:"error"`
			}
			json.Unmarshal(body, &m)
			if m.Error == nil || m.Error.Code != q.WantCode {
				c.Violate("wrong-rejection-status", "request violating %q answered %s, mandated JSON-RPC error %d", q.Violation, trunc80(string(body)), q.WantCode)
				return
			}
		}
		c.Nontrivial(vh.JSON(q))
		return
	}
	// valid request: must be dispatched and answered
	if !okStatus {
		c.Violate("valid-request-rejected", "request meeting every precondition answered HTTP %d (%s; content-type %s): %s", st, trunc80(string(body)), rh.Get("Content-Type"), vh.JSON(q))
		return
	}
	if reached.Load() == 0 && !q.Notif { // an accepted notification on a stateless endpoint may be dropped with its one-request session
		c.Violate("valid-request-rejected", "request meeting every precondition never reached the MCP server (HTTP %d): %s", st, vh.JSON(q))
		return
	}
	if bytes.Contains(body, []byte(`"error"`)) && !bytes.Contains(body, []byte(`"result"`)) {
		var m struct {
			Error *jsonrpc.Error `json:"error"`
		}
		for _, e := range vhm.ParseSSEBytes(body) {
			json.Unmarshal([]byte(e.Data), &m)
		}
		if m.Error == nil {
			json.Unmarshal(body, &m)
		}
		if m.Error != nil {
			c.Violate("valid-request-rejected", "request meeting every precondition answered with error %d %q: %s", m.Error.Code, m.Error.Message, vh.JSON(q))
		}
	}
}

var _ = testing.Short

// rotatingAuth is both the server-side gate and the client's OAuthHandler: the
// valid token changes every few admitted requests; Authorize hands out the new one.
type rotatingAuth struct {
	mu      sync.Mutex
	gen     int
	served  int
	every   int
	current string // token the client holds
}

func (a *rotatingAuth) valid() string { return fmt.Sprintf("tok-%d", a.gen) }

func (a *rotatingAuth) admit(authz string) bool {
	a.mu.Lock()
	defer a.mu.Unlock()
	if authz != "Bearer "+a.valid() {
		return false
	}
	a.served++
	if a.served%a.every == 0 {
		a.gen++ // the next request with the old token is refused
	}
	return true
}

func (a *rotatingAuth) TokenSource(context.Context) (oauth2.TokenSource, error) {
	a.mu.Lock()
	defer a.mu.Unlock()
	if a.current == "" {
		return nil, nil
	}
	return oauth2.StaticTokenSource(&oauth2.Token{AccessToken: a.current}), nil
}

func (a *rotatingAuth) Authorize(_ context.Context, _ *http.Request, resp *http.Response) error {
	resp.Body.Close()
	a.mu.Lock()
	defer a.mu.Unlock()
	a.current = a.valid()
	return nil
}
