//go:build verif

// C06 — nothing is served before initialize; per-request protocol metadata is validated.
//
// A raw wire peer sends PRNG sequences of lifecycle and feature messages to a
// real Server (ndjson pipe; stateless HTTP for the 2026-07-28 metadata part).
// A receiving middleware records every method that reaches the handler chain,
// user handlers count their invocations, and the session's InitializeParams
// are snapshotted after every message. A reference state machine written from
// the statement predicts, per message, whether it may reach handlers, the
// class of its response, and that rejected messages leave the state unchanged.
package mcpx

import (
	"bufio"
	"context"
	"encoding/json"
	"fmt"
	"io"
	"net/http"
	"slices"
	"sort"
	"strings"
	"sync"
	"sync/atomic"
	"testing"
	"time"

	"github.com/modelcontextprotocol/go-sdk/internal/verifharness/vh"
	"github.com/modelcontextprotocol/go-sdk/internal/verifharness/vhm"
	"github.com/modelcontextprotocol/go-sdk/mcp"
)

type c06Msg struct {
	Sym    string `json:"sym"`
	Method string `json:"method"`
	Raw    string `json:"raw"`
	ID     string `json:"id,omitempty"`
	// expectations filled by the generator from the symbol; decided by the model at run time
	Meta string `json:"meta,omitempty"` // "" legacy | full | nocaps | badinfo | badver | oldver
	Name string `json:"name,omitempty"` // clientInfo.name of an initialize
}

type c06Spec struct {
	Transport   string   `json:"transport"` // stdio | http-stateless | http-stateful
	Msgs        []c06Msg `json:"msgs"`
	Headers     []string `json:"headers,omitempty"`     // http-stateful: Mcp-Protocol-Version per message ("" = absent)
	Established bool     `json:"established,omitempty"` // http-stateful: a legacy session is initialized first and its id sent along
	Preset      bool     `json:"preset,omitempty"`      // stdio: the session is created from ServerSessionOptions.State describing a completed handshake
}

var c06Supported = []string{"2026-07-28", "2025-11-25", "2025-06-18", "2025-03-26", "2024-11-05"}

func c06Meta(kind string) string {
	switch kind {
	case "full":
		return `{"io.modelcontextprotocol/protocolVersion":"2026-07-28","io.modelcontextprotocol/clientCapabilities":{},"io.modelcontextprotocol/clientInfo":{"name":"m","version":"1"}}`
	case "noinfo":
		return `{"io.modelcontextprotocol/protocolVersion":"2026-07-28","io.modelcontextprotocol/clientCapabilities":{}}`
	case "nocaps":
		return `{"io.modelcontextprotocol/protocolVersion":"2026-07-28","io.modelcontextprotocol/clientInfo":{"name":"m","version":"1"}}`
	case "badcaps":
		return `{"io.modelcontextprotocol/protocolVersion":"2026-07-28","io.modelcontextprotocol/clientCapabilities":"yes"}`
	case "badcaps-member":
		// an object, but a member the protocol defines has the wrong type
		return `{"io.modelcontextprotocol/protocolVersion":"2026-07-28","io.modelcontextprotocol/clientCapabilities":{"roots":7},"io.modelcontextprotocol/clientInfo":{"name":"m","version":"1"}}`
	case "badcaps-nested":
		return `{"io.modelcontextprotocol/protocolVersion":"2026-07-28","io.modelcontextprotocol/clientCapabilities":{"elicitation":{"form":"yes"}}}`
	case "nullcaps":
		return `{"io.modelcontextprotocol/protocolVersion":"2026-07-28","io.modelcontextprotocol/clientCapabilities":null,"io.modelcontextprotocol/clientInfo":{"name":"m","version":"1"}}`
	case "badinfo":
		return `{"io.modelcontextprotocol/protocolVersion":"2026-07-28","io.modelcontextprotocol/clientCapabilities":{},"io.modelcontextprotocol/clientInfo":17}`
	case "badver":
		return `{"io.modelcontextprotocol/protocolVersion":"2099-01-01","io.modelcontextprotocol/clientCapabilities":{}}`
	case "oldver":
		return `{"io.modelcontextprotocol/protocolVersion":"2025-06-18","io.modelcontextprotocol/clientCapabilities":{}}`
	}
	return ""
}

type c06Gen struct {
	r *vh.Rand
	n int
	// r2 decides the look-alike members below: a stream of its own, so that the messages of a case are otherwise
	// what they were before that dimension existed
	r2 *vh.Rand
}

func (g *c06Gen) msg(sym, method, params, meta string, notif bool) c06Msg {
	g.n++
	p := params
	if meta != "" {
		mj := c06Meta(meta)
		// the same keys in another, equally valid JSON spelling
		switch g.r.Intn(6) {
		case 0:
			mj = strings.ReplaceAll(mj, "io.modelcontextprotocol/", `io.modelcontextprotocol\/`)
		case 1:
			mj = strings.ReplaceAll(mj, "io.modelcontextprotocol/", `io.modelcontextprotocol\u002f`)
		}
		m := `"_meta":` + mj
		if p == "" || p == "{}" {
			p = "{" + m + "}"
		} else {
			p = "{" + m + "," + p[1:]
		}
	}
	if meta == "" && strings.HasPrefix(p, "{") && g.r2 != nil && g.r2.Chance(1, 6) {
		// a member that merely looks like _meta (member names are case-sensitive): complete metadata in it mean nothing,
		// the message is a plain legacy one
		m := `"` + g.r2.Choose("_Meta", "_META", "_mEtA", "_meta ") + `":` + c06Meta("full")
		if p == "{}" {
			p = "{" + m + "}"
		} else {
			p = "{" + m + "," + p[1:]
		}
	}
	raw := fmt.Sprintf(`{"jsonrpc":"2.0","method":%q`, method)
	id := ""
	if !notif {
		id = fmt.Sprint(g.n)
		raw = fmt.Sprintf(`{"jsonrpc":"2.0","id":%s,"method":%q`, id, method)
	}
	if p != "" {
		raw += `,"params":` + p
	}
	return c06Msg{Sym: sym, Method: method, Raw: raw + "}", ID: id, Meta: meta}
}

var c06Features = []struct{ method, params string }{
	{"tools/list", ""}, {"tools/list", "{}"}, {"tools/call", `{"name":"echo","arguments":{}}`}, {"prompts/list", "{}"}, {"prompts/get", `{"name":"p"}`},
	{"resources/list", "{}"}, {"resources/read", `{"uri":"file:///r"}`}, {"resources/templates/list", "{}"},
	{"completion/complete", `{"ref":{"type":"ref/prompt","name":"p"},"argument":{"name":"a","value":"v"}}`},
	{"logging/setLevel", `{"level":"debug"}`}, {"resources/subscribe", `{"uri":"file:///r"}`}, {"resources/unsubscribe", `{"uri":"file:///r"}`},
	// a method the application has registered itself (AddReceivingCustomMethod): gated like any feature
	{"acme/search", `{}`}, {"acme/search", ""},
}

func (g *c06Gen) next(httpOnly bool) c06Msg {
	r := g.r
	metas := []string{"full", "full", "noinfo", "nocaps", "badcaps", "nullcaps", "badinfo", "badver", "badcaps-member", "badcaps-nested"}
	if httpOnly {
		// sessionless HTTP: only requests that carry the per-request metadata
		f := c06Features[r.Intn(len(c06Features))]
		switch x := r.Intn(10); {
		case x < 6:
			return g.msg("feature+meta", f.method, f.params, metas[r.Intn(len(metas))], false)
		case x < 8:
			return g.msg("discover", "server/discover", "{}", metas[r.Intn(len(metas))], false)
		case x < 9:
			return g.msg("ping+meta", "ping", "{}", "full", false)
		default:
			return g.msg("initialize+meta", "initialize", `{"protocolVersion":"2026-07-28","capabilities":{},"clientInfo":{"name":"x","version":"1"}}`, "full", false)
		}
	}
	switch x := r.Intn(40); {
	case x < 6:
		v := r.Choose("2025-06-18", "2025-11-25", "2025-03-26", "2024-11-05", "1999-01-01", "2099-01-01", "2026-07-28", "garbage")
		name := fmt.Sprintf("client-%d", g.n+1)
		m := g.msg("initialize", "initialize", fmt.Sprintf(`{"protocolVersion":%q,"capabilities":{},"clientInfo":{"name":%q,"version":"1"}}`, v, name), "", false)
		m.Name = name
		return m
	case x == 6 && r.Bool():
		// initialize, and in the same breath a cancellation notice for it: the handler is still running when it arrives
		name := fmt.Sprintf("client-%d", g.n+1)
		m := g.msg("initialize", "initialize", fmt.Sprintf(`{"protocolVersion":"2025-06-18","capabilities":{},"clientInfo":{"name":%q,"version":"1"}}`, name), "", false)
		m.Name = name
		m.Sym = "initialize-cancelled"
		m.Raw += "\n" + fmt.Sprintf(`{"jsonrpc":"2.0","method":"notifications/cancelled","params":{"requestId":%s,"reason":"changed my mind"}}`, m.ID)
		return m
	case x < 7:
		return g.msg("initialize-bad", "initialize", r.Choose("", "null", `[1]`, `"x"`), "", false)
	case x < 11:
		return g.msg("initialized", "notifications/initialized", r.Choose("", "{}"), "", true)
	case x < 14:
		return g.msg("ping", "ping", r.Choose("", "{}"), "", false)
	case x < 15:
		return g.msg("cancelled", "notifications/cancelled", `{"requestId":4242}`, "", true)
	case x < 24:
		f := c06Features[r.Intn(len(c06Features))]
		return g.msg("feature", f.method, f.params, "", false)
	case x < 26:
		return g.msg("feature-notif", r.Choose("notifications/roots/list_changed", "notifications/progress"), `{"progressToken":"t","progress":1}`, "", true)
	case x < 27:
		f := c06Features[r.Intn(len(c06Features))]
		return g.msg("feature", f.method, f.params, "oldver", false) // metadata naming a legacy version is legacy traffic
	case x < 33:
		f := c06Features[r.Intn(len(c06Features))]
		return g.msg("feature+meta", f.method, f.params, metas[r.Intn(len(metas))], false)
	case x < 35:
		return g.msg("discover", "server/discover", "{}", r.Choose("full", "noinfo", "nocaps", "badver", ""), false)
	case x < 36:
		return g.msg("removed+meta", r.Choose("ping", "logging/setLevel", "resources/subscribe", "resources/unsubscribe"), `{"level":"debug","uri":"file:///r"}`, "full", false)
	case x < 37:
		return g.msg("removed+meta", "initialize", `{"protocolVersion":"2026-07-28","capabilities":{},"clientInfo":{"name":"x","version":"1"}}`, "full", false)
	case x < 38:
		return g.msg("removed-notif+meta", r.Choose("notifications/initialized", "notifications/roots/list_changed"), "{}", "full", true)
	case x < 39:
		return g.msg("unknown", "foo/bar", "{}", "", false)
	default:
		// complete metadata on a request that is refused all the same (no such method; params of the wrong shape): a
		// refused request establishes nothing
		if r.Bool() {
			return g.msg("unknown+meta", "foo/bar", "{}", "full", false)
		}
		return g.msg("undecodable+meta", "tools/call", `{"name":["echo"],"arguments":{}}`, "full", false)
	}
}

func genC06(r *vh.Rand, idx int) c06Spec {
	s := c06Spec{Transport: "stdio"}
	if r.Chance(1, 4) {
		s.Transport = "http-stateless"
	}
	g := &c06Gen{r: r, r2: vh.NewRand(vh.Seed()^0x5eed06, uint64(idx))}
	if r.Chance(1, 7) {
		// a stateful endpoint cannot serve 2026-07-28: metadata-carrying requests, whatever the header says
		s.Transport = "http-stateful"
		s.Established = r.Bool()
		for i, k := 0, r.Range(2, 6); i < k; i++ {
			s.Msgs = append(s.Msgs, g.next(true))
			s.Headers = append(s.Headers, r.Choose("", "", "2025-06-18", "2025-11-25", "2026-07-28"))
		}
		if r.Chance(1, 3) {
			// the other transport that cannot serve 2026-07-28: a session of the HTTP+SSE handler (no version header there)
			s.Transport = "sse"
		}
		return s
	}
	for i, k := 0, r.Range(3, 10); i < k; i++ {
		s.Msgs = append(s.Msgs, g.next(s.Transport == "http-stateless"))
	}
	s.Preset = s.Transport == "stdio" && r.Chance(1, 6)
	return s
}

func TestVerifC06(t *testing.T) {
	cfg := vh.Config{
		Property: "C06",
		Cases:    vh.Pick(3000, 120000),
		Rule: "each case: a raw wire peer sends 3..10 messages drawn from a 20-symbol alphabet (initialize with any version / bad params, initialized, ping, cancelled, 12 feature calls, feature notifications, the same with complete / incomplete / invalid / unsupported 2026-07-28 _meta, " +
			"server/discover, methods removed from 2026-07-28, unknown method) to a real Server over an ndjson pipe (3/4) or the stateless HTTP handler (1/4, metadata-carrying requests only). " +
			"non-trivial: >=1 feature message before an accepted initialize and >=1 lifecycle repetition or metadata rejection. distinct = distinct symbol sequences (with metadata kind)",
		MinNontrivial: 100,
		Assumptions: []string{"after a metadata-carrying request has been accepted on a not-yet-initialized stream session, later legacy traffic is executed but not decided (the statement does not fix it)",
			"the error code of a pre-initialize rejection is not fixed by the statement; any error response counts"},
	}
	vh.Run(t, cfg, func(c *vh.Case) {
		spec := genC06(c.R, c.Index)
		c.SetSpec(spec)
		c.Bubble("", func() { runC06(c, spec) })
	})
}

// c06Negotiated is the version an accepted legacy initialize settles on: the requested one if the handshake can
// serve it, the latest legacy version otherwise.
func c06Negotiated(raw string) string {
	var m struct {
		Params struct {
			ProtocolVersion string `json:"protocolVersion"`
		} `json:"params"`
	}
	json.Unmarshal([]byte(strings.SplitN(raw, "\n", 2)[0]), &m)
	for _, v := range c06Supported[1:] {
		if v == m.Params.ProtocolVersion {
			return v
		}
	}
	return c06Supported[1]
}

type c06Reply struct {
	Status int
	OK     bool
	Code   int
	Data   string
	Seen   bool
}

func parseC06Reply(b []byte) (id string, rep c06Reply) {
	var m struct {
		ID     json.RawMessage `json:"id"`
		Result json.RawMessage `json:"result"`
		Error  *struct {
			Code int             `json:"code"`
			Data json.RawMessage `json:"data"`
		} `json:"error"`
	}
	if json.Unmarshal(b, &m) != nil {
		return "", rep
	}
	rep.Seen = true
	if m.Error != nil {
		rep.Code, rep.Data = m.Error.Code, string(m.Error.Data)
	} else {
		rep.OK = true
	}
	return string(m.ID), rep
}

func runC06(c *vh.Case, spec c06Spec) {
	log := c.Log
	ctx := context.Background()
	var reachedMu sync.Mutex
	var reached []string
	var nInitd, nRoots, nProgress, nSub, nUnsub, nComplete, nTool atomic.Int64
	server := mcp.NewServer(&mcp.Implementation{Name: "s", Version: "1"}, &mcp.ServerOptions{
		InitializedHandler:          func(context.Context, *mcp.InitializedRequest) { nInitd.Add(1) },
		RootsListChangedHandler:     func(context.Context, *mcp.RootsListChangedRequest) { nRoots.Add(1) },
		ProgressNotificationHandler: func(context.Context, *mcp.ProgressNotificationServerRequest) { nProgress.Add(1) },
		SubscribeHandler:            func(context.Context, *mcp.SubscribeRequest) error { nSub.Add(1); return nil },
		UnsubscribeHandler:          func(context.Context, *mcp.UnsubscribeRequest) error { nUnsub.Add(1); return nil },
		CompletionHandler: func(context.Context, *mcp.CompleteRequest) (*mcp.CompleteResult, error) {
			nComplete.Add(1)
			return &mcp.CompleteResult{}, nil
		},
	})
	server.AddTool(&mcp.Tool{Name: "echo", InputSchema: json.RawMessage(`{"type":"object"}`)}, func(context.Context, *mcp.CallToolRequest) (*mcp.CallToolResult, error) {
		nTool.Add(1)
		return &mcp.CallToolResult{Content: []mcp.Content{&mcp.TextContent{Text: "ok"}}}, nil
	})
	server.AddPrompt(&mcp.Prompt{Name: "p"}, func(context.Context, *mcp.GetPromptRequest) (*mcp.GetPromptResult, error) {
		return &mcp.GetPromptResult{}, nil
	})
	var nCustom atomic.Int64
	if err := mcp.AddReceivingCustomMethod(server, "acme/search", func(context.Context, *mcp.ServerSession, *c02DynParams) (*c02DynResult, error) {
		nCustom.Add(1)
		return &c02DynResult{}, nil
	}); err != nil {
		c.Inconclusive("registering the custom method: %v", err)
		return
	}
	server.AddResource(&mcp.Resource{URI: "file:///r", Name: "r"}, func(context.Context, *mcp.ReadResourceRequest) (*mcp.ReadResourceResult, error) {
		return &mcp.ReadResourceResult{Contents: []*mcp.ResourceContents{{URI: "file:///r", Text: "x"}}}, nil
	})
	server.AddReceivingMiddleware(func(next mcp.MethodHandler) mcp.MethodHandler {
		return func(ctx context.Context, method string, req mcp.Request) (mcp.Result, error) {
			reachedMu.Lock()
			reached = append(reached, method)
			reachedMu.Unlock()
			if method == "initialize" {
				time.Sleep(300 * time.Microsecond) // long enough for a pipelined cancellation notice to arrive
			}
			return next(ctx, method, req)
		}
	})
	takeReached := func() []string {
		reachedMu.Lock()
		defer reachedMu.Unlock()
		r := reached
		reached = nil
		return r
	}

	// ---- reference model
	var (
		initName  string // clientInfo.name of the accepted initialize ("" = none)
		initVer   string // the version that initialize negotiated: what the session's InitializeParams must go on showing
		initd     bool
		mixed     bool
		wantInitd int64
		preInit   = 0
		rejects   = 0
		sig       strings.Builder
	)
	allowedPre := map[string]bool{"initialize": true, "notifications/initialized": true, "ping": true, "notifications/cancelled": true}
	removed := map[string]bool{"initialize": true, "ping": true, "notifications/initialized": true, "notifications/roots/list_changed": true,
		"logging/setLevel": true, "resources/subscribe": true, "resources/unsubscribe": true}

	decide := func(i int, m c06Msg, rep c06Reply, got []string, snapshot string, stateless bool) {
		sig.WriteString(m.Sym + "/" + m.Meta + ";")
		reachedThis := false
		for _, g := range got {
			if g == m.Method {
				reachedThis = true
			}
		}
		bad := func(key, format string, args ...any) {
			c.Violate(key, "message %d %s: %s", i, m.Raw, fmt.Sprintf(format, args...))
		}
		isCall := m.ID != ""
		newProto := m.Meta != "" && m.Meta != "oldver"
		if newProto {
			expectCode := 0
			switch m.Meta {
			case "badinfo", "nocaps", "badcaps", "nullcaps", "badcaps-member", "badcaps-nested":
				expectCode = -32602
			case "badver":
				expectCode = -32022
			}
			if m.Meta == "badinfo" {
				expectCode = -32602
			}
			if expectCode == 0 && (removed[m.Method] || m.Sym == "unknown+meta") {
				expectCode = -32601
			}
			if expectCode == 0 && m.Sym == "undecodable+meta" {
				expectCode = -32602
			}
			if expectCode != 0 {
				rejects++
				if reachedThis {
					bad("reached-handler-despite-bad-metadata", "reached the handler chain although its per-request metadata must be rejected with %d", expectCode)
					return
				}
				if isCall {
					if !rep.Seen || rep.OK || rep.Code != expectCode {
						bad("wrong-metadata-rejection", "expected error %d, got %+v", expectCode, rep)
						return
					}
					if expectCode == -32022 {
						var d struct {
							Supported []string `json:"supported"`
						}
						json.Unmarshal([]byte(rep.Data), &d)
						got := append([]string(nil), d.Supported...)
						want := append([]string(nil), c06Supported...)
						sort.Strings(got)
						sort.Strings(want)
						if strings.Join(got, ",") != strings.Join(want, ",") {
							bad("unsupported-version-without-list", "error -32022 must list the supported versions %v, data was %s", c06Supported, rep.Data)
							return
						}
					}
				}
				return
			}
			// complete, supported metadata on a method of the new protocol: served without handshake
			if isCall && (!rep.Seen || !rep.OK) {
				bad("valid-metadata-request-not-served", "carries complete metadata naming a supported version but was answered %+v", rep)
				return
			}
			if !reachedThis {
				bad("valid-metadata-request-not-served", "never reached the handler chain")
				return
			}
			if !stateless {
				mixed = true // an accepted metadata-carrying request (also server/discover) may (re)establish session parameters
			}
			return
		}
		if mixed || stateless {
			return // outside what the statement fixes
		}
		switch m.Sym {
		case "discover":
			rejects++
			if reachedThis || rep.OK || rep.Code != -32601 {
				bad("discover-without-metadata-served", "server/discover without 2026-07-28 metadata must be method-not-found; reached=%v reply=%+v", reachedThis, rep)
			}
			return
		case "initialize", "initialize-cancelled":
			if initName == "" {
				if !rep.OK && m.Sym == "initialize-cancelled" && rep.Seen {
					// answered with an error: then it was not accepted, and the session must still be uninitialized
					rejects++
					break
				}
				if !rep.OK {
					bad("initialize-rejected", "first initialize was rejected: %+v", rep)
					return
				}
				initName = m.Name
				initVer = c06Negotiated(m.Raw)
			} else {
				rejects++
				if rep.OK {
					bad("second-initialize-accepted", "a second initialize was answered with a result")
					return
				}
			}
		case "initialize-bad":
			rejects++
			if rep.OK {
				bad("bad-initialize-accepted", "initialize with unusable params was answered with a result")
				return
			}
		case "initialized":
			if initName != "" && !initd {
				initd = true
				wantInitd++
			} else {
				rejects++
			}
		case "ping":
			if !rep.OK {
				bad("ping-not-served", "ping must always be served, got %+v", rep)
				return
			}
		case "cancelled":
		case "unknown":
			if rep.OK {
				bad("unknown-method-served", "unknown method answered with a result")
				return
			}
		default: // feature call / notification
			if initName == "" {
				preInit++
				if reachedThis {
					bad("served-before-initialize", "reached the server-side handler chain before any initialize had been accepted")
					return
				}
				if isCall && (rep.OK || !rep.Seen) {
					bad("served-before-initialize", "feature call before initialize was answered %+v instead of an error", rep)
					return
				}
			} else {
				if !reachedThis {
					bad("feature-not-served-after-initialize", "did not reach the handler chain although initialize had been accepted")
					return
				}
				if isCall && !rep.OK {
					bad("feature-not-served-after-initialize", "was answered %+v after initialize had been accepted", rep)
					return
				}
			}
		}
		// pre-initialize: nothing but the lifecycle methods may reach handlers
		if initName == "" {
			for _, g := range got {
				if !allowedPre[g] {
					bad("served-before-initialize", "method %q reached the handler chain before initialize", g)
					return
				}
			}
		}
		// rejected messages leave the session state unchanged
		if want := initName + "|" + initVer; snapshot != want {
			bad("state-changed-by-rejected-message", "session InitializeParams (clientInfo.name|protocolVersion) is %q, reference model says %q", snapshot, want)
			return
		}
		if initName == "" && nCustom.Load() != 0 {
			bad("served-before-initialize", "the application's custom method ran %d time(s) before any initialize had been accepted", nCustom.Load())
			return
		}
		if nInitd.Load() != wantInitd {
			bad("initialized-handler-count", "InitializedHandler ran %d time(s), reference model says %d", nInitd.Load(), wantInitd)
			return
		}
	}

	// legacyOnly judges one metadata-carrying message sent to an endpoint whose transport cannot serve 2026-07-28 (a
	// stateful streamable endpoint, an HTTP+SSE session): apart from server/discover, from whose answer a client learns
	// the versions on offer, nothing of the kind may be served.
	legacyOnly := func(i int, m c06Msg, rep c06Reply, got []string, st int, hdrVer, keyName, what string) bool {
		rejects++
		if st >= 500 {
			c.Violate("http-5xx", "message %d %s answered HTTP %d", i, m.Raw, st)
			return false
		}
		if m.Sym == "discover" {
			return true
		}
		reachedThis := false
		for _, g := range got {
			if g == m.Method {
				reachedThis = true
			}
		}
		if reachedThis || rep.OK {
			c.Violate("new-protocol-served-by-"+keyName, "message %d %s (header Mcp-Protocol-Version=%q, established=%v) was served (reached handler=%v, reply %+v): a %s does not support 2026-07-28 and must answer -32022 (or -32602 for incomplete metadata)", i, m.Raw, hdrVer, spec.Established, reachedThis, rep, what)
			return false
		}
		incomplete := m.Meta == "nocaps" || m.Meta == "badcaps" || m.Meta == "nullcaps" || m.Meta == "badinfo" || m.Meta == "badcaps-member" || m.Meta == "badcaps-nested"
		if rep.Seen && !(rep.Code == -32022 || (incomplete && rep.Code == -32602) || (removed[m.Method] && rep.Code == -32601)) {
			c.Violate("wrong-metadata-rejection", "message %d %s on a %s (header %q): expected -32022 (or -32602 for incomplete metadata), got %+v", i, m.Raw, what, hdrVer, rep)
			return false
		}
		if rep.Code == -32022 {
			var d struct {
				Supported []string `json:"supported"`
			}
			json.Unmarshal([]byte(rep.Data), &d)
			okList := len(d.Supported) > 0
			for _, v := range d.Supported {
				if !slices.Contains(c06Supported, v) || (v >= "2026-07-28" && m.Meta != "badver") {
					okList = false
				}
			}
			if !okList {
				c.Violate("unsupported-version-without-list", "message %d: -32022 from a %s must list the (legacy) versions it supports, data was %s", i, what, rep.Data)
				return false
			}
		}
		return true
	}

	if spec.Transport == "stdio" {
		cr, sw := io.Pipe()
		sr, cw := io.Pipe()
		var sso *mcp.ServerSessionOptions
		if spec.Preset {
			// a session restored from saved state: the handshake is already complete
			sso = &mcp.ServerSessionOptions{State: &mcp.ServerSessionState{
				InitializeParams:  &mcp.InitializeParams{ProtocolVersion: "2025-06-18", ClientInfo: &mcp.Implementation{Name: "preset", Version: "1"}, Capabilities: &mcp.ClientCapabilities{}},
				InitializedParams: &mcp.InitializedParams{},
			}}
			initName, initVer, initd = "preset", "2025-06-18", true
		}
		ss, err := server.Connect(ctx, &mcp.IOTransport{Reader: sr, Writer: sw}, sso)
		if err != nil {
			c.Inconclusive("connect: %v", err)
			return
		}
		var rmu sync.Mutex
		replies := map[string]c06Reply{}
		done := make(chan struct{})
		go func() {
			defer close(done)
			sc := bufio.NewScanner(cr)
			sc.Buffer(make([]byte, 1<<20), 1<<20)
			for sc.Scan() {
				id, rep := parseC06Reply(sc.Bytes())
				rmu.Lock()
				replies[id] = rep
				rmu.Unlock()
			}
		}()
		alive := true
		for i, m := range spec.Msgs {
			if _, err := cw.Write([]byte(m.Raw + "\n")); err != nil {
				c.Violate("session-torn-down", "writing message %d failed: the session ended after %s", i, spec.Msgs[max(0, i-1)].Raw)
				alive = false
				break
			}
			synctestWait()
			time.Sleep(ms(1))
			synctestWait()
			rmu.Lock()
			rep := replies[m.ID]
			rmu.Unlock()
			snap := "|"
			if p := ss.InitializeParams(); p != nil && p.ClientInfo != nil {
				snap = p.ClientInfo.Name + "|" + p.ProtocolVersion
			}
			log.Add("msg", "i", i, "sym", m.Sym, "meta", m.Meta, "ok", rep.OK, "code", rep.Code, "seen", rep.Seen)
			decide(i, m, rep, takeReached(), snap, false)
			if c.Violated() {
				break
			}
		}
		if alive {
			// the session must still be alive: a final ping is answered
			cw.Write([]byte(`{"jsonrpc":"2.0","id":"final","method":"ping"}` + "\n"))
			synctestWait()
			time.Sleep(ms(1))
			rmu.Lock()
			fin := replies[`"final"`]
			rmu.Unlock()
			if !fin.OK && !c.Violated() && !mixed {
				c.Violate("session-torn-down", "final ping got %+v", fin)
			}
		}
		cw.Close()
		ss.Wait()
		sw.Close()
		<-done
	} else if spec.Transport == "sse" {
		h := mcp.NewSSEHandler(func(*http.Request) *mcp.Server { return server }, nil)
		ip := &vhm.InProc{Handler: h}
		gctx, gcancel := context.WithCancel(ctx)
		greq, _ := http.NewRequestWithContext(gctx, "GET", "http://example.test/sse", nil)
		resp, err := ip.RoundTrip(greq)
		if err != nil || resp.StatusCode != 200 {
			gcancel()
			c.Inconclusive("sse GET failed: %v", err)
			return
		}
		var rmu sync.Mutex
		replies := map[string]c06Reply{}
		endpoint := make(chan string, 1)
		done := make(chan struct{})
		go func() {
			defer close(done)
			vhm.ReadSSE(resp.Body, func(e vhm.SSEvent) {
				if e.Name == "endpoint" {
					endpoint <- e.Data
					return
				}
				id, rep := parseC06Reply([]byte(e.Data))
				rmu.Lock()
				replies[id] = rep
				rmu.Unlock()
			})
		}()
		ep := <-endpoint
		post := func(body string) int {
			st, _, _, err := ip.Do(ctx, "POST", "http://example.test"+ep, map[string]string{"Content-Type": "application/json"}, []byte(body))
			if err != nil {
				return -1
			}
			return st
		}
		if spec.Established {
			post(`{"jsonrpc":"2.0","id":"i","method":"initialize","params":{"protocolVersion":"2025-06-18","capabilities":{},"clientInfo":{"name":"legacy","version":"1"}}}`)
			post(`{"jsonrpc":"2.0","method":"notifications/initialized"}`)
			synctestWait()
			time.Sleep(ms(1))
			takeReached()
		}
		for i, m := range spec.Msgs {
			st := post(m.Raw)
			synctestWait()
			time.Sleep(ms(1))
			synctestWait()
			rmu.Lock()
			rep := replies[m.ID]
			rmu.Unlock()
			got := takeReached()
			log.Add("msg", "i", i, "sym", m.Sym, "meta", m.Meta, "ok", rep.OK, "code", rep.Code, "status", st)
			sig.WriteString(m.Sym + "/" + m.Meta + "/sse;")
			if !legacyOnly(i, m, rep, got, st, "", "sse-session", "HTTP+SSE session") {
				break
			}
		}
		gcancel()
		resp.Body.Close()
		<-done
		ip.Wait()
		for ss := range server.Sessions() {
			ss.Close()
		}
	} else if spec.Transport == "http-stateful" {
		h := mcp.NewStreamableHTTPHandler(func(*http.Request) *mcp.Server { return server }, nil)
		ip := &vhm.InProc{Handler: h, AsyncDelete: true}
		base := map[string]string{"Content-Type": "application/json", "Accept": "application/json, text/event-stream"}
		sid := ""
		if spec.Established {
			st, rh, _, err := ip.Do(ctx, "POST", "http://example.test/mcp", base, []byte(`{"jsonrpc":"2.0","id":"i","method":"initialize","params":{"protocolVersion":"2025-06-18","capabilities":{},"clientInfo":{"name":"legacy","version":"1"}}}`))
			if err != nil || st != 200 || rh.Get("Mcp-Session-Id") == "" {
				c.Inconclusive("stateful initialize: status %d err %v", st, err)
				return
			}
			sid = rh.Get("Mcp-Session-Id")
			hdr := map[string]string{"Mcp-Session-Id": sid, "Mcp-Protocol-Version": "2025-06-18"}
			for k, v := range base {
				hdr[k] = v
			}
			ip.Do(ctx, "POST", "http://example.test/mcp", hdr, []byte(`{"jsonrpc":"2.0","method":"notifications/initialized"}`))
			takeReached()
		}
		for i, m := range spec.Msgs {
			hdr := map[string]string{"Mcp-Method": m.Method}
			for k, v := range base {
				hdr[k] = v
			}
			if spec.Headers[i] != "" {
				hdr["Mcp-Protocol-Version"] = spec.Headers[i]
			}
			if sid != "" {
				hdr["Mcp-Session-Id"] = sid
			}
			switch m.Method {
			case "tools/call":
				hdr["Mcp-Name"] = "echo"
			case "prompts/get":
				hdr["Mcp-Name"] = "p"
			case "resources/read":
				hdr["Mcp-Name"] = "file:///r"
			}
			st, rh, body, err := ip.Do(ctx, "POST", "http://example.test/mcp", hdr, []byte(m.Raw))
			if err != nil {
				c.Violate("http-transport-error", "message %d: %v", i, err)
				break
			}
			var rep c06Reply
			switch {
			case strings.HasPrefix(rh.Get("Content-Type"), "text/event-stream"):
				for _, e := range vhm.ParseSSEBytes(body) {
					if _, r := parseC06Reply([]byte(e.Data)); r.Seen {
						rep = r
					}
				}
			case strings.HasPrefix(rh.Get("Content-Type"), "application/json"):
				_, rep = parseC06Reply(body)
			}
			got := takeReached()
			log.Add("msg", "i", i, "sym", m.Sym, "meta", m.Meta, "header", spec.Headers[i], "ok", rep.OK, "code", rep.Code, "status", st)
			sig.WriteString(m.Sym + "/" + m.Meta + "/" + spec.Headers[i] + ";")
			if !legacyOnly(i, m, rep, got, st, spec.Headers[i], "stateful-endpoint", "stateful endpoint") {
				break
			}
		}
		ip.Wait()
		for ss := range server.Sessions() {
			ss.Close()
		}
	} else {
		h := mcp.NewStreamableHTTPHandler(func(*http.Request) *mcp.Server { return server }, &mcp.StreamableHTTPOptions{Stateless: true})
		ip := &vhm.InProc{Handler: h}
		for i, m := range spec.Msgs {
			hdr := map[string]string{"Content-Type": "application/json", "Accept": "application/json, text/event-stream", "Mcp-Method": m.Method}
			ver := "2026-07-28"
			if m.Meta == "badver" {
				ver = "2099-01-01"
			}
			hdr["Mcp-Protocol-Version"] = ver
			switch m.Method {
			case "tools/call":
				hdr["Mcp-Name"] = "echo"
			case "prompts/get":
				hdr["Mcp-Name"] = "p"
			case "resources/read":
				hdr["Mcp-Name"] = "file:///r"
			}
			st, rh, body, err := ip.Do(ctx, "POST", "http://example.test/mcp", hdr, []byte(m.Raw))
			if err != nil {
				c.Violate("http-transport-error", "message %d: %v", i, err)
				break
			}
			var rep c06Reply
			switch {
			case strings.HasPrefix(rh.Get("Content-Type"), "text/event-stream"):
				for _, e := range vhm.ParseSSEBytes(body) {
					if _, r := parseC06Reply([]byte(e.Data)); r.Seen {
						rep = r
					}
				}
			case strings.HasPrefix(rh.Get("Content-Type"), "application/json"):
				_, rep = parseC06Reply(body)
			}
			rep.Status = st
			if st >= 500 {
				c.Violate("http-5xx", "message %d %s answered HTTP %d", i, m.Raw, st)
				break
			}
			log.Add("msg", "i", i, "sym", m.Sym, "meta", m.Meta, "ok", rep.OK, "code", rep.Code, "status", st)
			decide(i, m, rep, takeReached(), "", true)
			if c.Violated() {
				break
			}
		}
		ip.Wait()
	}
	time.Sleep(11 * time.Second)
	c.Count("messages", len(spec.Msgs))
	c.Count("pre_initialize_feature_messages", preInit)
	c.Count("expected_rejections", rejects)
	if (preInit >= 1 || spec.Transport != "stdio") && rejects >= 1 {
		c.Nontrivial(spec.Transport + ":" + sig.String())
	}
}

var _ = testing.Short
