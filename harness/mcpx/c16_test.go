//go:build verif

// C16 — typed tools see only schema-valid input and emit only schema-valid output.
//
// Tools are registered through the typed API (mcp.AddTool) with generated
// explicit input/output schemas (In = map[string]any) and with Go struct types
// (schemas inferred). A real client calls them over an in-memory session with
// generated arguments, valid and invalid. The oracle is an independent
// validator/default-applier for exactly this schema family.
package mcpx

import (
	"context"
	"encoding/json"
	"fmt"
	"math"
	"reflect"
	"sort"
	"strings"
	"sync"
	"testing"
	"time"

	"github.com/modelcontextprotocol/go-sdk/internal/verifharness/vh"
	"github.com/modelcontextprotocol/go-sdk/internal/verifharness/vhm"
	"github.com/modelcontextprotocol/go-sdk/mcp"
)

// ------------------------------------------------ the schema family + oracle

type sch struct {
	Type     string          `json:"type"`
	Props    map[string]*sch `json:"properties,omitempty"`
	Req      []string        `json:"required,omitempty"`
	Addl     *bool           `json:"additionalProperties,omitempty"`
	Enum     []any           `json:"enum,omitempty"`
	MinLen   *int            `json:"minLength,omitempty"`
	Min      *float64        `json:"minimum,omitempty"`
	Max      *float64        `json:"maximum,omitempty"`
	Items    *sch            `json:"items,omitempty"`
	MinItems *int            `json:"minItems,omitempty"`
	Default  any             `json:"default,omitempty"`
	Nullable bool            `json:"-"` // inferred Go slice/pointer types also admit null
}

func (s *sch) toMap() map[string]any {
	b, _ := json.Marshal(s)
	var m map[string]any
	json.Unmarshal(b, &m)
	return m
}

func (s *sch) required(name string) bool {
	for _, r := range s.Req {
		if r == name {
			return true
		}
	}
	return false
}

// validate is the reference validator for the family.
func (s *sch) validate(v any) bool {
	if v == nil && s.Nullable {
		return true
	}
	switch s.Type {
	case "string":
		str, ok := v.(string)
		if !ok {
			return false
		}
		if s.MinLen != nil && len([]rune(str)) < *s.MinLen {
			return false
		}
		if s.Enum != nil {
			found := false
			for _, e := range s.Enum {
				if e == str {
					found = true
				}
			}
			return found
		}
		return true
	case "integer", "number":
		f, ok := v.(float64)
		if !ok {
			return false
		}
		if s.Type == "integer" && f != math.Trunc(f) {
			return false
		}
		if s.Min != nil && f < *s.Min {
			return false
		}
		if s.Max != nil && f > *s.Max {
			return false
		}
		return true
	case "boolean":
		_, ok := v.(bool)
		return ok
	case "array":
		a, ok := v.([]any)
		if !ok {
			return false
		}
		if s.MinItems != nil && len(a) < *s.MinItems {
			return false
		}
		for _, e := range a {
			if s.Items != nil && !s.Items.validate(e) {
				return false
			}
		}
		return true
	case "object":
		m, ok := v.(map[string]any)
		if !ok {
			return false
		}
		for _, r := range s.Req {
			if _, ok := m[r]; !ok {
				return false
			}
		}
		for k, e := range m {
			p, ok := s.Props[k]
			if !ok {
				if s.Addl != nil && !*s.Addl {
					return false
				}
				continue
			}
			if !p.validate(e) {
				return false
			}
		}
		return true
	}
	return false
}

func deepCopy(v any) any {
	b, _ := json.Marshal(v)
	var out any
	json.Unmarshal(b, &out)
	return out
}

// applyDefaults fills in defaults of optional properties (recursively for present objects).
func (s *sch) applyDefaults(v any) any {
	m, ok := v.(map[string]any)
	if !ok || s.Type != "object" {
		return v
	}
	for name, p := range s.Props {
		if s.required(name) {
			if cur, ok := m[name]; ok {
				m[name] = p.applyDefaults(cur)
			}
			continue
		}
		cur, present := m[name]
		switch {
		case present:
			m[name] = p.applyDefaults(cur)
		case p.Default != nil:
			m[name] = p.applyDefaults(deepCopy(p.Default))
		case p.Type == "object" && p.hasDefaults():
			// the defaults of an absent optional object still apply: it materialises with them
			m[name] = p.applyDefaults(map[string]any{})
		}
	}
	return m
}

func (s *sch) hasDefaults() bool {
	if s.Default != nil {
		return true
	}
	for _, p := range s.Props {
		if p.hasDefaults() {
			return true
		}
	}
	return false
}

func iptr(i int) *int         { return &i }
func fptr(f float64) *float64 { return &f }
func bptr(b bool) *bool       { return &b }

func genLeaf(r *vh.Rand) *sch {
	switch r.Intn(5) {
	case 0:
		s := &sch{Type: "string"}
		if r.Bool() {
			s.Enum = []any{"red", "green", "blue"}
		} else if r.Bool() {
			s.MinLen = iptr(r.Range(1, 3))
		}
		return s
	case 1:
		s := &sch{Type: "integer"}
		if r.Bool() {
			s.Min, s.Max = fptr(float64(r.Range(-5, 1))), fptr(float64(r.Range(2, 100)))
		}
		return s
	case 2:
		return &sch{Type: "number", Min: fptr(0)}
	case 3:
		return &sch{Type: "boolean"}
	default:
		return &sch{Type: "array", Items: &sch{Type: r.Choose("string", "integer")}, MinItems: iptr(r.Intn(2))}
	}
}

// genValue produces a value valid for s.
func genValue(r *vh.Rand, s *sch) any {
	switch s.Type {
	case "string":
		if s.Enum != nil {
			return s.Enum[r.Intn(len(s.Enum))]
		}
		n := 3
		if s.MinLen != nil {
			n = *s.MinLen + r.Intn(3)
		}
		return strings.Repeat("é", n/2) + strings.Repeat("s", n-n/2)
	case "integer":
		lo, hi := -3.0, 50.0
		if s.Min != nil {
			lo, hi = *s.Min, *s.Max
		}
		return float64(int(lo) + r.Intn(int(hi-lo)+1))
	case "number":
		return float64(r.Intn(100)) + 0.5
	case "boolean":
		return r.Bool()
	case "array":
		n := r.Range(1, 3)
		var a []any
		for i := 0; i < n; i++ {
			a = append(a, genValue(r, s.Items))
		}
		return a
	}
	m := map[string]any{}
	for name, p := range s.Props {
		if s.required(name) || r.Chance(2, 3) {
			m[name] = genValue(r, p)
		}
	}
	return m
}

func genObject(r *vh.Rand, depth int) *sch {
	s := &sch{Type: "object", Props: map[string]*sch{}}
	if r.Bool() {
		s.Addl = bptr(r.Chance(1, 3))
	}
	n := r.Range(1, 5)
	for i := 0; i < n; i++ {
		name := fmt.Sprintf("%s%d", r.Choose("p", "Val", "x_"), i)
		var p *sch
		req := r.Chance(1, 3)
		if depth > 0 && r.Chance(1, 4) {
			p = genObject(r, depth-1)
			if p.hasDefaults() {
				req = false // defaults live only under optional properties, at every level (see assumptions)
			}
		} else {
			p = genLeaf(r)
			if !req && r.Chance(1, 2) {
				p.Default = genValue(r, p) // defaults only on optional properties, and always valid
			}
		}
		s.Props[name] = p
		if req {
			s.Req = append(s.Req, name)
		}
	}
	sort.Strings(s.Req)
	return s
}

// mutate makes a (probably) invalid variant of a valid object.
func mutate(r *vh.Rand, s *sch, v map[string]any) (string, map[string]any) {
	m := deepCopy(v).(map[string]any)
	var names []string
	for n := range s.Props {
		names = append(names, n)
	}
	sort.Strings(names)
	n := names[r.Intn(len(names))]
	p := s.Props[n]
	switch r.Intn(6) {
	case 0:
		if len(s.Req) > 0 {
			d := s.Req[r.Intn(len(s.Req))]
			delete(m, d)
			return "drop-required:" + d, m
		}
	case 1:
		m[n] = map[string]any{"wrong": "type"}
		if p.Type == "object" {
			m[n] = "wrong type"
		}
		return "wrong-type:" + n, m
	case 2:
		m["unexpected_extra"] = 1.0
		return "extra-property", m
	case 3:
		switch p.Type {
		case "integer":
			m[n] = 1.5
			if p.Max != nil {
				m[n] = *p.Max + 1
			}
		case "number":
			m[n] = -1.0
		case "string":
			m[n] = ""
			if p.Enum != nil {
				m[n] = "purple"
			}
		case "array":
			m[n] = []any{map[string]any{}}
		case "boolean":
			m[n] = "true"
		}
		return "out-of-range:" + n, m
	case 4:
		m[n] = nil
		return "null:" + n, m
	}
	// case-variant of a property name (must not be taken for the property)
	if v, ok := m[n]; ok {
		delete(m, n)
		m[strings.ToUpper(n)] = v
		return "case-variant:" + n, m
	}
	return "none", m
}

// ----------------------------------------------------- typed (inferred) tools

type c16Inner struct {
	Level int    `json:"level"`
	Note  string `json:"note,omitempty"`
}

type c16In struct {
	Name  string    `json:"name"`
	Count int       `json:"count,omitempty"`
	Tags  []string  `json:"tags,omitempty"`
	Opt   *c16Inner `json:"opt,omitempty"`
}

type c16Out struct {
	Echo  string `json:"echo"`
	Total int    `json:"total"`
}

func c16InRef() *sch {
	inner := &sch{Type: "object", Nullable: true, Addl: bptr(false), Props: map[string]*sch{"level": {Type: "integer"}, "note": {Type: "string"}}, Req: []string{"level"}}
	return &sch{Type: "object", Addl: bptr(false), Req: []string{"name"}, Props: map[string]*sch{
		"name": {Type: "string"}, "count": {Type: "integer"}, "tags": {Type: "array", Items: &sch{Type: "string"}, Nullable: true}, "opt": inner}}
}

func TestVerifC16(t *testing.T) {
	cfg := vh.Config{
		Property: "C16",
		Cases:    vh.Pick(2500, 120000),
		Rule: "each case: a typed tool (mcp.AddTool) with a generated explicit input schema (objects of depth <= 2, required/optional properties, defaults on optional leaves, enums, minLength, integer/number bounds, arrays, additionalProperties) or, every 5th case, Go struct types with inferred schemas; " +
			"an output schema (object with defaults, array, string or integer) on 2/3 of the cases; 1..5 calls with valid arguments and with single-point mutations (missing required, wrong type, extra property, out of range, null, case-variant key); handler outputs valid and invalid, with and without own content. " +
			"non-trivial: >=1 accepted and >=1 rejected call. distinct = distinct (schemas, calls)",
		MinNontrivial: 100,
		Assumptions: []string{"defaults sit on optional properties only (at every nesting level: an object containing defaults is itself optional) and are themselves valid; an absent optional object whose members have defaults materialises with them", "integers within the I-JSON safe range",
			"the oracle is an independent validator for exactly this schema family (cross-checked against python jsonschema in the thorough tier)"},
	}
	vh.Run(t, cfg, func(c *vh.Case) {
		switch c.Index % 10 {
		case 3:
			c.Bubble("", func() { runC16Cache(c) })
		case 8:
			c.Bubble("", func() { runC16Case(c) })
		case 6:
			if c.Index%100 == 56 {
				c.Bubble("", func() { runC16Big(c) })
				return
			}
			c.Bubble("", func() { runC16Edge(c) })
		default:
			c.Bubble("", func() { runC16(c) })
		}
	})
}

type c16Call struct {
	Args     any    `json:"args"`
	Mutation string `json:"mutation,omitempty"`
	Out      any    `json:"out,omitempty"`
	OutBad   bool   `json:"out_bad,omitempty"`
	OutNil   bool   `json:"out_nil,omitempty"` // the handler's output is a nil map (JSON null) under an object output schema
	OwnText  bool   `json:"own_content,omitempty"`
	Shape    string `json:"result_shape,omitempty"` // what the handler returns besides its output: "" nil | own | empty (&CallToolResult{}) | meta-only | canned (one result object reused by every call) | prefilled (StructuredContent set by the handler itself)
	MRTR     bool   `json:"mrtr,omitempty"`         // the handler first asks for the client's roots (InputRequests) and answers on the second round
}

func runC16(c *vh.Case) {
	r := c.R
	ctx := context.Background()
	typed := c.Index%5 == 4
	var in *sch
	var out *sch
	if typed {
		in = c16InRef()
	} else {
		in = genObject(r, 2)
	}
	switch r.Intn(6) {
	case 0, 1:
		out = nil
	case 2, 3:
		out = genObject(r, 1)
	case 4:
		out = &sch{Type: "array", Items: &sch{Type: "integer"}, MinItems: iptr(1)}
	default:
		out = &sch{Type: r.Choose("string", "integer")}
	}
	if typed {
		out = &sch{Type: "object", Addl: bptr(false), Req: []string{"echo", "total"}, Props: map[string]*sch{"echo": {Type: "string"}, "total": {Type: "integer"}}}
	}
	// a dynamically described tool: the handler takes its arguments as `any`, the explicit schema is all there is
	inAny := !typed && r.Chance(1, 3)
	var mu sync.Mutex
	var invoked int
	var received string
	var receivedAll []string
	var cur c16Call
	server := mcp.NewServer(&mcp.Implementation{Name: "s", Version: "1"}, nil)
	canned := &mcp.CallToolResult{Content: []mcp.Content{&mcp.TextContent{Text: "own content"}}}
	mkResult := func(req *mcp.CallToolRequest) *mcp.CallToolResult {
		receivedAll = append(receivedAll, received)
		if cur.MRTR && len(req.Params.InputResponses) == 0 {
			return &mcp.CallToolResult{InputRequests: mcp.InputRequestMap{"roots": &mcp.ListRootsParams{}}}
		}
		switch cur.Shape {
		case "own":
			return &mcp.CallToolResult{Content: []mcp.Content{&mcp.TextContent{Text: "own content"}}}
		case "empty":
			return &mcp.CallToolResult{}
		case "meta-only":
			return &mcp.CallToolResult{Meta: mcp.Meta{"trace": "t-1"}}
		case "canned":
			return canned
		case "prefilled":
			return &mcp.CallToolResult{Content: []mcp.Content{&mcp.TextContent{Text: "own content"}}, StructuredContent: map[string]any{"stale": true}}
		}
		return nil
	}
	if typed {
		mcp.AddTool(server, &mcp.Tool{Name: "t"}, func(ctx context.Context, req *mcp.CallToolRequest, a c16In) (*mcp.CallToolResult, c16Out, error) {
			mu.Lock()
			defer mu.Unlock()
			invoked++
			b, _ := json.Marshal(a)
			received = string(b)
			return mkResult(req), c16Out{Echo: a.Name, Total: a.Count + len(a.Tags)}, nil
		})
	} else {
		tool := &mcp.Tool{Name: "t", InputSchema: in.toMap()}
		if out != nil {
			tool.OutputSchema = out.toMap()
		}
		body := func(req *mcp.CallToolRequest, a any) (*mcp.CallToolResult, any, error) {
			mu.Lock()
			defer mu.Unlock()
			invoked++
			b, _ := json.Marshal(a)
			received = string(b)
			return mkResult(req), cur.Out, nil
		}
		if inAny {
			mcp.AddTool(server, tool, func(ctx context.Context, req *mcp.CallToolRequest, a any) (*mcp.CallToolResult, any, error) {
				return body(req, a)
			})
		} else {
			mcp.AddTool(server, tool, func(ctx context.Context, req *mcp.CallToolRequest, a map[string]any) (*mcp.CallToolResult, any, error) {
				return body(req, a)
			})
		}
	}
	client := mcp.NewClient(&mcp.Implementation{Name: "c", Version: "1"}, nil)
	client.AddRoots(&mcp.Root{URI: "file:///r", Name: "r"})
	pair, err := vhm.Connect(ctx, vhm.PairOpts{Kind: "mem", Server: server, Client: client, ClientVersion: r.Choose("2025-06-18", "2025-11-25")})
	if err != nil {
		c.Inconclusive("connect: %v", err)
		return
	}
	cs := pair.CS
	var calls []c16Call
	accepted, rejected := 0, 0
	defer func() {
		c.SetSpec(map[string]any{"typed": typed, "in_any": inAny, "input_schema": in, "output_schema": out, "calls": calls})
		cs.Close()
		pair.SS.Wait()
		time.Sleep(11 * time.Second)
	}()
	for k, n := 0, r.Range(1, 5); k < n && !c.Violated(); k++ {
		args := genValue(r, in).(map[string]any)
		call := c16Call{}
		switch x := r.Intn(12); {
		case x < 4:
			call.Shape = "own"
		case x < 5:
			call.Shape = "empty"
		case x < 6:
			call.Shape = "meta-only"
		case x < 7:
			call.Shape = "canned"
		case x < 8:
			call.Shape = "prefilled"
		}
		call.OwnText = call.Shape == "own" || call.Shape == "canned" || call.Shape == "prefilled"
		call.MRTR = r.Chance(1, 6)
		if r.Bool() {
			call.Mutation, args = mutate(r, in, args)
		}
		call.Args = args
		if out != nil && !typed {
			call.Out = genValue(r, out)
			if r.Chance(1, 3) {
				call.OutBad = true
				switch o := call.Out.(type) {
				case map[string]any:
					_, o = mutate(r, out, o)
					call.Out = o
				case []any:
					call.Out = []any{"not an integer"}
				case string:
					call.Out = 17.0
				case float64:
					call.Out = "seventeen"
				}
			} else if out.Type == "object" && r.Chance(1, 5) {
				call.OutNil = true
				call.Out = map[string]any(nil)
			}
		}
		mu.Lock()
		cur = call
		invoked, received, receivedAll = 0, "", nil
		mu.Unlock()
		calls = append(calls, call)
		res, err := cs.CallTool(ctx, &mcp.CallToolParams{Name: "t", Arguments: args})
		mu.Lock()
		nInv, recv := invoked, received
		recvAll := append([]string(nil), receivedAll...)
		mu.Unlock()
		wantInv := 1
		if call.MRTR {
			wantInv = 2 // asked for input, then re-invoked with the client's answer
		}
		want := in.applyDefaults(deepCopy(args))
		valid := in.validate(want)
		argsJSON, _ := json.Marshal(args)
		if !valid {
			rejected++
			if nInv != 0 {
				c.Violate("handler-saw-invalid-input", "arguments %s (%s) are invalid under %s, yet the handler ran with %s", argsJSON, call.Mutation, vh.JSON(in), recv)
				return
			}
			if err != nil {
				c.Violate("invalid-input-protocol-error", "invalid arguments %s must produce a tool-level error result, got protocol error %v", argsJSON, err)
				return
			}
			if !res.IsError {
				c.Violate("invalid-input-accepted", "invalid arguments %s (%s) produced a non-error result %s", argsJSON, call.Mutation, vh.JSON(res))
				return
			}
			continue
		}
		accepted++
		if nInv != wantInv {
			c.Violate("valid-input-rejected", "arguments %s are valid under %s (after defaults: %s), but the handler ran %d time(s), expected %d; result %s err %v", argsJSON, vh.JSON(in), vh.JSON(want), nInv, wantInv, vh.JSON(res), err)
			return
		}
		wantJSON, _ := json.Marshal(want)
		if typed {
			// the struct's own marshalling drops zero-valued omitempty members: compare after a round trip through the struct
			var a c16In
			json.Unmarshal(wantJSON, &a)
			wantJSON, _ = json.Marshal(a)
		}
		for round, rv := range recvAll {
			if !jsonEqual([]byte(rv), wantJSON) {
				c.Violate("handler-input-differs", "handler received %s on round %d, expected the arguments with defaults applied %s (sent %s)", rv, round+1, wantJSON, argsJSON)
				return
			}
		}
		_ = recv
		// ---- output
		if out == nil {
			if err != nil || res.IsError {
				c.Violate("valid-call-failed", "valid call failed: %v %s", err, vh.JSON(res))
				return
			}
			continue
		}
		if call.OutNil {
			// a nil map is JSON null, not an object: the call may fail, or the SDK may take it for the empty object;
			// a successful result carries valid structured content either way, and its rendering if the handler gave no content
			if err == nil && !res.IsError {
				gotSC, _ := json.Marshal(res.StructuredContent)
				var decoded any
				json.Unmarshal(gotSC, &decoded)
				if !out.validate(decoded) {
					c.Violate("invalid-output-returned", "the handler returned a nil map; the successful result carries structured content %s, which is not valid under the output schema %s", gotSC, vh.JSON(out))
					return
				}
				tc, _ := append(res.Content, nil)[0].(*mcp.TextContent)
				if !call.OwnText && (len(res.Content) != 1 || tc == nil || !jsonEqual([]byte(tc.Text), gotSC)) {
					c.Violate("text-rendering-missing", "the handler returned a nil map and no content: expected one text block rendering %s, got %s", gotSC, vh.JSON(res.Content))
					return
				}
				c.Count("nil_map_outputs_returned", 1)
			}
			continue
		}
		var outVal any = call.Out
		if typed {
			var a c16In
			json.Unmarshal(wantJSON, &a)
			outVal = map[string]any{"echo": a.Name, "total": float64(a.Count + len(a.Tags))}
		}
		wantOut := out.applyDefaults(deepCopy(outVal))
		outValid := out.validate(wantOut)
		if !outValid {
			if err == nil && !res.IsError {
				c.Violate("invalid-output-returned", "handler output %s violates the output schema %s but was returned as a successful result %s", vh.JSON(outVal), vh.JSON(out), vh.JSON(res))
				return
			}
			continue
		}
		if err != nil || res.IsError {
			c.Violate("valid-output-rejected", "handler output %s is valid under %s, yet the call failed: %v %s", vh.JSON(outVal), vh.JSON(out), err, vh.JSON(res))
			return
		}
		gotSC, _ := json.Marshal(res.StructuredContent)
		wantSC, _ := json.Marshal(wantOut)
		if !jsonEqual(gotSC, wantSC) {
			c.Violate("structured-content-differs", "structured content %s, expected the handler's output with schema defaults %s", gotSC, wantSC)
			return
		}
		var decoded any
		json.Unmarshal(gotSC, &decoded)
		if !out.validate(decoded) {
			c.Violate("structured-content-invalid", "structured content %s is not valid under the output schema %s", gotSC, vh.JSON(out))
			return
		}
		// text rendering
		var texts []string
		for _, ct := range res.Content {
			if tc, ok := ct.(*mcp.TextContent); ok {
				texts = append(texts, tc.Text)
			}
		}
		isObj := reflect.ValueOf(wantOut).Kind() == reflect.Map
		c.Count("outputs_checked_"+out.Type, 1)
		switch {
		case !call.OwnText:
			if len(texts) != 1 || !jsonEqual([]byte(texts[0]), wantSC) {
				c.Violate("text-rendering-missing", "handler supplied no content: expected one text block rendering %s, got %v", wantSC, texts)
				return
			}
		case isObj:
			if len(texts) != 1 || texts[0] != "own content" {
				c.Violate("own-content-altered", "handler supplied its own content; result carries %v", texts)
				return
			}
		default:
			if len(texts) < 1 || texts[0] != "own content" {
				c.Violate("own-content-altered", "handler supplied its own content; result carries %v", texts)
				return
			}
		}
	}
	c.Count("calls", len(calls))
	c.Count("accepted", accepted)
	c.Count("rejected", rejected)
	if accepted >= 1 && rejected >= 1 {
		c.Nontrivial(vh.JSON(in) + vh.JSON(out) + vh.JSON(calls))
	}
}

var _ = testing.Short

// ---- two distinct Go types with the same (function-local) name, registered with a shared SchemaCache

func c16RegisterA(s *mcp.Server, seen *[]string, mu *sync.Mutex) {
	type Args struct {
		Alpha int `json:"alpha"`
	}
	mcp.AddTool(s, &mcp.Tool{Name: "a"}, func(ctx context.Context, req *mcp.CallToolRequest, a Args) (*mcp.CallToolResult, any, error) {
		mu.Lock()
		*seen = append(*seen, fmt.Sprintf("a:%d", a.Alpha))
		mu.Unlock()
		return nil, nil, nil
	})
}

func c16RegisterB(s *mcp.Server, seen *[]string, mu *sync.Mutex) {
	type Args struct {
		Beta  string `json:"beta"`
		Gamma bool   `json:"gamma,omitempty"`
	}
	mcp.AddTool(s, &mcp.Tool{Name: "b"}, func(ctx context.Context, req *mcp.CallToolRequest, a Args) (*mcp.CallToolResult, any, error) {
		mu.Lock()
		*seen = append(*seen, fmt.Sprintf("b:%s:%v", a.Beta, a.Gamma))
		mu.Unlock()
		return nil, nil, nil
	})
}

type c16PtrOut struct {
	Name string `json:"name"`
	N    int    `json:"n"`
}

func c16RegisterPtr(s *mcp.Server, ret **c16PtrOut) {
	mcp.AddTool(s, &mcp.Tool{Name: "p"}, func(ctx context.Context, req *mcp.CallToolRequest, _ struct{}) (*mcp.CallToolResult, *c16PtrOut, error) {
		return nil, *ret, nil
	})
}

func runC16Cache(c *vh.Case) {
	r := c.R
	ctx := context.Background()
	var mu sync.Mutex
	var seen []string
	cache := mcp.NewSchemaCache()
	var ptrRet *c16PtrOut
	if r.Bool() {
		// the server-per-request pattern: an earlier server has registered the same tools through the same cache
		earlier := mcp.NewServer(&mcp.Implementation{Name: "earlier", Version: "1"}, &mcp.ServerOptions{SchemaCache: cache})
		c16RegisterPtr(earlier, &ptrRet)
	}
	server := mcp.NewServer(&mcp.Implementation{Name: "s", Version: "1"}, &mcp.ServerOptions{SchemaCache: cache})
	c16RegisterPtr(server, &ptrRet)
	if r.Bool() {
		c16RegisterA(server, &seen, &mu)
		c16RegisterB(server, &seen, &mu)
	} else {
		c16RegisterB(server, &seen, &mu)
		c16RegisterA(server, &seen, &mu)
	}
	// one Go type behind two tools: one with the inferred schema, one with a stricter explicit schema given as a
	// map or as raw JSON; and one tool whose input and output are both map[string]any with different schemas
	var limSeen []string
	limStrict := `{"type":"object","properties":{"path":{"type":"string","minLength":3},"limit":{"type":"integer","minimum":1,"maximum":100}},"required":["path","limit"],"additionalProperties":false}`
	var limSchema any = json.RawMessage(limStrict)
	if r.Bool() {
		var m map[string]any
		json.Unmarshal([]byte(limStrict), &m)
		limSchema = m
	}
	regInferred := func() {
		mcp.AddTool(server, &mcp.Tool{Name: "lim-inferred"}, func(ctx context.Context, req *mcp.CallToolRequest, a c16Limit) (*mcp.CallToolResult, any, error) {
			mu.Lock()
			limSeen = append(limSeen, fmt.Sprintf("inferred:%s:%d", a.Path, a.Limit))
			mu.Unlock()
			return nil, nil, nil
		})
	}
	regExplicit := func() {
		mcp.AddTool(server, &mcp.Tool{Name: "lim-explicit", InputSchema: limSchema}, func(ctx context.Context, req *mcp.CallToolRequest, a c16Limit) (*mcp.CallToolResult, any, error) {
			mu.Lock()
			limSeen = append(limSeen, fmt.Sprintf("explicit:%s:%d", a.Path, a.Limit))
			mu.Unlock()
			return nil, nil, nil
		})
	}
	if r.Bool() {
		regInferred()
		regExplicit()
	} else {
		regExplicit()
		regInferred()
	}
	mapOut := map[string]any{}
	mcp.AddTool(server, &mcp.Tool{Name: "maps",
		InputSchema:  map[string]any{"type": "object", "properties": map[string]any{"q": map[string]any{"type": "string"}}, "required": []any{"q"}},
		OutputSchema: map[string]any{"type": "object", "properties": map[string]any{"ok": map[string]any{"type": "boolean"}}, "required": []any{"ok"}, "additionalProperties": false}},
		func(ctx context.Context, req *mcp.CallToolRequest, in map[string]any) (*mcp.CallToolResult, map[string]any, error) {
			return nil, mapOut, nil
		})
	client := mcp.NewClient(&mcp.Implementation{Name: "c", Version: "1"}, nil)
	pair, err := vhm.Connect(ctx, vhm.PairOpts{Kind: "mem", Server: server, Client: client, ClientVersion: "2025-06-18"})
	if err != nil {
		c.Inconclusive("connect: %v", err)
		return
	}
	defer func() { pair.CS.Close(); pair.SS.Wait(); time.Sleep(11 * time.Second) }()
	for _, k := range []struct {
		tool  string
		args  map[string]any
		valid bool
		want  string
	}{
		{"lim-explicit", map[string]any{"path": "ab"}, false, ""},
		{"lim-explicit", map[string]any{"path": "abcd", "limit": 500}, false, ""},
		{"lim-explicit", map[string]any{"path": "abcd", "limit": 5, "extra": 1}, false, ""},
		{"lim-explicit", map[string]any{"path": "abcd", "limit": 5}, true, "explicit:abcd:5"},
		{"lim-inferred", map[string]any{"path": "ab"}, true, "inferred:ab:0"},
		{"lim-inferred", map[string]any{"path": "abcd", "limit": 500}, true, "inferred:abcd:500"},
		{"lim-inferred", map[string]any{"limit": 5}, false, ""},
	} {
		mu.Lock()
		limSeen = nil
		mu.Unlock()
		res, err := pair.CS.CallTool(ctx, &mcp.CallToolParams{Name: k.tool, Arguments: k.args})
		mu.Lock()
		got := append([]string(nil), limSeen...)
		mu.Unlock()
		if k.valid {
			if err != nil || res.IsError || len(got) != 1 || got[0] != k.want {
				c.Violate("valid-input-rejected", "tool %s (one Go type behind an inferred and an explicit %T schema, shared SchemaCache) with valid arguments %s: handler saw %v, result %s err %v", k.tool, limSchema, vh.JSON(k.args), got, vh.JSON(res), err)
				return
			}
		} else if len(got) != 0 || err != nil || !res.IsError {
			c.Violate("handler-saw-invalid-input", "tool %s (one Go type behind an inferred and an explicit %T schema, shared SchemaCache) with invalid arguments %s: handler saw %v, result %s err %v", k.tool, limSchema, vh.JSON(k.args), got, vh.JSON(res), err)
			return
		}
	}
	// (a nil map is JSON null, at best the empty object: neither has the required member)
	for _, k := range []struct {
		out   map[string]any
		valid bool
	}{{map[string]any{"ok": true}, true}, {map[string]any{"q": "x"}, false}, {map[string]any{"ok": true, "q": "x"}, false}, {map[string]any{}, false}, {nil, false}, {map[string]any{"ok": true}, true}} {
		mapOut = k.out
		res, err := pair.CS.CallTool(ctx, &mcp.CallToolParams{Name: "maps", Arguments: map[string]any{"q": "x"}})
		failed := err != nil || res.IsError
		if k.valid && failed {
			c.Violate("valid-output-rejected", "tool maps (input and output both map[string]any, explicit schemas, shared SchemaCache) returned %s; the call failed: %v %s", vh.JSON(k.out), err, vh.JSON(res))
			return
		}
		if !k.valid && !failed {
			c.Violate("invalid-output-returned", "tool maps (input and output both map[string]any, explicit schemas, shared SchemaCache) returned %s, which its output schema forbids; the result was delivered: %s", vh.JSON(k.out), vh.JSON(res))
			return
		}
	}
	type tc struct {
		tool  string
		args  map[string]any
		valid bool
		want  string
	}
	n := r.Intn(50)
	cases := []tc{
		{"a", map[string]any{"alpha": n}, true, fmt.Sprintf("a:%d", n)},
		{"b", map[string]any{"beta": "x", "gamma": true}, true, "b:x:true"},
		{"b", map[string]any{"alpha": 1}, false, ""},
		{"a", map[string]any{"beta": "x"}, false, ""},
		{"b", map[string]any{}, false, ""},
		{"a", map[string]any{}, false, ""},
	}
	r.Shuffle(len(cases), func(i, j int) { cases[i], cases[j] = cases[j], cases[i] })
	// a pointer output type with an inferred schema: a nil pointer stands for the zero value
	for _, ret := range []*c16PtrOut{nil, {Name: "x", N: 3}, nil} {
		ptrRet = ret
		want := c16PtrOut{}
		if ret != nil {
			want = *ret
		}
		res, err := pair.CS.CallTool(ctx, &mcp.CallToolParams{Name: "p", Arguments: map[string]any{}})
		if err != nil || res.IsError {
			c.Violate("valid-output-rejected", "tool p (output type *struct, inferred schema, shared SchemaCache) returned %+v; the call failed: %v %s", ret, err, vh.JSON(res))
			return
		}
		gotSC, _ := json.Marshal(res.StructuredContent)
		wantSC, _ := json.Marshal(want)
		if !jsonEqual(gotSC, wantSC) {
			c.Violate("structured-content-differs", "tool p returned %+v; structured content %s, expected %s", ret, gotSC, wantSC)
			return
		}
	}
	c.SetSpec(map[string]any{"mode": "same-named-types+cache", "n": n})
	for _, k := range cases {
		mu.Lock()
		seen = nil
		mu.Unlock()
		res, err := pair.CS.CallTool(ctx, &mcp.CallToolParams{Name: k.tool, Arguments: k.args})
		mu.Lock()
		got := append([]string(nil), seen...)
		mu.Unlock()
		if k.valid {
			if err != nil || res.IsError || len(got) != 1 || got[0] != k.want {
				c.Violate("valid-input-rejected", "tool %s with valid arguments %s: handler saw %v, result %s err %v (two same-named input types share a schema cache)", k.tool, vh.JSON(k.args), got, vh.JSON(res), err)
				return
			}
		} else if len(got) != 0 || err != nil || !res.IsError {
			c.Violate("handler-saw-invalid-input", "tool %s with invalid arguments %s: handler saw %v, result %s err %v", k.tool, vh.JSON(k.args), got, vh.JSON(res), err)
			return
		}
	}
	c.Count("calls", len(cases))
	c.Nontrivial(fmt.Sprintf("cache:%d:%v", n, cases))
}

// ---- struct input with an explicit schema that admits additional properties: keys differing only by case

type c16Limit struct {
	Path  string `json:"path"`
	Limit int    `json:"limit,omitempty"`
}

func runC16Case(c *vh.Case) {
	r := c.R
	ctx := context.Background()
	var mu sync.Mutex
	var seen []c16Limit
	server := mcp.NewServer(&mcp.Implementation{Name: "s", Version: "1"}, nil)
	limit := map[string]any{"type": "integer", "minimum": 1, "maximum": 100}
	def := 0
	if r.Bool() {
		limit["default"] = 10
		def = 10
	}
	schema := map[string]any{"type": "object", "required": []any{"path"}, "properties": map[string]any{
		"path": map[string]any{"type": "string", "minLength": 1}, "limit": limit}}
	mcp.AddTool(server, &mcp.Tool{Name: "t", InputSchema: schema}, func(ctx context.Context, req *mcp.CallToolRequest, a c16Limit) (*mcp.CallToolResult, any, error) {
		mu.Lock()
		seen = append(seen, a)
		mu.Unlock()
		return nil, nil, nil
	})
	client := mcp.NewClient(&mcp.Implementation{Name: "c", Version: "1"}, nil)
	pair, err := vhm.Connect(ctx, vhm.PairOpts{Kind: "mem", Server: server, Client: client, ClientVersion: "2025-06-18"})
	if err != nil {
		c.Inconclusive("connect: %v", err)
		return
	}
	defer func() { pair.CS.Close(); pair.SS.Wait(); time.Sleep(11 * time.Second) }()
	big := 101 + r.Intn(9000)
	type tc struct {
		args  map[string]any
		valid bool
		want  c16Limit
	}
	cases := []tc{
		{map[string]any{"path": "/tmp"}, true, c16Limit{"/tmp", def}},
		{map[string]any{"path": "/tmp", "limit": 7}, true, c16Limit{"/tmp", 7}},
		{map[string]any{"path": "/tmp", "limit": big}, false, c16Limit{}},
		// additional properties are admitted by this schema; they are not the declared ones
		{map[string]any{"path": "/tmp", "Limit": big}, true, c16Limit{"/tmp", def}},
		{map[string]any{"path": "/tmp", "LIMIT": big, "limit": 5}, true, c16Limit{"/tmp", 5}},
		{map[string]any{"path": "/tmp", "Path": "/etc"}, true, c16Limit{"/tmp", def}},
		{map[string]any{"Path": "/etc"}, false, c16Limit{}},
	}
	r.Shuffle(len(cases), func(i, j int) { cases[i], cases[j] = cases[j], cases[i] })
	c.SetSpec(map[string]any{"mode": "case-variant-keys", "big": big})
	for _, k := range cases {
		mu.Lock()
		seen = nil
		mu.Unlock()
		res, err := pair.CS.CallTool(ctx, &mcp.CallToolParams{Name: "t", Arguments: k.args})
		mu.Lock()
		got := append([]c16Limit(nil), seen...)
		mu.Unlock()
		if k.valid {
			if err != nil || res.IsError || len(got) != 1 {
				c.Violate("valid-input-rejected", "valid arguments %s: handler ran %d time(s), result %s err %v", vh.JSON(k.args), len(got), vh.JSON(res), err)
				return
			}
			if got[0] != k.want {
				c.Violate("handler-input-differs", "arguments %s: the handler received %+v, the validated values are %+v (a key differing only in case is an additional property, not the declared one)", vh.JSON(k.args), got[0], k.want)
				return
			}
		} else if len(got) != 0 || err != nil || !res.IsError {
			c.Violate("handler-saw-invalid-input", "invalid arguments %s: handler saw %v, result %s err %v", vh.JSON(k.args), got, vh.JSON(res), err)
			return
		}
	}
	c.Count("calls", len(cases))
	c.Nontrivial(fmt.Sprintf("case:%d", big))
}

// ---- edge shapes: arguments that are not a JSON object, and pointer output types whose handler returns nil

type c16EdgeIn struct {
	Limit int    `json:"limit,omitempty"`
	Path  string `json:"path,omitempty"`
}

type c16EdgeOut struct {
	Status string `json:"status"`
	Count  int    `json:"count"`
}

func runC16Edge(c *vh.Case) {
	r := c.R
	ctx := context.Background()
	var mu sync.Mutex
	invoked := map[string]int{}
	var next *c16EdgeOut
	server := mcp.NewServer(&mcp.Implementation{Name: "s", Version: "1"}, nil)
	// no required property: the empty object is valid, which is what makes a silently substituted {} dangerous
	mcp.AddTool(server, &mcp.Tool{Name: "opt"}, func(ctx context.Context, req *mcp.CallToolRequest, a c16EdgeIn) (*mcp.CallToolResult, any, error) {
		mu.Lock()
		invoked["opt"]++
		mu.Unlock()
		return nil, nil, nil
	})
	// the same with a schema default: absent or null arguments stand for {}, which the default completes
	var defSeen []int
	mcp.AddTool(server, &mcp.Tool{Name: "optdef", InputSchema: json.RawMessage(`{"type":"object","properties":{"limit":{"type":"integer","default":3},"path":{"type":"string"}}}`)}, func(ctx context.Context, req *mcp.CallToolRequest, a c16EdgeIn) (*mcp.CallToolResult, any, error) {
		mu.Lock()
		invoked["optdef"]++
		defSeen = append(defSeen, a.Limit)
		mu.Unlock()
		return nil, nil, nil
	})
	withDefault := r.Bool()
	outSchema := map[string]any{"type": "object", "required": []any{"status", "count"}, "properties": map[string]any{
		"status": map[string]any{"type": "string", "enum": []any{"ok", "failed"}}, "count": map[string]any{"type": "integer", "minimum": 1}}}
	if withDefault {
		outSchema["properties"].(map[string]any)["note"] = map[string]any{"type": "string", "default": "n/a"}
	}
	mcp.AddTool(server, &mcp.Tool{Name: "ptr", OutputSchema: outSchema}, func(ctx context.Context, req *mcp.CallToolRequest, a c16EdgeIn) (*mcp.CallToolResult, *c16EdgeOut, error) {
		mu.Lock()
		defer mu.Unlock()
		invoked["ptr"]++
		return nil, next, nil
	})
	client := mcp.NewClient(&mcp.Implementation{Name: "c", Version: "1"}, nil)
	pair, err := vhm.Connect(ctx, vhm.PairOpts{Kind: "mem", Server: server, Client: client, ClientVersion: r.Choose("2025-06-18", "2025-11-25", "")})
	if err != nil {
		c.Inconclusive("connect: %v", err)
		return
	}
	cs := pair.CS
	var calls []any
	defer func() {
		c.SetSpec(map[string]any{"gen": "edge", "output_default": withDefault, "calls": calls})
		cs.Close()
		pair.SS.Wait()
		time.Sleep(11 * time.Second)
	}()
	rejected, accepted := 0, 0
	for k, n := 0, r.Range(3, 8); k < n && !c.Violated(); k++ {
		if r.Bool() {
			// arguments of every JSON kind; only an object (or absent arguments) can be valid
			var args any
			kind := r.Choose("array", "string", "number", "bool", "object", "object-bad", "absent", "nested-array", "null", "null")
			tool := r.Choose("opt", "optdef")
			switch kind {
			case "null":
				args = json.RawMessage("null")
			case "array":
				args = []any{1, 2, 3}
			case "nested-array":
				args = []any{map[string]any{"limit": 3}}
			case "string":
				args = "limit=3"
			case "number":
				args = 42
			case "bool":
				args = true
			case "object":
				args = map[string]any{"limit": r.Range(0, 9)}
			case "object-bad":
				args = map[string]any{"limit": "three"}
			case "absent":
				args = nil
			}
			calls = append(calls, map[string]any{"tool": tool, "arguments_kind": kind, "arguments": args})
			mu.Lock()
			invoked[tool] = 0
			defSeen = nil
			mu.Unlock()
			res, err := cs.CallTool(ctx, &mcp.CallToolParams{Name: tool, Arguments: args})
			mu.Lock()
			n := invoked[tool]
			seenDef := append([]int(nil), defSeen...)
			mu.Unlock()
			valid := kind == "object" || kind == "absent"
			if tool == "optdef" && n == 1 && (kind == "absent" || kind == "null") && seenDef[0] != 3 {
				c.Violate("handler-input-differs", "tool optdef (limit defaults to 3) called with %s arguments: the handler saw limit=%d", kind, seenDef[0])
			}
			if kind == "null" {
				// null arguments: a tool error without running the handler, or the same as absent arguments
				if !(n == 0 && err == nil && res.IsError) && !(n == 1 && err == nil && !res.IsError) {
					c.Violate("invalid-input-accepted", "tool %s called with \"arguments\": null: handler ran %d time(s), err %v, result %s", tool, n, err, vh.JSON(res))
				}
				accepted++
				continue
			}
			switch {
			case valid && (n != 1 || err != nil || res.IsError):
				c.Violate("valid-input-rejected", "tool %s, arguments %s (%s): handler ran %d time(s), err %v result %s", tool, vh.JSON(args), kind, n, err, vh.JSON(res))
			case !valid && n != 0:
				c.Violate("handler-saw-invalid-input", "tool %s declares an object input; arguments %s (%s) are not valid, yet the handler ran", tool, vh.JSON(args), kind)
			case !valid && err == nil && !res.IsError:
				c.Violate("invalid-input-accepted", "arguments %s (%s) produced a non-error result %s", vh.JSON(args), kind, vh.JSON(res))
			}
			if valid {
				accepted++
			} else {
				rejected++
			}
			continue
		}
		kind := r.Choose("nil", "nil", "valid", "bad-enum", "bad-min", "zero")
		mu.Lock()
		switch kind {
		case "nil":
			next = nil
		case "valid":
			next = &c16EdgeOut{Status: r.Choose("ok", "failed"), Count: r.Range(1, 50)}
		case "bad-enum":
			next = &c16EdgeOut{Status: "maybe", Count: 3}
		case "bad-min":
			next = &c16EdgeOut{Status: "ok", Count: 0}
		case "zero":
			next = &c16EdgeOut{}
		}
		mu.Unlock()
		calls = append(calls, map[string]any{"tool": "ptr", "handler_output": kind})
		res, err := cs.CallTool(ctx, &mcp.CallToolParams{Name: "ptr", Arguments: map[string]any{}})
		if kind == "valid" {
			accepted++
			if err != nil || res.IsError {
				c.Violate("valid-output-rejected", "handler returned a valid *Out, the call failed: %v %s", err, vh.JSON(res))
			}
			continue
		}
		rejected++
		// whatever the SDK makes of a nil/zero/invalid output: a successful result must carry schema-valid structured content
		if err == nil && !res.IsError {
			b, _ := json.Marshal(res.StructuredContent)
			var m map[string]any
			json.Unmarshal(b, &m)
			st, _ := m["status"].(string)
			cnt, _ := m["count"].(float64)
			if m == nil || (st != "ok" && st != "failed") || cnt < 1 {
				c.Violate("invalid-output-returned", "handler output %q: the successful result carries structured content %s, which violates the output schema (status in {ok,failed}, count >= 1)", kind, b)
			}
		}
	}
	c.Count("edge_calls", len(calls))
	if accepted >= 1 && rejected >= 1 {
		c.Nontrivial("edge:" + vh.JSON(calls))
	}
}
