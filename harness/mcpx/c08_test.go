//go:build verif

// C08 — server-side stream resumption is exactly-once, in order, with stable event ids.
//
// A raw HTTP client (no SDK code on the client side) talks to a real
// StreamableHTTPHandler configured with an EventStore that is wrapped by a
// ground-truth recorder. A tool emits numbered notifications at fixed virtual
// instants and then its result; the exchange is cut at an arbitrary instant and
// resumed with Last-Event-ID one or more times, each resume being cut again.
// Every event of every exchange is checked against two independent truths: the
// recorder's append log per stream and the tool's own emission log.
package mcpx

import (
	"context"
	"encoding/json"
	"fmt"
	"iter"
	"net/http"
	"runtime"
	"slices"
	"strconv"
	"strings"
	"sync"
	"testing"
	"time"

	"github.com/modelcontextprotocol/go-sdk/internal/verifharness/vh"
	"github.com/modelcontextprotocol/go-sdk/internal/verifharness/vhm"
	"github.com/modelcontextprotocol/go-sdk/mcp"
)

type c08Resume struct {
	GapMs int `json:"gap_ms"` // pause before resuming
	CutMs int `json:"cut_ms"` // cut this exchange after so many ms (-1: read to the end)
	Back  int `json:"back"`   // 0: resume from the last id received; n>0: from the id n events earlier (replay)
	// HalfOpenMs: the exchange that this resume follows stays attached, from the server's point of view, for this
	// long after the client abandoned it (0: the server notices at once). Resumes answered 409 are repeated.
	HalfOpenMs int `json:"half_open_ms,omitempty"`
	// Fresh (standalone stream only): the GET carries no Last-Event-ID although events have been received (a client
	// that lost its cursor, a second window). What it is served is not fixed by a resume point, but every id it sees
	// must denote the message the store holds at that index, and later resumes from those ids must be exact.
	Fresh bool `json:"fresh,omitempty"`
}

type c08Spec struct {
	Version    string      `json:"version"` // 2025-06-18 (no priming) | 2025-11-25 (priming) | 2025-03-26 (with Batch)
	Stream     string      `json:"stream"`  // request | standalone
	K          int         `json:"k"`       // notifications emitted
	GapMs      int         `json:"emit_gap_ms"`
	FirstCutMs int         `json:"first_cut_ms"`
	Resumes    []c08Resume `json:"resumes"`
	MaxBytes   int         `json:"max_bytes,omitempty"` // >0: small event store, early events get purged
	Pad        int         `json:"pad,omitempty"`
	Noise      bool        `json:"noise,omitempty"` // a second session shares the event store and is notified in between
	JSON       bool        `json:"json,omitempty"`  // JSONResponse mode (standalone stream scenarios only)
	// Pings: before emission j (1..K; K+1: before the result) the server pings the client on the stream under test and
	// waits up to 3 ms for the answer. The client answers every ping it reads; one that goes unanswered is cancelled.
	Pings []int `json:"pings,omitempty"`
	// DeadCtx: notifications j that the server sends with a context that is already cancelled. A write that returns
	// nil is a write like any other; one that returns an error is not counted as emitted.
	DeadCtx []int `json:"dead_ctx,omitempty"`
	// Batch (request stream, protocol 2025-03-26): the POST is a JSON-RPC batch of the emit call and a second call
	// that is answered after BatchAtMs (+0.5), so that one logical stream carries two requests and two responses.
	Batch     bool `json:"batch,omitempty"`
	BatchAtMs int  `json:"batch_at_ms,omitempty"`
}

func genC08(r *vh.Rand) c08Spec {
	s := c08Spec{Version: r.Choose("2025-06-18", "2025-11-25", "2025-11-25"), Stream: r.Choose("request", "request", "standalone"), K: r.Range(0, 6), GapMs: r.Choose2(10, 4)}
	s.FirstCutMs = r.Intn(s.K*s.GapMs + 12)
	if r.Chance(1, 8) {
		s.FirstCutMs = -1
	}
	for i, n := 0, r.Range(1, 4); i < n; i++ {
		rs := c08Resume{GapMs: r.Intn(25), CutMs: r.Intn(40)}
		if r.Chance(1, 4) {
			rs.CutMs = -1
		}
		if r.Chance(1, 4) {
			rs.Back = r.Range(1, 3)
		}
		s.Resumes = append(s.Resumes, rs)
	}
	if s.Stream == "standalone" && r.Chance(1, 3) {
		s.Resumes[r.Intn(len(s.Resumes))].Fresh = true
		s.Resumes = append(s.Resumes, c08Resume{GapMs: r.Intn(25), CutMs: r.Intn(40)}) // and a resume from what that brought
	}
	if r.Chance(1, 5) {
		for i := range s.Resumes {
			if r.Bool() {
				s.Resumes[i].HalfOpenMs = r.Range(1, 30)
			}
		}
	}
	if r.Chance(1, 6) {
		s.Pad = 900
		s.MaxBytes = r.Range(2, 5) * 1000
	}
	if r.Chance(1, 8) {
		// the request under test is initialize itself (its answer must be resumable like any other)
		s.Stream, s.Version, s.K = "initialize", "2025-11-25", 0
		s.FirstCutMs = 1 + r.Intn(s.GapMs+2) // not at instant 0: whether the session counts as initialized then is a same-instant race
	}
	s.Noise = r.Chance(1, 3)
	if s.MaxBytes > 0 && r.Bool() {
		s.Noise = true // a store at its limit is most interesting when another session's appends do the purging
	}
	if s.Stream == "standalone" && r.Chance(1, 3) {
		s.JSON = true
	}
	// round 9 (drawn last: everything above is as it was)
	if s.Stream != "initialize" && r.Chance(1, 4) {
		for j := 1; j <= s.K+1; j++ {
			if r.Chance(1, 3) {
				s.Pings = append(s.Pings, j)
			}
		}
	}
	if s.K > 0 && r.Chance(1, 4) {
		for j := 1; j <= s.K; j++ {
			if r.Chance(1, 3) {
				s.DeadCtx = append(s.DeadCtx, j)
			}
		}
	}
	if s.Stream == "request" && r.Chance(1, 6) {
		s.Version, s.Batch = "2025-03-26", true
		s.BatchAtMs = r.Intn((s.K+1)*s.GapMs + 8)
	}
	return s
}

// recStore wraps an EventStore and records, per (session, stream), what was appended.
type recStore struct {
	inner  mcp.EventStore
	mu     sync.Mutex
	log    map[string][][]byte
	at     map[string][]time.Time // virtual instant of every append
	opened []string
}

func (s *recStore) Open(ctx context.Context, sid, stream string) error {
	s.mu.Lock()
	s.opened = append(s.opened, stream)
	s.mu.Unlock()
	return s.inner.Open(ctx, sid, stream)
}

// lastStream is the id of the most recently opened request stream.
func (s *recStore) lastStream() string {
	s.mu.Lock()
	defer s.mu.Unlock()
	for i := len(s.opened) - 1; i >= 0; i-- {
		if s.opened[i] != "" {
			return s.opened[i]
		}
	}
	return ""
}
func (s *recStore) Append(ctx context.Context, sid, stream string, data []byte) error {
	err := s.inner.Append(ctx, sid, stream, data)
	if err == nil {
		s.mu.Lock()
		s.log[sid+"/"+stream] = append(s.log[sid+"/"+stream], append([]byte(nil), data...))
		if s.at == nil {
			s.at = map[string][]time.Time{}
		}
		s.at[sid+"/"+stream] = append(s.at[sid+"/"+stream], time.Now())
		s.mu.Unlock()
	}
	return err
}
func (s *recStore) After(ctx context.Context, sid, stream string, idx int) iter.Seq2[[]byte, error] {
	// A store is allowed to be slow: take the snapshot, then let every goroutine that is
	// runnable at this instant (e.g. a handler writing to this very stream) run before the
	// caller sees the result. Yields only, no timers: a writer correctly blocked on the
	// stream's mutex must not stop the bubble's clock.
	return func(yield func([]byte, error) bool) {
		var items [][]byte
		var ferr error
		for d, err := range s.inner.After(ctx, sid, stream, idx) {
			if err != nil {
				ferr = err
				break
			}
			items = append(items, d)
		}
		for i := 0; i < 30; i++ {
			runtime.Gosched()
		}
		for _, d := range items {
			if !yield(d, nil) {
				return
			}
		}
		if ferr != nil {
			yield(nil, ferr)
		}
	}
}
func (s *recStore) SessionClosed(ctx context.Context, sid string) error {
	return s.inner.SessionClosed(ctx, sid)
}
func (s *recStore) truth(sid, stream string) [][]byte {
	s.mu.Lock()
	defer s.mu.Unlock()
	return append([][]byte(nil), s.log[sid+"/"+stream]...)
}

func (s *recStore) times(sid, stream string) []time.Time {
	s.mu.Lock()
	defer s.mu.Unlock()
	return append([]time.Time(nil), s.at[sid+"/"+stream]...)
}

type c08Exchange struct {
	Attached time.Time     `json:"-"` // when the 200 arrived
	Ended    time.Time     `json:"-"` // when the client stopped reading (cut or end of body)
	Kind     string        `json:"kind"`
	LEID     string        `json:"last_event_id,omitempty"`
	Status   int           `json:"status"`
	Events   []vhm.SSEvent `json:"events"`
	EOF      bool          `json:"eof"`
	SID      string        `json:"-"`
}

func TestVerifC08(t *testing.T) {
	cfg := vh.Config{
		Property: "C08",
		Cases:    vh.Pick(2000, 80000),
		Rule: "each case: raw HTTP client vs StreamableHTTPHandler+recorded EventStore; a tool emits K in 0..6 numbered notifications every 4 or 10 ms and then its result (or, standalone stream, the server notifies out of band); the first exchange is cut at an instant in [0, K*gap+12) ms, " +
			"then 1..4 resumes with Last-Event-ID = last id received (or an id up to 3 events earlier), each after a pause of 0..24 ms and cut again after 0..39 ms; protocol 2025-06-18 (no priming) or 2025-11-25 (priming); 1/6 with a 2-5 kB store so that early events are purged; " +
			"1/4 with server pings on the stream (answered by the client when it reads them, else cancelled after 3 ms), 1/4 with notifications written under an already cancelled context, 1/6 of the request streams a 2025-03-26 batch of two calls; " +
			"finally every id ever received is resumed to the end. non-trivial: >=1 cut exchange followed by a resume that replayed >=1 event and >=1 message written while no exchange was attached. distinct = distinct (version, stream, K, cut/resume pattern)",
		MinNontrivial: 100,
		Assumptions:   []string{"only event ids previously issued on that stream are presented", "a resume that hits purged events may be refused (HTTP 400) instead of replayed", "cuts coinciding with an emission instant may or may not include that event; the oracle follows what was actually received"},
	}
	vh.Run(t, cfg, func(c *vh.Case) {
		spec := genC08(c.R)
		c.SetSpec(spec)
		c.Bubble("", func() { runC08(c, spec) })
	})
}

func parseEID(id string) (stream string, idx int, ok bool) {
	i := strings.LastIndexByte(id, '_')
	if i < 0 {
		return "", 0, false
	}
	n, err := strconv.Atoi(id[i+1:])
	return id[:i], n, err == nil
}

func runC08(c *vh.Case, spec c08Spec) {
	log := c.Log
	ctx := context.Background()
	isReq := spec.Stream == "request" || spec.Stream == "initialize"
	mem := mcp.NewMemoryEventStore(nil)
	if spec.MaxBytes > 0 {
		mem.SetMaxBytes(spec.MaxBytes)
	}
	store := &recStore{inner: mem, log: map[string][][]byte{}}
	pad := strings.Repeat("p", spec.Pad)
	var emitted []string // tool's own emission log
	var emu sync.Mutex
	server := mcp.NewServer(&mcp.Implementation{Name: "s", Version: "1"}, nil)
	var ssRef *mcp.ServerSession
	// ping: a server->client request on the stream; answered at once when the client reads it, given up after 3 ms
	ping := func(ctx context.Context, ss *mcp.ServerSession, j int) {
		if !slices.Contains(spec.Pings, j) {
			return
		}
		pctx, cancel := context.WithTimeout(ctx, ms(3))
		defer cancel()
		err := ss.Ping(pctx, nil)
		log.Add("ping", "before", j, "err", fmt.Sprint(err))
	}
	// notify emits notification j; with a dead context it counts only if the write was accepted
	notify := func(ctx context.Context, ss *mcp.ServerSession, j int) {
		msg := fmt.Sprintf("n%d%s", j, pad)
		dead := slices.Contains(spec.DeadCtx, j)
		if dead {
			var giveUp context.CancelFunc
			ctx, giveUp = context.WithCancel(ctx)
			giveUp()
		}
		emu.Lock()
		emitted = append(emitted, msg)
		emu.Unlock()
		log.Add("emit", "j", j, "dead_ctx", dead)
		err := ss.NotifyProgress(ctx, &mcp.ProgressNotificationParams{ProgressToken: "tok", Progress: float64(j), Message: msg})
		if dead && err != nil {
			emu.Lock()
			if i := slices.Index(emitted, msg); i >= 0 {
				emitted = slices.Delete(emitted, i, i+1)
			}
			emu.Unlock()
			log.Add("emit-refused", "j", j, "err", err.Error())
			c.Count("writes_with_a_cancelled_context_refused", 1)
		} else if dead {
			c.Count("writes_with_a_cancelled_context", 1)
		}
	}
	server.AddTool(&mcp.Tool{Name: "emit", InputSchema: json.RawMessage(`{"type":"object"}`)}, func(ctx context.Context, req *mcp.CallToolRequest) (*mcp.CallToolResult, error) {
		for j := 1; j <= spec.K; j++ {
			time.Sleep(ms(spec.GapMs))
			ping(ctx, req.Session, j)
			notify(ctx, req.Session, j)
		}
		time.Sleep(ms(spec.GapMs))
		ping(ctx, req.Session, spec.K+1)
		emu.Lock()
		emitted = append(emitted, "result")
		emu.Unlock()
		log.Add("emit", "j", "result")
		return &mcp.CallToolResult{Content: []mcp.Content{&mcp.TextContent{Text: "result" + pad}}}, nil
	})
	// the second call of a batch: no notifications, its answer after BatchAtMs and half a millisecond, which is never
	// an emission instant of the first (what the stream holds must have one order)
	server.AddTool(&mcp.Tool{Name: "quick", InputSchema: json.RawMessage(`{"type":"object"}`)}, func(ctx context.Context, req *mcp.CallToolRequest) (*mcp.CallToolResult, error) {
		time.Sleep(ms(spec.BatchAtMs) + 500*time.Microsecond)
		emu.Lock()
		emitted = append(emitted, "result2")
		emu.Unlock()
		log.Add("emit", "j", "result2")
		return &mcp.CallToolResult{Content: []mcp.Content{&mcp.TextContent{Text: "result2" + pad}}}, nil
	})
	if spec.Stream == "initialize" {
		server.AddReceivingMiddleware(func(next mcp.MethodHandler) mcp.MethodHandler {
			return func(ctx context.Context, method string, req mcp.Request) (mcp.Result, error) {
				res, err := next(ctx, method, req)
				if method == "initialize" {
					if info := req.GetParams().(*mcp.InitializeParams); info != nil && info.ClientInfo != nil && info.ClientInfo.Name == "raw" {
						// the session is initialized; its answer is held back, so the stream can be cut
						// between the priming event and the answer
						time.Sleep(ms(spec.GapMs))
						emu.Lock()
						emitted = append(emitted, "result")
						emu.Unlock()
						log.Add("emit", "j", "result")
					}
				}
				return res, err
			}
		})
	}
	h := mcp.NewStreamableHTTPHandler(func(*http.Request) *mcp.Server { return server }, &mcp.StreamableHTTPOptions{EventStore: store, JSONResponse: spec.JSON})
	ip := &vhm.InProc{Handler: h}
	t0v := time.Now()
	hdr := map[string]string{"Content-Type": "application/json", "Accept": "application/json, text/event-stream"}
	initMsg := fmt.Sprintf(`{"jsonrpc":"2.0","id":"init","method":"initialize","params":{"protocolVersion":%q,"capabilities":{},"clientInfo":{"name":"raw","version":"0"}}}`, spec.Version)
	sid := ""
	if spec.Stream != "initialize" {
		st, rh, _, err := ip.Do(ctx, "POST", "http://example.test/mcp", hdr, []byte(initMsg))
		if err != nil || st != 200 {
			c.Inconclusive("initialize: %d %v", st, err)
			return
		}
		sid = rh.Get("Mcp-Session-Id")
		hdr["Mcp-Session-Id"] = sid
		hdr["Mcp-Protocol-Version"] = spec.Version
		ip.Do(ctx, "POST", "http://example.test/mcp", hdr, []byte(`{"jsonrpc":"2.0","method":"notifications/initialized"}`))
		for ss := range server.Sessions() {
			ssRef = ss
		}
	}
	noiseDone := make(chan struct{})
	closeNoise := func() {}
	if spec.Noise {
		// session B: same handler, same event store; it never attaches a stream, so everything sent to it is stored
		hb := map[string]string{"Content-Type": "application/json", "Accept": "application/json, text/event-stream"}
		st, rhb, _, err := ip.Do(ctx, "POST", "http://example.test/mcp", hb, []byte(strings.Replace(strings.Replace(initMsg, `"init"`, `"initb"`, 1), `"name":"raw"`, `"name":"noise"`, 1)))
		if err != nil || st != 200 {
			c.Inconclusive("initialize B: %d %v", st, err)
			return
		}
		hb["Mcp-Session-Id"] = rhb.Get("Mcp-Session-Id")
		hb["Mcp-Protocol-Version"] = spec.Version
		ip.Do(ctx, "POST", "http://example.test/mcp", hb, []byte(`{"jsonrpc":"2.0","method":"notifications/initialized"}`))
		closeNoise = func() {
			<-noiseDone
			ip.Do(ctx, "DELETE", "http://example.test/mcp", hb, nil)
		}
		var ssB *mcp.ServerSession
		for ss := range server.Sessions() {
			if ss != ssRef {
				ssB = ss
			}
		}
		go func() {
			defer close(noiseDone)
			if ssB == nil {
				return
			}
			time.Sleep(ms(spec.GapMs) / 2)
			for j := 1; j <= spec.K+3; j++ {
				ssB.NotifyProgress(ctx, &mcp.ProgressNotificationParams{ProgressToken: "tokB", Progress: float64(j), Message: fmt.Sprintf("FOREIGN-b%d", j)})
				time.Sleep(ms(spec.GapMs))
			}
		}()
	} else {
		close(noiseDone)
	}

	// answerPing: a client answers the pings it reads (each once, also when it reads them in a replay)
	answered := map[string]bool{}
	answerPing := func(e vhm.SSEvent) {
		var m struct {
			ID     json.RawMessage `json:"id"`
			Method string          `json:"method"`
		}
		if len(spec.Pings) == 0 || json.Unmarshal([]byte(e.Data), &m) != nil || m.Method != "ping" || len(m.ID) == 0 || answered[string(m.ID)] {
			return
		}
		answered[string(m.ID)] = true
		c.Count("server_pings_answered_by_the_client", 1)
		st, _, _, _ := ip.Do(ctx, "POST", "http://example.test/mcp", hdr, []byte(fmt.Sprintf(`{"jsonrpc":"2.0","id":%s,"result":{}}`, m.ID)))
		log.Add("ping-answered", "id", string(m.ID), "status", st)
	}
	// exchange performs one HTTP exchange and reads complete SSE events until it is cut or the body ends.
	exchange := func(method, leid, body string, cutMs int) c08Exchange {
		ex := c08Exchange{Kind: method, LEID: leid}
		ectx, cancel := context.WithCancel(ctx)
		defer cancel()
		hh := map[string]string{}
		for k, v := range hdr {
			hh[k] = v
		}
		if method == "GET" {
			delete(hh, "Content-Type")
			hh["Accept"] = "text/event-stream"
			if leid != "" {
				hh["Last-Event-ID"] = leid
			}
		}
		req, _ := http.NewRequestWithContext(ectx, method, "http://example.test/mcp", strings.NewReader(body))
		for k, v := range hh {
			req.Header.Set(k, v)
		}
		if cutMs >= 0 {
			go func() {
				select {
				case <-time.After(ms(cutMs)):
					cancel()
				case <-ectx.Done():
				}
			}()
		}
		resp, err := ip.RoundTrip(req)
		if err != nil {
			ex.Status = -1
			return ex
		}
		ex.Status = resp.StatusCode
		ex.Attached = time.Now()
		ex.SID = resp.Header.Get("Mcp-Session-Id")
		if resp.StatusCode != 200 {
			resp.Body.Close()
			log.Add("exchange", "kind", method, "leid", leid, "events", 0, "eof", false, "status", ex.Status)
			return ex
		}
		rerr := vhm.ReadSSE(resp.Body, func(e vhm.SSEvent) {
			ex.Events = append(ex.Events, e)
			answerPing(e)
		})
		ex.EOF = rerr == nil && ectx.Err() == nil
		ex.Ended = time.Now()
		resp.Body.Close()
		log.Add("exchange", "kind", method, "leid", leid, "events", len(ex.Events), "eof", ex.EOF, "status", ex.Status)
		return ex
	}

	// The server grants replay rights exclusively; right after a cut (or after an error status was
	// read) the previous server-side handler may not have let go yet: 409 means "try again".
	// half-open connections: how long the server keeps the exchange that is started next after its client left
	lingerNext, lingerNow := 0, 0
	var lingerUntil time.Time
	_ = lingerNow
	ip.Linger = func(*http.Request) time.Duration { return ms(lingerNext) }
	if len(spec.Resumes) > 0 {
		lingerNext = spec.Resumes[0].HalfOpenMs
	}
	exchange1 := exchange
	exchange = func(method, leid, body string, cutMs int) c08Exchange {
		lg := lingerNext
		ex := exchange1(method, leid, body, cutMs)
		for i := 0; ex.Status == http.StatusConflict && (i < 3 || time.Now().Before(lingerUntil.Add(ms(2)))); i++ {
			time.Sleep(ms(1))
			ex = exchange1(method, leid, body, cutMs)
		}
		if lg > 0 && ex.Status == 200 {
			if u := time.Now().Add(ms(lg)); u.After(lingerUntil) {
				lingerUntil = u // the server keeps this exchange until then
			}
		}
		return ex
	}
	var exs []c08Exchange
	var streamID string
	totalMs := (spec.K+1)*spec.GapMs + 5 + 3*len(spec.Pings) + spec.BatchAtMs
	bgDone := make(chan struct{})
	if spec.Stream == "initialize" {
		ex0 := exchange("POST", "", initMsg, spec.FirstCutMs)
		exs = append(exs, ex0)
		close(bgDone)
		if ex0.SID == "" {
			// cut before the response headers: the client knows no session and no stream to resume
			time.Sleep(ms(totalMs + 40))
			closeNoise()
			for ss := range server.Sessions() {
				ss.Close()
			}
			ip.Wait()
			time.Sleep(11 * time.Second)
			return
		}
		sid = ex0.SID
		hdr["Mcp-Session-Id"] = sid
		hdr["Mcp-Protocol-Version"] = spec.Version
	} else if isReq {
		body := `{"jsonrpc":"2.0","id":7,"method":"tools/call","params":{"name":"emit","arguments":{}}}`
		if spec.Batch {
			c.Count("batches_of_two_calls", 1)
			body = `[` + body + `,{"jsonrpc":"2.0","id":8,"method":"tools/call","params":{"name":"quick","arguments":{}}}]`
		}
		exs = append(exs, exchange("POST", "", body, spec.FirstCutMs))
		close(bgDone)
	} else {
		// standalone stream: the server notifies out of band at the same instants
		go func() {
			defer close(bgDone)
			for j := 1; j <= spec.K; j++ {
				time.Sleep(ms(spec.GapMs))
				ping(ctx, ssRef, j)
				notify(ctx, ssRef, j)
			}
			if slices.Contains(spec.Pings, spec.K+1) {
				time.Sleep(ms(spec.GapMs))
				ping(ctx, ssRef, spec.K+1)
			}
		}()
		fc := spec.FirstCutMs
		if fc < 0 {
			fc = totalMs + 5
		}
		exs = append(exs, exchange("GET", "", "", fc))
	}
	seenIDs := []string{}
	note := func(ex c08Exchange) {
		for _, e := range ex.Events {
			if e.ID != "" {
				seenIDs = append(seenIDs, e.ID)
				if s, _, ok := parseEID(e.ID); ok {
					streamID = s
				}
			}
		}
	}
	note(exs[0])
	followed := true // the client has so far always resumed from the last id it received
	replayed, detachedWrites := 0, 0
	for ri, rs := range spec.Resumes {
		lingerNow, lingerNext = rs.HalfOpenMs, 0
		if ri+1 < len(spec.Resumes) {
			lingerNext = spec.Resumes[ri+1].HalfOpenMs
		}
		if rs.HalfOpenMs > 0 {
			c.Count("resumes_while_previous_exchange_half_open", 1)
		}
		time.Sleep(ms(rs.GapMs))
		if len(seenIDs) == 0 {
			if spec.Stream == "standalone" {
				// nothing received yet: a fresh GET is all a client can do (events in between may be missed)
				followed = false
				if rs.CutMs < 0 {
					rs.CutMs = 30
				}
				exs = append(exs, exchange("GET", "", "", rs.CutMs))
				note(exs[len(exs)-1])
			}
			continue
		}
		if spec.Stream == "standalone" && rs.CutMs < 0 {
			rs.CutMs = 30 // the standalone stream never ends by itself
		}
		last := seenIDs[len(seenIDs)-1]
		leid := last
		if rs.Fresh && spec.Stream == "standalone" {
			followed = false
			c.Count("fresh_gets_on_a_stream_with_history", 1)
			ex := exchange("GET", "", "", rs.CutMs)
			exs = append(exs, ex)
			note(ex)
			continue
		}
		if rs.Back > 0 {
			_, li, _ := parseEID(last)
			b := min(rs.Back, li)
			leid = fmt.Sprintf("%s_%d", streamID, li-b)
			if b > 0 {
				followed = false
			}
		}
		before := len(store.truth(sid, streamID))
		_ = before
		ex := exchange("GET", leid, "", rs.CutMs)
		exs = append(exs, ex)
		note(ex)
	}
	lingerNow, lingerNext = 0, 0
	time.Sleep(ms(totalMs + 40))
	<-bgDone
	// final: follow to the end, then replay from every id ever received
	if len(seenIDs) > 0 && isReq {
		ex := exchange("GET", seenIDs[len(seenIDs)-1], "", -1)
		exs = append(exs, ex)
		note(ex)
	}
	emu.Lock()
	nEmitted := len(emitted)
	emu.Unlock()
	if isReq && nEmitted == 0 {
		// the POST was cut before the server ever saw the request: nothing to decide
		closeNoise()
		ip.Do(ctx, "DELETE", "http://example.test/mcp", hdr, nil)
		ip.Wait()
		time.Sleep(11 * time.Second)
		return
	}
	if isReq {
		if ls := store.lastStream(); streamID == "" {
			streamID = ls
		} else if ls != streamID {
			c.Violate("foreign-event-id", "events carried stream id %q but the request's stream is %q", streamID, ls)
			return
		}
	}
	truth := store.truth(sid, streamID)
	finals := map[string]c08Exchange{}
	if isReq {
		uniq := map[string]bool{}
		for _, id := range seenIDs {
			if !uniq[id] {
				uniq[id] = true
				finals[id] = exchange("GET", id, "", -1)
			}
		}
	}
	closeNoise()
	ip.Do(ctx, "DELETE", "http://example.test/mcp", hdr, nil)
	ip.Wait()
	time.Sleep(11 * time.Second)

	// ------------------------------------------------------------ oracle
	if streamID == "" && spec.Stream == "standalone" {
		streamID = ""
	}
	dataOf := func(i int) (string, bool) {
		if i < 0 || i >= len(truth) {
			return "", false
		}
		return string(truth[i]), true
	}
	purgedSeen := false
	check := func(ex c08Exchange, what string) bool {
		if ex.Status == 400 && spec.MaxBytes > 0 && ex.Kind == "GET" {
			purgedSeen = true
			return true // purged events: refusal is allowed
		}
		if ex.Status != 200 {
			if ex.Status == -1 {
				return true // cut before the response headers
			}
			c.Violate("resume-refused", "%s: %s with Last-Event-ID %q answered HTTP %d", what, ex.Kind, ex.LEID, ex.Status)
			return false
		}
		next := 0
		if ex.LEID != "" {
			_, li, ok := parseEID(ex.LEID)
			if !ok {
				return true
			}
			next = li + 1
		}
		first := true
		for _, e := range ex.Events {
			if e.ID == "" {
				if e.Data != "" && e.Name != "" && e.Name != "message" {
					continue
				}
				if e.Data == "" {
					continue
				}
				c.Violate("event-without-id", "%s: event %q carries no id although an event store is configured", what, trunc80(e.Data))
				return false
			}
			s, i, ok := parseEID(e.ID)
			if !ok || (streamID != "" && s != streamID) {
				c.Violate("foreign-event-id", "%s: event id %q does not belong to stream %q", what, e.ID, streamID)
				return false
			}
			if first && ex.Kind == "GET" && ex.LEID == "" {
				next = i // a fresh standalone GET starts wherever the stream is
			}
			first = false
			if i != next {
				// the store may skip zero-length (priming) entries on replay
				for next < i {
					if d, ok := dataOf(next); ok && len(d) == 0 {
						next++
						continue
					}
					break
				}
			}
			if i != next {
				c.Violate("event-id-gap-or-repeat", "%s: expected event index %d, got id %q (resumed after %q)", what, next, e.ID, ex.LEID)
				return false
			}
			want, ok := dataOf(i)
			if !ok {
				c.Violate("event-id-beyond-log", "%s: event id %q but only %d messages were ever written to the stream", what, e.ID, len(truth))
				return false
			}
			if e.Name == "prime" {
				if want != "" {
					c.Violate("event-id-unstable", "%s: id %q is a priming event here but denotes message %s in the stream", what, e.ID, trunc80(want))
					return false
				}
			} else if e.Data != want {
				c.Violate("event-id-unstable", "%s: id %q delivered %s but index %d of the stream is %s", what, e.ID, trunc80(e.Data), i, trunc80(want))
				return false
			}
			next = i + 1
		}
		return true
	}
	appendAt := store.times(sid, streamID)
	for k, ex := range exs {
		if !check(ex, fmt.Sprintf("exchange %d", k)) {
			return
		}
		// an exchange that was attached (answered 200) receives what is written to its stream while it is attached:
		// every message stored strictly before the client stopped reading, and after the attach, must be there
		if ex.Status == 200 && !ex.Attached.IsZero() && !(k == 0 && spec.Stream == "initialize") {
			hi := -1
			for _, e := range ex.Events {
				if _, i, ok := parseEID(e.ID); ok && i > hi {
					hi = i
				}
			}
			for i, at := range appendAt {
				if i > hi && len(truth[i]) > 0 && at.After(ex.Attached) && at.Before(ex.Ended) {
					c.Violate("attached-stream-starved", "exchange %d (%s, Last-Event-ID %q) was attached from %v to %v and received events up to index %d, but message %d was written to its stream at %v and never arrived on it",
						k, ex.Kind, ex.LEID, ex.Attached.Sub(t0v), ex.Ended.Sub(t0v), hi, i, at.Sub(t0v))
					return
				}
			}
		}
		if k > 0 && ex.LEID != "" && len(ex.Events) > 0 {
			replayed++
		}
	}
	// the stream's log itself must be the tool's emission log (prime?, n1..nK, result)
	emu.Lock()
	em := append([]string(nil), emitted...)
	emu.Unlock()
	var logged []string
	for _, d := range truth {
		if len(d) == 0 {
			continue
		}
		var m struct {
			ID     json.RawMessage `json:"id"`
			Method string          `json:"method"`
			Params struct {
				Message string `json:"message"`
			} `json:"params"`
			Result json.RawMessage `json:"result"`
		}
		json.Unmarshal(d, &m)
		switch {
		case m.Method == "notifications/progress":
			logged = append(logged, m.Params.Message)
		case len(m.Result) > 0 && string(m.ID) == "8":
			logged = append(logged, "result2")
		case len(m.Result) > 0:
			logged = append(logged, "result")
		}
	}
	if strings.Join(logged, ",") != strings.Join(em, ",") {
		c.Violate("stream-log-differs-from-emission", "messages stored for the stream %v differ from what the tool emitted %v", shorten(logged), shorten(em))
		return
	}
	// final replays: from every id ever received, the rest of the stream, exactly, to the end
	for id, ex := range finals {
		if !check(ex, "final replay from "+id) {
			return
		}
		if ex.Status == 400 {
			continue
		}
		_, li, _ := parseEID(id)
		got := 0
		for _, e := range ex.Events {
			if e.ID != "" && e.Name != "prime" {
				got++
			}
		}
		want := 0
		for i := li + 1; i < len(truth); i++ {
			if len(truth[i]) > 0 {
				want++
			}
		}
		if got != want {
			c.Violate("replay-incomplete", "final replay from %q returned %d messages, the stream holds %d after that id (final response must stay obtainable)", id, got, want)
			return
		}
	}
	// a protocol-following client has every message exactly once, in order
	if followed && !purgedSeen && isReq && len(seenIDs) > 0 {
		count := map[int]int{}
		prev := -1
		for k, ex := range exs {
			for _, e := range ex.Events {
				if e.ID == "" {
					continue
				}
				_, i, _ := parseEID(e.ID)
				count[i]++
				if i <= prev {
					c.Violate("duplicate-or-reordered", "exchange %d delivered id %q after index %d had already been received", k, e.ID, prev)
					return
				}
				prev = i
			}
		}
		first := -1
		for i := range truth {
			if count[i] > 0 {
				first = i
				break
			}
		}
		for i := max(first, 0); i < len(truth); i++ {
			if len(truth[i]) > 0 && count[i] != 1 {
				c.Violate("message-lost-or-duplicated", "message at index %d of the stream was received %d time(s) by a client that always resumed from the last id it had", i, count[i])
				return
			}
		}
	}
	// messages written while nothing was attached
	for k := 1; k < len(exs); k++ {
		if exs[k].LEID != "" && len(exs[k].Events) > 0 {
			detachedWrites++
		}
	}
	c.Count("exchanges", len(exs)+len(finals))
	c.Count("events_checked", len(seenIDs))
	if replayed >= 1 && len(exs) >= 2 && spec.K >= 1 {
		c.Nontrivial(fmt.Sprintf("%s/%s/%d/%d/%d/%v", spec.Version, spec.Stream, spec.K, spec.GapMs, spec.FirstCutMs, spec.Resumes))
	}
}

func trunc80(s string) string {
	if len(s) > 80 {
		return s[:80] + "…"
	}
	return s
}

func shorten(xs []string) []string {
	out := make([]string, len(xs))
	for i, x := range xs {
		if len(x) > 8 {
			x = x[:8]
		}
		out[i] = x
	}
	return out
}

var _ = testing.Short
