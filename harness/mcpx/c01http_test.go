//go:build verif

// C01 over the streamable HTTP client transport: calls whose POST is still waiting for its answer (JSON mode: no
// header before the handler is done; SSE mode on 2025-06-18: no header before the first message) when the session
// fails. The session fails because its standalone stream — scripted here, everything else is served by the real
// handler — is cut and cannot be re-established (404), or delivers an undecodable message.
//
// Oracle: every call returns exactly once; with its own answer at the instant its handler finished, or with an error
// no later than the instant at which the session's Wait returned ("never stays blocked once the session has
// terminated"); a call started afterwards fails at once and names the connection as closed.
package mcpx

import (
	"bytes"
	"context"
	"encoding/json"
	"fmt"
	"io"
	"net/http"
	"strings"
	"sync"
	"time"

	"github.com/modelcontextprotocol/go-sdk/internal/verifharness/vh"
	"github.com/modelcontextprotocol/go-sdk/internal/verifharness/vhm"
	"github.com/modelcontextprotocol/go-sdk/mcp"
)

type c01HTTPCall struct {
	N        int `json:"n"`
	StartAt  int `json:"start_ms"`
	WorkMs   int `json:"work_ms"`   // how long the handler takes
	CancelAt int `json:"cancel_ms"` // -1 never
	// Refuse: the POST is answered by a gateway-like refusal instead of the handler: this HTTP status with a JSON-RPC
	// error (own id, code 1000+n, message, data) as its body, labelled with RefuseCT. The error must arrive intact
	// and must not harm the session.
	Refuse   int    `json:"refuse_status,omitempty"`
	RefuseCT string `json:"refuse_content_type,omitempty"`
}

type c01HTTPSpec struct {
	Side    string        `json:"side"` // "http"
	JSON    bool          `json:"json_response"`
	Version string        `json:"version"`
	Calls   []c01HTTPCall `json:"calls"`
	Fault   string        `json:"fault"` // missing (stream cut, re-connecting answered 404) | malformed (undecodable message on the stream) | none
	FaultAt int           `json:"fault_ms"`
	Post    int           `json:"post_calls"`
	// Nested (SSE responses only): every handler first asks the client for its roots, twice, on its request's stream;
	// the ids of those requests are the server's own and coincide with ids of the client's calls
	Nested bool `json:"nested,omitempty"`
}

func genC01HTTP(r *vh.Rand) c01HTTPSpec {
	s := c01HTTPSpec{Side: "http", JSON: r.Bool(), Version: r.Choose("2025-06-18", "2025-11-25", "2025-03-26"), Fault: r.Choose("missing", "missing", "malformed", "malformed", "none"), FaultAt: r.Range(1, 12), Post: r.Range(1, 3)}
	k := r.Range(1, 6)
	for i := 0; i < k; i++ {
		cs := c01HTTPCall{N: i + 1, StartAt: r.Intn(10), WorkMs: r.Range(1, 12), CancelAt: -1}
		if r.Chance(1, 2) {
			cs.WorkMs = []int{60_000, 3_600_000}[r.Intn(2)] // far beyond the fault: the answer is not there when the session fails
		}
		if r.Chance(1, 5) {
			cs.CancelAt = cs.StartAt + r.Intn(8)
		} else if r.Chance(1, 4) {
			cs.Refuse = []int{400, 403, 409, 422, 501}[r.Intn(5)]
			cs.RefuseCT = r.Choose("application/json", "application/json; charset=utf-8", "Application/JSON", "application/json;charset=UTF-8")
		}
		s.Calls = append(s.Calls, cs)
	}
	s.Nested = !s.JSON && r.Chance(1, 3)
	return s
}

func runC01HTTP(c *vh.Case, spec c01HTTPSpec) {
	log := c.Log
	server := mcp.NewServer(&mcp.Implementation{Name: "s", Version: "1"}, nil)
	type args struct {
		Nonce int `json:"nonce"`
		Work  int `json:"work"`
	}
	mcp.AddTool(server, &mcp.Tool{Name: "work"}, func(ctx context.Context, req *mcp.CallToolRequest, a args) (*mcp.CallToolResult, any, error) {
		log.Add("handler-start", "n", a.Nonce)
		if spec.Nested {
			for k := 0; k < 2; k++ {
				// (bounded: a client that has gone away without a word answers nothing, and nobody cancels this
				// request; "provided handlers return" is the handler's business)
				nctx, ncancel := context.WithTimeout(ctx, 30*time.Second)
				if _, err := req.Session.ListRoots(nctx, nil); err != nil && ctx.Err() == nil {
					log.Add("nested-call-failed", "n", a.Nonce, "err", err.Error())
				}
				ncancel()
			}
		}
		select {
		case <-time.After(ms(a.Work)):
		case <-ctx.Done():
		}
		log.Add("handler-finish", "n", a.Nonce)
		return &mcp.CallToolResult{Content: []mcp.Content{&mcp.TextContent{Text: fmt.Sprintf("nonce-%d", a.Nonce)}}}, nil, nil
	})
	h := mcp.NewStreamableHTTPHandler(func(*http.Request) *mcp.Server { return server }, &mcp.StreamableHTTPOptions{JSONResponse: spec.JSON})
	ip := &vhm.InProc{Handler: h, AsyncDelete: true}
	// the standalone stream is scripted
	var smu sync.Mutex
	var streamW *io.PipeWriter
	gets := 0
	ip.Before = func(req *http.Request, n int64) (*http.Response, error) {
		if req.Method == http.MethodPost && req.Body != nil {
			body, _ := io.ReadAll(req.Body)
			req.Body = io.NopCloser(bytes.NewReader(body))
			var m struct {
				ID     json.RawMessage `json:"id"`
				Params struct {
					Arguments args `json:"arguments"`
				} `json:"params"`
			}
			if json.Unmarshal(body, &m) == nil && m.Params.Arguments.Nonce > 0 {
				for _, cs := range spec.Calls {
					if cs.N == m.Params.Arguments.Nonce && cs.Refuse != 0 {
						log.Add("refused", "n", cs.N, "status", cs.Refuse)
						b := fmt.Sprintf(`{"jsonrpc":"2.0","id":%s,"error":{"code":%d,"message":"refused-%d","data":{"n":%d}}}`, m.ID, 1000+cs.N, cs.N, cs.N)
						return &http.Response{StatusCode: cs.Refuse, Status: fmt.Sprintf("%d %s", cs.Refuse, http.StatusText(cs.Refuse)), Header: http.Header{"Content-Type": {cs.RefuseCT}},
							Body: io.NopCloser(strings.NewReader(b)), Request: req}, nil
					}
				}
			}
		}
		if req.Method != http.MethodGet {
			return nil, nil
		}
		smu.Lock()
		defer smu.Unlock()
		gets++
		log.Add("standalone-get", "k", gets)
		if gets > 1 {
			return &http.Response{StatusCode: 404, Status: "404 Not Found", Header: http.Header{"Content-Type": {"text/plain"}}, Body: io.NopCloser(strings.NewReader("session not found")), Request: req}, nil
		}
		pr, pw := io.Pipe()
		streamW = pw
		stop := context.AfterFunc(req.Context(), func() { pw.CloseWithError(req.Context().Err()) })
		_ = stop
		return &http.Response{StatusCode: 200, Status: "200 OK", Header: http.Header{"Content-Type": {"text/event-stream"}}, Body: pr, Request: req}, nil
	}
	client := mcp.NewClient(&mcp.Implementation{Name: "c", Version: "1"}, nil)
	client.AddRoots(&mcp.Root{URI: "file:///r", Name: "r"})
	ctx := context.Background()
	cs, err := client.Connect(ctx, &mcp.StreamableClientTransport{Endpoint: "http://example.test/mcp", HTTPClient: ip.Client()}, &mcp.ClientSessionOptions{ProtocolVersion: spec.Version})
	if err != nil {
		c.Inconclusive("connect: %v", err)
		return
	}
	synctestWait()
	log.ResetStart()
	t0 := time.Now()
	at := func(msv int) { time.Sleep(time.Until(t0.Add(ms(msv)))) }
	var wg sync.WaitGroup
	wg.Add(1)
	go func() {
		defer wg.Done()
		cs.Wait()
		log.Add("wait-returned")
	}()
	for _, call := range spec.Calls {
		wg.Add(1)
		go func() {
			defer wg.Done()
			at(call.StartAt)
			cctx, cancel := context.WithCancel(ctx)
			defer cancel()
			if call.CancelAt >= 0 {
				wg.Add(1)
				go func() {
					defer wg.Done()
					select {
					case <-time.After(time.Until(t0.Add(ms(call.CancelAt)))):
						log.Add("cancel", "n", call.N)
						cancel()
					case <-cctx.Done():
					}
				}()
			}
			log.Add("call-start", "n", call.N)
			res, err := cs.CallTool(cctx, &mcp.CallToolParams{Name: "work", Arguments: args{call.N, call.WorkMs}})
			text := ""
			if err == nil && len(res.Content) == 1 {
				text = res.Content[0].(*mcp.TextContent).Text
			}
			log.Add("call-return", "n", call.N, "outcome", classifyC01(text, err), "err", errText(err))
			cancel()
		}()
	}
	if spec.Fault != "none" {
		at(spec.FaultAt)
		smu.Lock()
		w := streamW
		smu.Unlock()
		if w == nil {
			c.Inconclusive("the client never opened its standalone stream")
		} else if spec.Fault == "missing" {
			log.Add("fault", "kind", "stream-cut")
			w.CloseWithError(io.ErrUnexpectedEOF)
		} else {
			log.Add("fault", "kind", "malformed-message")
			w.Write([]byte("event: message\ndata: {\"jsonrpc\":\"2.0\",\"method\":\n\n"))
		}
	}
	// let the reconnect ladder (back-off with jitter, at most a few seconds) run out, then look
	time.Sleep(2 * time.Minute)
	for i := 0; i < spec.Post; i++ {
		if len(log.Find("wait-returned")) == 0 {
			break
		}
		log.Add("post-call-start", "i", i)
		_, err := cs.CallTool(ctx, &mcp.CallToolParams{Name: "work", Arguments: args{9000 + i, 1}})
		log.Add("post-call-return", "i", i, "outcome", classifyC01("", err), "err", errText(err))
	}
	log.Add("settled")
	// wind down: the longest handler takes an hour
	time.Sleep(2 * time.Hour)
	cs.Close()
	for ss := range server.Sessions() {
		ss.Close()
	}
	smu.Lock()
	if streamW != nil {
		streamW.Close()
	}
	smu.Unlock()
	wg.Wait()
	ip.Wait()
	time.Sleep(time.Minute)
}

func decideC01HTTP(c *vh.Case, spec c01HTTPSpec) {
	evs := c.Log.Events()
	var waitT, faultT, settledT int64 = -1, -1, -1
	start, ret := map[int]vh.Event{}, map[int]vh.Event{}
	hfin := map[int]int64{}
	cancelT := map[int]int64{}
	for _, e := range evs {
		n := fint(e, "n")
		switch e.Kind {
		case "wait-returned":
			waitT = e.T
		case "fault":
			faultT = e.T
		case "settled":
			settledT = e.T
		case "call-start":
			start[n] = e
		case "call-return":
			if _, dup := ret[n]; dup {
				c.Violate("completed-twice", "call %d returned twice", n)
				return
			}
			ret[n] = e
		case "handler-finish":
			hfin[n] = e.T
		case "cancel":
			cancelT[n] = e.T
		case "post-call-return":
			if out := fstr(e, "outcome"); out != "closed" {
				c.Violate("not-identified-as-closed", "a call started after the session's Wait had returned came back with %q (%s)", out, fstr(e, "err"))
				return
			}
			c.Count("post_termination_calls", 1)
		}
	}
	if spec.Fault != "none" && faultT >= 0 && waitT < 0 {
		c.Violate("session-not-terminated", "the standalone stream failed for good at %dus (%s) but the session's Wait had not returned two minutes later", faultT, spec.Fault)
		return
	}
	if spec.Fault == "none" && waitT >= 0 && waitT < settledT {
		c.Violate("session-terminated-without-cause", "Wait returned at %dus although nothing failed", waitT)
		return
	}
	blocked := 0
	for _, cs := range spec.Calls {
		n := cs.N
		st, ok := start[n]
		if !ok {
			c.Inconclusive("call %d never started", n)
			return
		}
		r, ok := ret[n]
		if !ok {
			c.Violate("call-never-returned", "call %d (started %dus) had not returned when everything was over", n, st.T)
			return
		}
		out := fstr(r, "outcome")
		if cs.Refuse != 0 && (waitT < 0 || st.T < waitT) {
			want := fmt.Sprintf(`rpcerr:%d:refused-%d:{"n":%d}`, 1000+n, n, n)
			if out != want || r.T != st.T {
				c.Violate("error-payload-lost", "call %d was refused with HTTP %d (%s) carrying the JSON-RPC error %s; the caller got %q (%s) at %dus (started %dus)", n, cs.Refuse, cs.RefuseCT, want, out, fstr(r, "err"), r.T, st.T)
				return
			}
			c.Count("http_refusals_with_error_body", 1)
			continue
		}
		if strings.HasPrefix(out, "ok:") {
			if out != fmt.Sprintf("ok:nonce-%d", n) {
				c.Violate("foreign-response", "call %d completed with %q", n, out)
				return
			}
			if hf, ok := hfin[n]; !ok || r.T != hf {
				c.Violate("not-prompt", "call %d returned its answer at %dus, its handler finished at %dus", n, r.T, hf)
				return
			}
			if waitT >= 0 && r.T > waitT {
				c.Violate("completed-after-termination", "call %d returned a result at %dus, after the session's Wait had returned at %dus", n, r.T, waitT)
				return
			}
			continue
		}
		// an error: the caller gave up, or the session terminated
		if ct, ok := cancelT[n]; ok && out == "ctx" {
			if r.T != ct {
				c.Violate("not-prompt", "call %d was cancelled at %dus and returned at %dus", n, ct, r.T)
				return
			}
			continue
		}
		if waitT < 0 {
			c.Violate("unexpected-error", "call %d failed with %q (%s) although the session never terminated", n, out, fstr(r, "err"))
			return
		}
		if st.T >= waitT {
			// started when the session had already terminated: fails at once, naming the connection as closed
			if r.T != st.T || (out != "closed" && st.T > waitT) {
				c.Violate("not-identified-as-closed", "call %d started at %dus, after the session's Wait had returned (%dus), and came back at %dus with %q (%s)", n, st.T, waitT, r.T, out, fstr(r, "err"))
				return
			}
			c.Count("post_termination_calls", 1)
			continue
		}
		if r.T > waitT {
			c.Violate("blocked-after-termination", "call %d (started %dus, handler busy for %d ms, JSON responses: %v, version %s) returned only at %dus with %q, although the session's Wait had returned at %dus (fault %s at %dus)",
				n, st.T, cs.WorkMs, spec.JSON, spec.Version, r.T, out, waitT, spec.Fault, faultT)
			return
		}
		if st.T <= faultT {
			blocked++
		}
	}
	c.Count("http_calls", len(spec.Calls))
	c.Count("http_calls_outstanding_when_session_failed", blocked)
	c.Seen("http_modes", fmt.Sprintf("json=%v/%s/%s", spec.JSON, spec.Version, spec.Fault))
	if blocked >= 1 && len(spec.Calls) >= 2 {
		c.Nontrivial("http:" + fmt.Sprint(spec.JSON, spec.Version, spec.Fault) + c.Log.KindSignature())
	}
}
