//go:build verif

// C01 over the legacy HTTP+SSE client transport: a call whose POST the server (or a gateway in front of it) has not
// answered yet when the session ends - the hanging GET stream breaks off. The reader sees the end of the stream, the
// session's Wait returns; the caller that is still inside the transport's Write must come back with it, and calls
// started afterwards fail at once as closed. Everything the client talks to is scripted (an http.RoundTripper).
package mcpx

import (
	"context"
	"encoding/json"
	"fmt"
	"io"
	"net/http"
	"strings"
	"sync"
	"time"

	"github.com/modelcontextprotocol/go-sdk/internal/verifharness/vh"
	"github.com/modelcontextprotocol/go-sdk/internal/verifharness/vhm"
	"github.com/modelcontextprotocol/go-sdk/mcp"
)

type c01SSESpec struct {
	Side     string `json:"side"` // "sse"
	Version  string `json:"version"`
	Answered int    `json:"answered"`   // calls made and answered before the stall
	Stalled  int    `json:"stalled"`    // calls whose POST gets no HTTP response
	Parked   int    `json:"parked"`     // calls whose POST is acknowledged (202) but which are never answered on the stream
	StallAt  int    `json:"stall_ms"`   // the stalled/parked calls start here
	EndAt    int    `json:"end_ms"`     // the GET stream ends (clean EOF or read error)
	EndKind  string `json:"end_kind"`   // eof | error
	Post     int    `json:"post_calls"` // calls made after Wait returned
	ByCancel bool   `json:"by_cancel"`  // one stalled caller gives up (ctx) a millisecond before the stream ends
}

func genC01SSE(r *vh.Rand) c01SSESpec {
	s := c01SSESpec{Side: "sse", Version: r.Choose("2025-06-18", "2025-11-25", "2025-03-26", "2024-11-05"), Answered: r.Intn(3), Stalled: r.Range(1, 3), Parked: r.Intn(3),
		StallAt: r.Range(1, 5), EndKind: r.Choose("eof", "error"), Post: r.Range(1, 3), ByCancel: r.Chance(1, 3)}
	s.EndAt = s.StallAt + r.Range(2, 6)
	return s
}

type c01SSEPeer struct {
	log     *vh.Log
	version string
	mu      sync.Mutex
	stream  *io.PipeWriter
	stall   map[int]bool // nonces whose POST is left without a response
	park    map[int]bool // nonces acknowledged but never answered
}

func (s *c01SSEPeer) push(data string) {
	s.mu.Lock()
	w := s.stream
	s.mu.Unlock()
	if w != nil {
		go w.Write([]byte("event: message\ndata: " + data + "\n\n"))
	}
}

func (s *c01SSEPeer) RoundTrip(req *http.Request) (*http.Response, error) {
	if err := req.Context().Err(); err != nil {
		return nil, err
	}
	if req.Method == "GET" {
		pr, pw := io.Pipe()
		s.mu.Lock()
		s.stream = pw
		s.mu.Unlock()
		context.AfterFunc(req.Context(), func() { pw.CloseWithError(req.Context().Err()) })
		go pw.Write([]byte("event: endpoint\ndata: /messages?sessionid=1\n\n"))
		return &http.Response{Status: "200 OK", StatusCode: 200, Proto: "HTTP/1.1", ProtoMajor: 1, ProtoMinor: 1, Header: http.Header{"Content-Type": {"text/event-stream"}}, Body: pr, Request: req, ContentLength: -1}, nil
	}
	body, _ := io.ReadAll(req.Body)
	var m struct {
		ID     json.RawMessage `json:"id"`
		Method string          `json:"method"`
		Params json.RawMessage `json:"params"`
	}
	json.Unmarshal(body, &m)
	n := nonceOfParams(m.Params)
	s.mu.Lock()
	stall, park := s.stall[n], s.park[n]
	s.mu.Unlock()
	if m.Method == "tools/call" && stall {
		// a gateway that has swallowed the request: no HTTP response for as long as the client waits for one
		s.log.Add("post-stalled", "n", n)
		<-req.Context().Done()
		s.log.Add("post-abandoned-by-client", "n", n)
		return nil, req.Context().Err()
	}
	switch {
	case m.Method == "initialize":
		s.push(fmt.Sprintf(`{"jsonrpc":"2.0","id":%s,"result":%s}`, m.ID, vhm.InitializeResultJSON(s.version)))
	case m.Method == "tools/call" && !park:
		s.push(fmt.Sprintf(`{"jsonrpc":"2.0","id":%s,"result":{"content":[{"type":"text","text":"nonce-%d"}]}}`, m.ID, n))
	case len(m.ID) > 0 && m.Method != "" && m.Method != "tools/call":
		s.push(fmt.Sprintf(`{"jsonrpc":"2.0","id":%s,"error":{"code":-32601,"message":"no such method"}}`, m.ID))
	}
	return &http.Response{Status: "202 Accepted", StatusCode: 202, Proto: "HTTP/1.1", ProtoMajor: 1, ProtoMinor: 1, Header: http.Header{}, Body: io.NopCloser(strings.NewReader("")), Request: req}, nil
}

func runC01SSE(c *vh.Case, spec c01SSESpec) {
	log := c.Log
	ctx := context.Background()
	peer := &c01SSEPeer{log: log, version: spec.Version, stall: map[int]bool{}, park: map[int]bool{}}
	client := mcp.NewClient(&mcp.Implementation{Name: "c", Version: "1"}, nil)
	cs, err := client.Connect(ctx, &mcp.SSEClientTransport{Endpoint: "http://example.test/sse", HTTPClient: &http.Client{Transport: peer}}, &mcp.ClientSessionOptions{ProtocolVersion: spec.Version})
	if err != nil {
		c.Inconclusive("connect to the scripted HTTP+SSE peer: %v", err)
		return
	}
	synctestWait()
	log.ResetStart()
	t0 := time.Now()
	at := func(msv int) { time.Sleep(time.Until(t0.Add(ms(msv)))) }
	var wg sync.WaitGroup
	wg.Add(1)
	go func() { defer wg.Done(); cs.Wait(); log.Add("wait-returned") }()
	call := func(cctx context.Context, n int, kind string) {
		defer wg.Done()
		defer c.Guard("")
		log.Add("call-start", "n", n, "kind", kind)
		res, err := cs.CallTool(cctx, &mcp.CallToolParams{Name: "work", Arguments: map[string]any{"nonce": n}})
		log.Add("call-return", "n", n, "kind", kind, "outcome", classifyC01(textOf(res), err), "err", errText(err))
	}
	for i := 0; i < spec.Answered; i++ {
		wg.Add(1)
		call(ctx, 100+i, "answered")
	}
	at(spec.StallAt)
	cctx, cancel := context.WithCancel(ctx)
	defer cancel()
	for i := 0; i < spec.Stalled; i++ {
		peer.mu.Lock()
		peer.stall[200+i] = true
		peer.mu.Unlock()
		wg.Add(1)
		if i == 0 && spec.ByCancel {
			go call(cctx, 200+i, "stalled")
		} else {
			go call(ctx, 200+i, "stalled")
		}
	}
	for i := 0; i < spec.Parked; i++ {
		peer.mu.Lock()
		peer.park[300+i] = true
		peer.mu.Unlock()
		wg.Add(1)
		go call(ctx, 300+i, "parked")
	}
	if spec.ByCancel {
		at(spec.EndAt - 1)
		log.Add("cancel", "n", 200)
		cancel()
	}
	at(spec.EndAt)
	peer.mu.Lock()
	w := peer.stream
	peer.mu.Unlock()
	log.Add("stream-ends", "kind", spec.EndKind)
	if spec.EndKind == "eof" {
		w.Close()
	} else {
		w.CloseWithError(io.ErrUnexpectedEOF)
	}
	time.Sleep(time.Minute)
	for i := 0; i < spec.Post && len(log.Find("wait-returned")) > 0; i++ {
		log.Add("post-call-start", "i", i)
		_, err := cs.CallTool(ctx, &mcp.CallToolParams{Name: "work", Arguments: map[string]any{"nonce": 900 + i}})
		log.Add("post-call-return", "i", i, "outcome", classifyC01("", err), "err", errText(err))
	}
	log.Add("settled")
	time.Sleep(time.Hour)
	cs.Close()
	cancel()
	wg.Wait()
	time.Sleep(time.Minute)
}

func decideC01SSE(c *vh.Case, spec c01SSESpec) {
	var waitT, endT, settledT int64 = -1, -1, -1
	start, ret := map[int]vh.Event{}, map[int]vh.Event{}
	cancelT := map[int]int64{}
	for _, e := range c.Log.Events() {
		n := fint(e, "n")
		switch e.Kind {
		case "wait-returned":
			waitT = e.T
		case "stream-ends":
			endT = e.T
		case "settled":
			settledT = e.T
		case "cancel":
			cancelT[n] = e.T
		case "call-start":
			start[n] = e
		case "call-return":
			if _, dup := ret[n]; dup {
				c.Violate("completed-twice", "call %d returned twice", n)
				return
			}
			ret[n] = e
		case "post-call-return":
			if out := fstr(e, "outcome"); out != "closed" {
				c.Violate("not-identified-as-closed", "HTTP+SSE client: a call started after the session's Wait had returned came back with %q (%s)", out, fstr(e, "err"))
				return
			}
			c.Count("post_termination_calls", 1)
		}
	}
	if endT < 0 {
		c.Inconclusive("the stream never ended")
		return
	}
	if waitT < 0 || waitT > settledT {
		c.Violate("session-not-terminated", "HTTP+SSE client: the event stream ended (%s) at %dus but the session's Wait had not returned a minute later", spec.EndKind, endT)
		return
	}
	blocked := 0
	for n, st := range start {
		r, ok := ret[n]
		kind := fstr(st, "kind")
		if !ok {
			c.Violate("call-never-returned", "HTTP+SSE client: %s call %d (started %dus) had not returned when everything was over", kind, n, st.T)
			return
		}
		out := fstr(r, "outcome")
		switch {
		case kind == "answered":
			if out != fmt.Sprintf("ok:nonce-%d", n) || r.T != st.T {
				c.Violate("wrong-outcome", "HTTP+SSE client: call %d, answered at once by the peer, came back with %q at %dus (started %dus)", n, out, r.T, st.T)
				return
			}
		case strings.HasPrefix(out, "ok:"):
			c.Violate("foreign-response", "HTTP+SSE client: %s call %d was never answered by the peer, yet it completed with %q", kind, n, out)
			return
		default:
			if ct, ok := cancelT[n]; ok && out == "ctx" {
				if r.T != ct {
					c.Violate("not-prompt", "HTTP+SSE client: call %d was cancelled at %dus and returned at %dus", n, ct, r.T)
					return
				}
				continue
			}
			if r.T > waitT {
				c.Violate("blocked-after-termination", "HTTP+SSE client (%s): %s call %d (started %dus; its POST %s) returned only at %dus with %q, although the session's Wait had returned at %dus (the event stream ended at %dus, %s)",
					spec.Version, kind, n, st.T, map[string]string{"stalled": "never got an HTTP response", "parked": "was acknowledged, the answer never came"}[kind], r.T, out, waitT, endT, spec.EndKind)
				return
			}
			blocked++
		}
	}
	c.Count("sse_calls_outstanding_when_session_ended", blocked)
	c.Seen("sse_modes", fmt.Sprintf("%s/%s/stalled=%d/parked=%d", spec.Version, spec.EndKind, spec.Stalled, spec.Parked))
	if blocked >= 1 {
		c.Nontrivial("sse:" + fmt.Sprint(spec) + c.Log.KindSignature())
	}
}
