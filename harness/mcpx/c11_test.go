//go:build verif

// C11 — HTTP session ids: one live session, dead after termination, bound to its user.
//
// A raw HTTP client executes PRNG histories of POST/GET/DELETE with valid,
// unknown, stale and foreign session ids and user identities against a real
// StreamableHTTPHandler (behind the bearer-token middleware for authenticated
// requests), interleaved with virtual-time advances around the idle timeout,
// slow POSTs that straddle it, and server-side closes. A reference model of
// the session table predicts every status and the set of live sessions.
package mcpx

import (
	"context"
	"encoding/json"
	"errors"
	"fmt"
	"net/http"
	"strings"
	"sync"
	"sync/atomic"
	"testing"
	"time"

	"github.com/modelcontextprotocol/go-sdk/auth"
	"github.com/modelcontextprotocol/go-sdk/internal/verifharness/vh"
	"github.com/modelcontextprotocol/go-sdk/internal/verifharness/vhm"
	"github.com/modelcontextprotocol/go-sdk/mcp"
)

type c11Op struct {
	Kind string `json:"kind"` // init | init-bad | post | post-slow | notify | get | delete | server-close | advance | post-nosid
	Sess int    `json:"sess"` // index into the sessions created so far (-1: unknown id)
	User string `json:"user,omitempty"`
	Ms   int    `json:"ms,omitempty"` // advance / slow duration
	Bg   bool   `json:"bg,omitempty"` // run the slow POST in the background
}

type c11Spec struct {
	BadStore bool `json:"bad_store,omitempty"` // an EventStore whose SessionClosed reports an error
	// AppendFailAt > 0 (with BadStore): the k-th Append of the store fails once (a remote store with a hiccup); the
	// message is still delivered and nothing about the session table changes
	AppendFailAt int `json:"append_fail_at,omitempty"`
	// KeepAliveMs > 0: the server pings its sessions at this interval (ServerOptions.KeepAlive). The raw client keeps
	// no standalone stream open and answers no ping, so keep-alive gives every session up between one interval and
	// one and a half after its creation (the instant in between is not decided); from then on its id is dead.
	KeepAliveMs int     `json:"keepalive_ms,omitempty"`
	Stateless   bool    `json:"stateless"`
	TimeoutMs   int     `json:"timeout_ms"`
	Ops         []c11Op `json:"ops"`
}

func genC11(r *vh.Rand) c11Spec {
	s := c11Spec{TimeoutMs: r.Choose2(1000, 60000)}
	if r.Chance(1, 8) {
		s.Stateless = true
	}
	s.BadStore = r.Chance(1, 4)
	if s.BadStore && r.Bool() {
		s.AppendFailAt = r.Range(1, 8)
	}
	// "svc": a credential the verifier accepts without naming a user (a service token): it is nobody's owner
	// "ALICE" and "alice" are two users
	if !s.Stateless && r.Chance(1, 6) {
		s.KeepAliveMs = []int{s.TimeoutMs / 2, 2 * s.TimeoutMs, 5 * s.TimeoutMs}[r.Intn(3)]
	}
	users := []string{"", "alice", "bob", "svc", "ALICE"}
	nsess := 0
	T := s.TimeoutMs
	for i, n := 0, r.Range(4, 14); i < n; i++ {
		op := c11Op{User: users[r.Intn(5)], Sess: -1}
		if nsess > 0 && !r.Chance(1, 8) {
			op.Sess = r.Intn(nsess)
		}
		switch x := r.Intn(20); {
		case x < 3 || nsess == 0:
			op.Kind, op.Sess = "init", -2
			nsess++
			if r.Chance(1, 4) {
				op.Ms = []int{T / 2, T + 50, 2*T + 10}[r.Intn(3)] // the initialize request itself is slow (middleware)
			}
		case x < 4:
			op.Kind, op.Sess = "init-bad", -2
			nsess++ // occupies an index: its id is stale from birth
		case x < 7:
			op.Kind = "post"
		case x < 8:
			op.Kind = "post-late"
		case x < 10:
			op.Kind, op.Ms, op.Bg = "post-slow", []int{T / 2, T + 50, 2*T + 10}[r.Intn(3)], r.Bool()
		case x < 11:
			op.Kind = "notify"
		case x < 13:
			op.Kind = "get"
		case x < 14:
			op.Kind = "delete"
		case x < 15:
			op.Kind = "server-close"
		case x < 16:
			op.Kind, op.Sess = "post-nosid", -2
		default:
			op.Kind, op.Ms = "advance", []int{1, T / 2, T - 1, T + 1, T - 1, T + 1, 3 * T}[r.Intn(7)]
		}
		if s.KeepAliveMs > 0 {
			// (keep-alive's Close waits for running handlers like any other: keep the requests of these cases short)
			if op.Kind == "post-slow" {
				op.Kind, op.Ms, op.Bg = "post", 0, false
			}
			if op.Kind == "init" {
				op.Ms = 0
			}
		}
		s.Ops = append(s.Ops, op)
		if op.Kind == "post-slow" && op.Bg && op.Sess >= 0 && r.Chance(1, 3) {
			// the application closes the session while that call is running
			s.Ops = append(s.Ops, c11Op{Kind: "server-close", Sess: op.Sess, User: op.User})
		}
	}
	return s
}

func TestVerifC11(t *testing.T) {
	cfg := vh.Config{
		Property: "C11",
		Cases:    vh.Pick(2500, 80000),
		Rule: "each case: 4..14 operations over {initialize, failed initialize, POST call, slow POST (T/2, T+50ms, 2T+10ms; foreground or background), notification, GET, DELETE, server-side Close, non-initialize POST without id, clock advance by 1ms|T/2|T-1ms|T+1ms|3T} " +
			"(1/4 of the initialize requests are themselves slow: T/2, T+50ms, 2T+10ms) with session ids valid/unknown/stale and users none/alice/bob (bearer middleware), idle timeout T in {1 s, 60 s}; 1/8 of the cases on a stateless endpoint. non-trivial: >=1 session terminated (DELETE, timeout or server Close) and afterwards addressed again, or >=1 foreign-user request. " +
			"distinct = distinct operation sequences (kind, target class, user relation, delay)",
		MinNontrivial: 100,
		Assumptions:   []string{"the idle deadline is decided at +-1 ms, not at the exact instant", "a 409 on a resumed/duplicate standalone GET is not part of this property (GETs are cut before the next operation)"},
	}
	vh.Run(t, cfg, func(c *vh.Case) {
		spec := genC11(c.R)
		c.SetSpec(spec)
		c.Bubble("", func() { runC11(c, spec) })
	})
}

type c11Model struct {
	id       string
	owner    string
	alive    bool
	lastEnd  time.Duration // end of the last POST (virtual since start)
	inflight int
	born     bool          // a session object existed at some point
	bornLo   time.Duration // the creating POST was sent / had returned (keep-alive runs from somewhere in between)
	bornHi   time.Duration
}

func runC11(c *vh.Case, spec c11Spec) {
	mcp.VerifRecordTimers(true)
	log := c.Log
	ctx := context.Background()
	T := ms(spec.TimeoutMs)
	start := time.Now()
	now := func() time.Duration { return time.Since(start) }
	var handlerRuns sync.Map   // nonce -> started
	var tokenMismatch sync.Map // nonce -> nonce recorded in the token info the handler saw
	var sopts *mcp.ServerOptions
	K := ms(spec.KeepAliveMs)
	if K > 0 {
		sopts = &mcp.ServerOptions{KeepAlive: K}
	}
	server := mcp.NewServer(&mcp.Implementation{Name: "s", Version: "1"}, sopts)
	server.AddTool(&mcp.Tool{Name: "sleep", InputSchema: json.RawMessage(`{"type":"object"}`)}, func(ctx context.Context, req *mcp.CallToolRequest) (*mcp.CallToolResult, error) {
		var a struct {
			Ms    int
			Nonce int
		}
		json.Unmarshal(req.Params.Arguments, &a)
		handlerRuns.Store(a.Nonce, true)
		// the token info a handler sees is the one verified for the very request that carries its call
		if ti := req.Extra.TokenInfo; ti != nil {
			if got := fmt.Sprint(ti.Extra["nonce"]); got != fmt.Sprint(a.Nonce) {
				tokenMismatch.Store(a.Nonce, got)
			}
		}
		time.Sleep(ms(a.Ms))
		return &mcp.CallToolResult{Content: []mcp.Content{&mcp.TextContent{Text: "ok"}}}, nil
	})
	// a slow initialize: the session-creating POST is in progress for longer than the idle timeout
	server.AddReceivingMiddleware(func(next mcp.MethodHandler) mcp.MethodHandler {
		return func(ctx context.Context, method string, req mcp.Request) (mcp.Result, error) {
			if ip, ok := req.GetParams().(*mcp.InitializeParams); ok && method == "initialize" && ip != nil && ip.ClientInfo != nil {
				var d int
				if n, _ := fmt.Sscanf(ip.ClientInfo.Name, "slow-%d-", &d); n == 1 && d > 0 {
					time.Sleep(ms(d))
				}
			}
			return next(ctx, method, req)
		}
	})
	var lateWG sync.WaitGroup
	server.AddTool(&mcp.Tool{Name: "late", InputSchema: json.RawMessage(`{"type":"object"}`)}, func(ctx context.Context, req *mcp.CallToolRequest) (*mcp.CallToolResult, error) {
		var a struct{ Nonce int }
		json.Unmarshal(req.Params.Arguments, &a)
		handlerRuns.Store(a.Nonce, true)
		// background work that outlives the call and still reports on its (by then answered) request
		bctx := context.WithoutCancel(ctx)
		lateWG.Add(1)
		go func() {
			defer lateWG.Done()
			time.Sleep(time.Millisecond)
			req.Session.NotifyProgress(bctx, &mcp.ProgressNotificationParams{ProgressToken: "late", Progress: 1, Message: "after the answer"})
		}()
		return &mcp.CallToolResult{Content: []mcp.Content{&mcp.TextContent{Text: "ok"}}}, nil
	})
	ho := &mcp.StreamableHTTPOptions{Stateless: spec.Stateless, SessionTimeout: T}
	if spec.BadStore {
		ho.EventStore = failingCloseStore{mcp.NewMemoryEventStore(nil), c11NewAppendFault(spec.AppendFailAt)}
	}
	sh := mcp.NewStreamableHTTPHandler(func(*http.Request) *mcp.Server { return server }, ho)
	verifier := func(_ context.Context, token string, r *http.Request) (*auth.TokenInfo, error) {
		// every verification yields its own token info, tagged with the request it was made for
		return &auth.TokenInfo{UserID: c11UID(token), Expiration: time.Now().Add(24 * 365 * time.Hour), Extra: map[string]any{"nonce": r.Header.Get("X-Verif-Nonce")}}, nil
	}
	authed := auth.RequireBearerToken(verifier, nil)(sh)
	root := http.HandlerFunc(func(w http.ResponseWriter, r *http.Request) {
		if r.Header.Get("Authorization") != "" {
			authed.ServeHTTP(w, r)
		} else {
			sh.ServeHTTP(w, r)
		}
	})
	ip := &vhm.InProc{Handler: root}
	hdrFor := func(user, sid string) map[string]string {
		h := map[string]string{"Content-Type": "application/json", "Accept": "application/json, text/event-stream", "Mcp-Protocol-Version": "2025-06-18"}
		if user != "" {
			h["Authorization"] = "Bearer " + user
		}
		if sid != "" {
			h["Mcp-Session-Id"] = sid
		}
		return h
	}
	var models []*c11Model
	var mmu sync.Mutex
	// settle brings the model up to date with idle expiries that have happened by now.
	settle := func() {
		for _, m := range models {
			if m.alive && m.inflight == 0 && now() > m.lastEnd+T {
				m.alive = false
			}
			if m.alive && K > 0 && now() > m.bornHi+K+K/2+2*time.Millisecond {
				m.alive = false // given up by keep-alive
			}
		}
	}
	liveCount := func() int {
		n := 0
		for _, m := range models {
			if m.alive {
				n++
			}
		}
		return n
	}
	nearDeadline := func(m *c11Model) bool {
		d := now() - (m.lastEnd + T)
		if K > 0 && m.born && now() > m.bornLo+K-2*time.Millisecond && now() <= m.bornHi+K+K/2+2*time.Millisecond {
			return true // somewhere in here keep-alive gives the session up
		}
		return m.inflight == 0 && d > -2*time.Millisecond && d < 2*time.Millisecond
	}
	serverSessions := func() []*mcp.ServerSession {
		var out []*mcp.ServerSession
		for ss := range server.Sessions() {
			out = append(out, ss)
		}
		return out
	}
	nonce := 0
	terminatedThenUsed, foreign := 0, 0
	var sig strings.Builder
	var bg sync.WaitGroup
	bad := func(key, format string, args ...any) { c.Violate(key, format, args...) }

	expectStatus := func(i int, op c11Op, st int, want ...int) bool {
		for _, w := range want {
			if st == w {
				return true
			}
		}
		bad("wrong-status", "op %d %+v at %v: HTTP %d, reference model expects %v", i, op, now(), st, want)
		return false
	}

	for i, op := range spec.Ops {
		if c.Violated() {
			break
		}
		mmu.Lock()
		settle()
		mmu.Unlock()
		log.Add("op", "i", i, "kind", op.Kind, "sess", op.Sess, "user", op.User, "ms", op.Ms)
		sig.WriteString(op.Kind[:2])
		if spec.Stateless {
			// stateless endpoint: no ids issued or honoured; GET and DELETE are 405
			switch op.Kind {
			case "init", "init-bad", "post", "post-slow", "post-late", "notify", "post-nosid":
				body := `{"jsonrpc":"2.0","id":1,"method":"tools/list"}`
				if op.Kind == "init" {
					body = `{"jsonrpc":"2.0","id":1,"method":"initialize","params":{"protocolVersion":"2025-06-18","capabilities":{},"clientInfo":{"name":"x","version":"1"}}}`
				}
				st, rh, _, _ := ip.Do(ctx, "POST", "http://example.test/mcp", hdrFor(op.User, "bogus-session-id"), []byte(body))
				if rh.Get("Mcp-Session-Id") != "" {
					bad("stateless-issued-session-id", "op %d: stateless endpoint returned Mcp-Session-Id %q", i, rh.Get("Mcp-Session-Id"))
				}
				if st == 404 {
					bad("stateless-honoured-session-id", "op %d: stateless endpoint answered 404 to an unknown Mcp-Session-Id (it must ignore the header)", i)
				}
				expectStatus(i, op, st, 200)
				foreign++
			case "get", "delete":
				m := map[string]string{"get": "GET", "delete": "DELETE"}[op.Kind]
				h := hdrFor(op.User, "bogus-session-id")
				// whatever the request says it accepts: a client's GET asks for an event stream only, a DELETE for nothing
				switch (i + len(spec.Ops)) % 3 {
				case 0:
					h["Accept"] = "text/event-stream"
				case 1:
					delete(h, "Accept")
				}
				delete(h, "Content-Type")
				st, _, _, _ := ip.Do(ctx, m, "http://example.test/mcp", h, nil)
				expectStatus(i, op, st, 405)
				terminatedThenUsed++
			case "advance":
				time.Sleep(ms(op.Ms))
			}
			continue
		}
		var m *c11Model
		sid := "unknown-session-id"
		if op.Sess >= 0 && op.Sess < len(models) {
			m = models[op.Sess]
			sid = m.id
		}
		// expected status for an addressed request
		class := func() string {
			switch {
			case m == nil || !m.alive:
				return "dead"
			case m.owner != "" && c11UID(op.User) != m.owner:
				return "foreign"
			}
			return "ok"
		}
		switch op.Kind {
		case "init", "init-bad":
			body := fmt.Sprintf(`{"jsonrpc":"2.0","id":1,"method":"initialize","params":{"protocolVersion":"2025-06-18","capabilities":{},"clientInfo":{"name":"c%d","version":"1"}}}`, i)
			if op.Kind == "init" && op.Ms > 0 {
				body = fmt.Sprintf(`{"jsonrpc":"2.0","id":1,"method":"initialize","params":{"protocolVersion":"2025-06-18","capabilities":{},"clientInfo":{"name":"slow-%d-c%d","version":"1"}}}`, op.Ms, i)
			}
			if op.Kind == "init-bad" {
				body = `{"jsonrpc":"2.0","id":1,"method":"initialize","params":null}`
			}
			before := len(serverSessions())
			sentAt := now()
			st, rh, _, _ := ip.Do(ctx, "POST", "http://example.test/mcp", hdrFor(op.User, ""), []byte(body))
			nm := &c11Model{id: rh.Get("Mcp-Session-Id"), owner: c11UID(op.User), lastEnd: now(), born: true, bornLo: sentAt, bornHi: now()}
			if op.Kind == "init" {
				if !expectStatus(i, op, st, 200) {
					break
				}
				if nm.id == "" {
					bad("no-session-id-minted", "op %d: successful initialize without Mcp-Session-Id", i)
					break
				}
				for _, o := range models {
					if o.id == nm.id {
						bad("session-id-reused", "op %d: session id %q was minted twice", i, nm.id)
					}
				}
				nm.alive = true
			} else if nm.id == "" {
				nm.id = fmt.Sprintf("never-issued-%d", i)
			}
			mmu.Lock()
			models = append(models, nm)
			mmu.Unlock()
			synctestWait()
			want := before + b2i(nm.alive)
			if op.Ms > 0 {
				// time passed while the request was in progress: other sessions may have idled out meanwhile
				mmu.Lock()
				settle()
				want = liveCount()
				mmu.Unlock()
			}
			if got := len(serverSessions()); got != want && !anyNear(models, nearDeadline) {
				bad("session-count", "op %d %s: server lists %d sessions, expected %d", i, op.Kind, got, want)
			}
		case "post-nosid":
			before := len(serverSessions())
			st, rh, _, _ := ip.Do(ctx, "POST", "http://example.test/mcp", hdrFor(op.User, ""), []byte(`{"jsonrpc":"2.0","id":1,"method":"tools/list"}`))
			if rh.Get("Mcp-Session-Id") != "" {
				bad("session-id-minted-by-non-initialize", "op %d: a non-initialize POST without session id was given Mcp-Session-Id %q (status %d)", i, rh.Get("Mcp-Session-Id"), st)
			}
			synctestWait()
			if got := len(serverSessions()); got != before && !anyNear(models, nearDeadline) {
				bad("session-leaked", "op %d: a non-initialize POST without session id left %d extra server session(s) behind", i, got-before)
			}
		case "post", "notify", "post-slow", "post-late":
			nonce++
			n := nonce
			body := fmt.Sprintf(`{"jsonrpc":"2.0","id":%d,"method":"tools/list"}`, 100+n)
			dur := 0
			if op.Kind == "notify" {
				body = `{"jsonrpc":"2.0","method":"notifications/roots/list_changed"}`
			}
			if op.Kind == "post-slow" {
				dur = op.Ms
				body = fmt.Sprintf(`{"jsonrpc":"2.0","id":%d,"method":"tools/call","params":{"name":"sleep","arguments":{"ms":%d,"nonce":%d}}}`, 100+n, dur, n)
			}
			if op.Kind == "post-late" {
				body = fmt.Sprintf(`{"jsonrpc":"2.0","id":%d,"method":"tools/call","params":{"name":"late","arguments":{"nonce":%d}}}`, 100+n, n)
			}
			cl := class()
			if m != nil && m.alive && nearDeadline(m) {
				break // the exact deadline instant is not decided: do not touch the session there
			}
			do := func() {
				if cl == "ok" {
					mmu.Lock()
					m.inflight++
					mmu.Unlock()
				}
				hd := hdrFor(op.User, sid)
				hd["X-Verif-Nonce"] = fmt.Sprint(n)
				st, _, rbody, _ := ip.Do(ctx, "POST", "http://example.test/mcp", hd, []byte(body))
				endT := now()
				if got, bad2 := tokenMismatch.Load(n); bad2 {
					bad("handler-saw-another-requests-token", "op %d %+v: the tool handler of request %d saw the token info verified for request %q", i, op, n, got)
				}
				if op.Kind == "post-late" {
					time.Sleep(2 * time.Millisecond) // let the late notification happen before the next operation
				}
				mmu.Lock()
				defer mmu.Unlock()
				switch cl {
				case "ok":
					m.inflight--
					m.lastEnd = endT
					if m.alive { // it may have been closed meanwhile (DELETE / server close)
						if op.Kind == "notify" {
							expectStatus(i, op, st, 202)
						} else if expectStatus(i, op, st, 200) && !strings.Contains(string(rbody), fmt.Sprintf(`"id":%d`, 100+n)) {
							bad("live-session-gave-no-response", "op %d %+v at %v: HTTP 200 but the body carries no response to request %d: %q", i, op, now(), 100+n, trunc80(string(rbody)))
						}
					}
				case "dead":
					if m != nil {
						terminatedThenUsed++
					}
					expectStatus(i, op, st, 404)
				case "foreign":
					foreign++
					expectStatus(i, op, st, 403)
					if _, ran := handlerRuns.Load(n); ran {
						bad("foreign-request-had-effect", "op %d: the 403 request still ran the tool handler", i)
					}
				}
			}
			if op.Kind == "post-slow" && op.Bg {
				bg.Add(1)
				go func() { defer bg.Done(); defer c.Guard(""); do() }()
				synctestWait()
			} else {
				do()
			}
		case "get":
			cl := class()
			if m != nil && m.alive && nearDeadline(m) {
				break
			}
			gctx, cancel := context.WithCancel(ctx)
			req, _ := http.NewRequestWithContext(gctx, "GET", "http://example.test/mcp", nil)
			h := hdrFor(op.User, sid)
			h["Accept"] = "text/event-stream"
			for k, v := range h {
				req.Header.Set(k, v)
			}
			resp, err := ip.RoundTrip(req)
			st := -1
			if err == nil {
				st = resp.StatusCode
			}
			cancel()
			if resp != nil {
				resp.Body.Close()
			}
			synctestWait()
			switch cl {
			case "ok":
				expectStatus(i, op, st, 200)
			case "dead":
				if m != nil {
					terminatedThenUsed++
				}
				expectStatus(i, op, st, 404)
			case "foreign":
				foreign++
				expectStatus(i, op, st, 403)
			}
		case "delete":
			cl := class()
			if m != nil && m.alive && nearDeadline(m) {
				break
			}
			st, _, _, _ := ip.Do(ctx, "DELETE", "http://example.test/mcp", hdrFor(op.User, sid), nil)
			mmu.Lock()
			switch cl {
			case "ok":
				if m.inflight > 0 {
					// DELETE waits for the POST in flight; the session is gone afterwards
				}
				m.alive = false
				expectStatus(i, op, st, 204)
			case "dead":
				if m != nil {
					terminatedThenUsed++
				}
				expectStatus(i, op, st, 404)
			case "foreign":
				foreign++
				expectStatus(i, op, st, 403)
				if !m.alive {
					bad("foreign-request-had-effect", "op %d: a 403 DELETE terminated the session", i)
				}
			}
			mmu.Unlock()
		case "server-close":
			if m != nil && m.alive && m.inflight > 0 {
				// The application closes a session whose tool call is still running (Close waits for it), and the
				// client deletes the session meanwhile: once the DELETE has been answered the id is dead, whatever
				// the state of the close that was under way.
				mmu.Lock()
				m.alive = false
				mmu.Unlock()
				closed := make(chan struct{})
				var cwg sync.WaitGroup
				for _, ss := range serverSessions() {
					if ss.ID() == m.id {
						cwg.Add(1)
						go func() { defer cwg.Done(); defer c.Guard(""); ss.Close() }()
					}
				}
				go func() { cwg.Wait(); close(closed) }()
				synctestWait()
				owner := m.owner
				st, _, _, _ := ip.Do(ctx, "DELETE", "http://example.test/mcp", hdrFor(owner, sid), nil)
				if expectStatus(i, op, st, 204, 404) {
					st2, _, _, _ := ip.Do(ctx, "POST", "http://example.test/mcp", hdrFor(owner, sid), []byte(`{"jsonrpc":"2.0","id":7,"method":"tools/list"}`))
					if st2 != 404 {
						bad("deleted-session-still-honoured", "op %d at %v: the DELETE of session %d (closed by the server while a call was running) was answered %d, yet a POST with its id right afterwards is answered %d, not 404", i, now(), op.Sess, st, st2)
					}
					terminatedThenUsed++
				}
				<-closed
				c.Count("closed_by_server_while_busy_then_deleted", 1)
				break
			}
			if m == nil || !m.alive || m.inflight > 0 {
				break
			}
			for _, ss := range serverSessions() {
				if ss.ID() == m.id {
					ss.Close()
				}
			}
			mmu.Lock()
			m.alive = false
			mmu.Unlock()
		case "advance":
			time.Sleep(ms(op.Ms))
		}
		// invariants after every operation (skipped when some session sits within 2 ms of its deadline)
		synctestWait()
		mmu.Lock()
		settle()
		if !anyNear(models, nearDeadline) {
			want := liveCount()
			if got := len(serverSessions()); got != want {
				bad("session-count", "after op %d %+v at %v: server lists %d live session(s), reference model says %d", i, op, now(), got, want)
			}
			for _, ss := range serverSessions() {
				found := false
				for _, mm := range models {
					if mm.alive && mm.id == ss.ID() {
						found = true
					}
				}
				if !found {
					bad("dead-session-not-forgotten", "after op %d: server still holds session %q which the reference model considers terminated", i, ss.ID())
				}
			}
		}
		mmu.Unlock()
	}
	// let background POSTs finish
	bg.Wait()
	lateWG.Wait()
	if c.Index%2 == 1 && !spec.Stateless && !c.Violated() {
		// Every second case ends by closing whatever is still alive and then asks the timer registry
		// (verif hook in mcp): a session that has been torn down may not own an armed idle timer.
		synctestWait()
		// each live session gets a POST that completes at the very instant the session is closed, so that
		// the end of the POST and the teardown race in either order
		var twg sync.WaitGroup
		mmu.Lock()
		for _, mm := range models {
			if mm.alive {
				mm := mm
				nonce++
				body := fmt.Sprintf(`{"jsonrpc":"2.0","id":%d,"method":"tools/call","params":{"name":"sleep","arguments":{"ms":3,"nonce":%d}}}`, 5000+nonce, 100000+nonce)
				twg.Add(1)
				go func() {
					defer twg.Done()
					ip.Do(ctx, "POST", "http://example.test/mcp", hdrFor(mm.owner, mm.id), []byte(body))
				}()
			}
		}
		mmu.Unlock()
		time.Sleep(3 * time.Millisecond)
		for _, ss := range serverSessions() {
			ss := ss
			twg.Add(1)
			go func() {
				defer twg.Done()
				ss.Close()
			}()
		}
		twg.Wait()
		synctestWait()
		recorded, armed := mcp.VerifStopArmedTimers(sh)
		c.Count("idle_timers_recorded", recorded)
		if armed > 0 {
			bad("timer-left-behind", "all sessions are closed and forgotten, yet %d of the %d idle timers created by the handler are still armed", armed, recorded)
		}
		mmu.Lock()
		for _, mm := range models {
			mm.alive = false
		}
		mmu.Unlock()
	}
	// then everything idles out
	time.Sleep(4*T + time.Second)
	synctestWait()
	if n := len(serverSessions()); n != 0 && !c.Violated() {
		bad("idle-session-not-closed", "%d session(s) still alive %v after the last activity (timeout %v)", n, 4*T+time.Second, T)
	}
	for _, mm := range models {
		if mm.born && mm.id != "" && !strings.HasPrefix(mm.id, "never-issued") && !c.Violated() {
			st, _, _, _ := ip.Do(ctx, "POST", "http://example.test/mcp", hdrFor(mm.owner, mm.id), []byte(`{"jsonrpc":"2.0","id":9,"method":"tools/list"}`))
			if st != 404 {
				bad("dead-id-still-honoured", "session id %q answered HTTP %d long after its session had terminated", mm.id, st)
			}
			terminatedThenUsed++
		}
	}
	ip.Wait()
	mcp.VerifStopArmedTimers(sh) // forget this handler's timers
	time.Sleep(11 * time.Second)
	c.Count("ops", len(spec.Ops))
	c.Count("requests_to_terminated_sessions", terminatedThenUsed)
	c.Count("foreign_user_requests", foreign)
	if terminatedThenUsed > 0 || foreign > 0 {
		c.Nontrivial(fmt.Sprintf("%v/%d/%s/%v", spec.Stateless, spec.TimeoutMs, sig.String(), spec.Ops))
	}
}

// failingCloseStore is an EventStore whose cleanup hook reports an error
// (e.g. a remote store that is unreachable when the session ends).
type failingCloseStore struct {
	*mcp.MemoryEventStore
	fault *c11AppendFault
}

type c11AppendFault struct{ at, n atomic.Int64 }

func (f failingCloseStore) Append(ctx context.Context, sid, stream string, data []byte) error {
	if f.fault != nil && f.fault.at.Load() > 0 && f.fault.n.Add(1) == f.fault.at.Load() {
		return errors.New("verif: event store append failed")
	}
	return f.MemoryEventStore.Append(ctx, sid, stream, data)
}

// c11UID is the user a bearer token of the harness stands for: "svc" is accepted by the verifier without naming one.
func c11UID(token string) string {
	if token == "svc" {
		return ""
	}
	return token
}

func (f failingCloseStore) SessionClosed(ctx context.Context, sid string) error {
	f.MemoryEventStore.SessionClosed(ctx, sid)
	return errors.New("verif: event store cleanup failed")
}

func b2i(b bool) int {
	if b {
		return 1
	}
	return 0
}

func anyNear(ms []*c11Model, near func(*c11Model) bool) bool {
	for _, m := range ms {
		if m.alive && near(m) {
			return true
		}
	}
	return false
}

var _ = testing.Short

func c11NewAppendFault(at int) *c11AppendFault {
	f := &c11AppendFault{}
	f.at.Store(int64(at))
	return f
}
