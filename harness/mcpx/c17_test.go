//go:build verif

// C17 — paginated listing returns every registered feature exactly once, stably ordered.
//
// A real client/server pair (in-memory transport); PRNG histories add, remove
// and replace tools / prompts / resources / resource templates BETWEEN page
// fetches of a manual traversal; hostile cursors (tampered, truncated, random
// bytes, well-formed base64 of garbage) are interleaved; the client-side
// iterators are compared with manual paging, also when started from every
// cursor ever issued. The oracle keeps its own registry of what was registered
// when.
package mcpx

import (
	"bytes"
	"context"
	"encoding/base64"
	"encoding/gob"
	"encoding/json"
	"errors"
	"fmt"
	"math"
	"sort"
	"strings"
	"sync"
	"testing"
	"time"

	"github.com/modelcontextprotocol/go-sdk/internal/verifharness/vh"
	"github.com/modelcontextprotocol/go-sdk/internal/verifharness/vhm"
	"github.com/modelcontextprotocol/go-sdk/jsonrpc"
	"github.com/modelcontextprotocol/go-sdk/mcp"
)

type c17Spec struct {
	Kind     string   `json:"kind"` // tools | prompts | resources | templates
	PageSize int      `json:"page_size"`
	Version  string   `json:"version"`
	Initial  []string `json:"initial"`
	Steps    []string `json:"steps"` // log of what happened, filled while running
}

var c17Names = []string{"a", "a-b", "ab", "a/b", "b", "B", "tool-10", "tool-2", "tool-1", "z", "é", "日本", "x.y", "x_y", "m1", "m2", "m3", "m4", "m5", "m6", "m7", "m8", "m9", "m10", "m11", "m12", "k", "Alpha", "alpha", "Bravo", "bravo", "Zulu", "golf", "Golf",
	"long-" + strings.Repeat("n", 170), "long-" + strings.Repeat("n", 169) + "m", "very-long-" + strings.Repeat("q", 400)}

func TestVerifC17(t *testing.T) {
	cfg := vh.Config{
		Property: "C17",
		Cases:    vh.Pick(1500, 80000),
		Rule: "each case: one feature kind, page size 1..7 (or larger than the set), 0..14 initially registered items with names sharing prefixes / unicode; a manual traversal during which, between any two page fetches, items are added, removed or replaced (p=1/2 per gap) and hostile cursors are sent (p=1/3 per gap); " +
			"then, at rest, a second manual traversal, the client iterator from the start and from every cursor issued. non-trivial: a traversal of >=2 pages with >=1 mutation between pages. distinct = distinct (kind, page size, initial set, mutation log)",
		MinNontrivial: 100,
		Assumptions:   []string{"a tampered cursor that still decodes to a well-formed token is an (arbitrary but) valid cursor: a page or -32602 are both acceptable for it; clearly malformed cursors must yield -32602"},
	}
	vh.Run(t, cfg, func(c *vh.Case) {
		c.Bubble("", func() { runC17(c) })
	})
}

func runC17(c *vh.Case) {
	r := c.R
	ctx := context.Background()
	spec := c17Spec{Kind: r.Choose("tools", "prompts", "resources", "templates"), PageSize: r.Range(1, 7), Version: r.Choose("2025-06-18", "2025-11-25", "2026-07-28")}
	if r.Chance(1, 8) {
		spec.PageSize = 100
		if r.Chance(1, 3) {
			spec.PageSize = []int{math.MaxInt, math.MaxInt - 1, math.MaxInt32}[r.Intn(3)] // "no limit"
		}
	}
	server := mcp.NewServer(&mcp.Implementation{Name: "s", Version: "1"}, &mcp.ServerOptions{PageSize: spec.PageSize, HasTools: true, HasPrompts: true, HasResources: true})
	registered := map[string]bool{}
	// every registration of an id carries its own description ("gen N"): a listing must show the definition that is
	// registered when the page is fetched, not one that a Replace has since superseded
	curDesc := map[string]string{}
	gen := 0
	idOf := func(name string) string {
		switch spec.Kind {
		case "resources":
			return "file:///" + name
		case "templates":
			return "file:///{x}/" + strings.ReplaceAll(name, "/", "%2F")
		}
		return name
	}
	add := func(name string) {
		gen++
		desc := fmt.Sprintf("gen %d", gen)
		curDesc[idOf(name)] = desc
		switch spec.Kind {
		case "tools":
			server.AddTool(&mcp.Tool{Name: name, Description: desc, InputSchema: json.RawMessage(`{"type":"object"}`)}, func(context.Context, *mcp.CallToolRequest) (*mcp.CallToolResult, error) {
				return &mcp.CallToolResult{}, nil
			})
		case "prompts":
			server.AddPrompt(&mcp.Prompt{Name: name, Description: desc}, func(context.Context, *mcp.GetPromptRequest) (*mcp.GetPromptResult, error) {
				return &mcp.GetPromptResult{}, nil
			})
		case "resources":
			server.AddResource(&mcp.Resource{URI: idOf(name), Name: name, Description: desc}, func(context.Context, *mcp.ReadResourceRequest) (*mcp.ReadResourceResult, error) {
				return &mcp.ReadResourceResult{}, nil
			})
		case "templates":
			server.AddResourceTemplate(&mcp.ResourceTemplate{URITemplate: idOf(name), Name: name, Description: desc}, func(context.Context, *mcp.ReadResourceRequest) (*mcp.ReadResourceResult, error) {
				return &mcp.ReadResourceResult{}, nil
			})
		}
		registered[idOf(name)] = true
	}
	remove := func(name string, extra ...string) {
		// extra: further names in the same call (unknown ones among them, in any position)
		all := append([]string{name}, extra...)
		ids := make([]string, len(all))
		for i, n := range all {
			ids[i] = idOf(n)
		}
		switch spec.Kind {
		case "tools":
			server.RemoveTools(all...)
		case "prompts":
			server.RemovePrompts(all...)
		case "resources":
			server.RemoveResources(ids...)
		case "templates":
			server.RemoveResourceTemplates(ids...)
		}
		for _, id := range ids {
			delete(registered, id)
		}
	}
	names := append([]string(nil), c17Names...)
	if spec.Kind == "tools" || spec.Kind == "prompts" {
		// tool and prompt names have a restricted alphabet in some protocol versions; keep them plain
		names = nil
		for _, n := range c17Names {
			if strings.IndexFunc(n, func(ch rune) bool { return ch > 127 || ch == '/' }) < 0 {
				names = append(names, n)
			}
		}
	}
	if spec.Kind == "prompts" {
		names = append(names, "") // the SDK accepts a prompt without a name; it sorts before every other and may end a page
	}
	r.Shuffle(len(names), func(i, j int) { names[i], names[j] = names[j], names[i] })
	n0 := r.Range(0, min(14, len(names)))
	for _, n := range names[:n0] {
		add(n)
		spec.Initial = append(spec.Initial, n)
	}
	pool := names[n0:]
	// A page that arrives empty but with a cursor (a filtering proxy or middleware in front of the list; for tools also
	// the client's own dropping of definitions it cannot use): armed by the at-rest part below for one cursor.
	var blankMu sync.Mutex
	blankArmed, blankCursor, blanked := false, "", 0
	server.AddReceivingMiddleware(func(next mcp.MethodHandler) mcp.MethodHandler {
		return func(ctx context.Context, method string, req mcp.Request) (mcp.Result, error) {
			res, err := next(ctx, method, req)
			blankMu.Lock()
			defer blankMu.Unlock()
			if err != nil || !blankArmed {
				return res, err
			}
			switch v := res.(type) {
			case *mcp.ListToolsResult:
				if req.GetParams().(*mcp.ListToolsParams).Cursor == blankCursor && v.NextCursor != "" {
					v.Tools, blanked = []*mcp.Tool{}, blanked+1
				}
			case *mcp.ListPromptsResult:
				if req.GetParams().(*mcp.ListPromptsParams).Cursor == blankCursor && v.NextCursor != "" {
					v.Prompts, blanked = []*mcp.Prompt{}, blanked+1
				}
			case *mcp.ListResourcesResult:
				if req.GetParams().(*mcp.ListResourcesParams).Cursor == blankCursor && v.NextCursor != "" {
					v.Resources, blanked = []*mcp.Resource{}, blanked+1
				}
			case *mcp.ListResourceTemplatesResult:
				if req.GetParams().(*mcp.ListResourceTemplatesParams).Cursor == blankCursor && v.NextCursor != "" {
					v.ResourceTemplates, blanked = []*mcp.ResourceTemplate{}, blanked+1
				}
			}
			return res, err
		}
	})
	client := mcp.NewClient(&mcp.Implementation{Name: "c", Version: "1"}, nil)
	pair, err := vhm.Connect(ctx, vhm.PairOpts{Kind: "mem", Server: server, Client: client, ClientVersion: spec.Version})
	if err != nil {
		c.Inconclusive("connect: %v", err)
		return
	}
	cs := pair.CS
	defer func() {
		c.SetSpec(spec)
		cs.Close()
		pair.SS.Wait()
		time.Sleep(11 * time.Second)
	}()

	// list fetches one page; returns ids, next cursor
	seenDef := func(id, desc string) {
		if registered[id] && desc != curDesc[id] && !c.Violated() {
			c.Violate("stale-definition-listed", "%s %q is listed with description %q, but the definition registered at the time of the fetch is %q (steps %v)", spec.Kind, id, desc, curDesc[id], spec.Steps)
		}
	}
	list := func(cursor string) ([]string, string, error) {
		switch spec.Kind {
		case "tools":
			res, err := cs.ListTools(ctx, &mcp.ListToolsParams{Cursor: cursor})
			if err != nil {
				return nil, "", err
			}
			var ids []string
			for _, t := range res.Tools {
				ids = append(ids, t.Name)
				seenDef(t.Name, t.Description)
			}
			return ids, res.NextCursor, nil
		case "prompts":
			res, err := cs.ListPrompts(ctx, &mcp.ListPromptsParams{Cursor: cursor})
			if err != nil {
				return nil, "", err
			}
			var ids []string
			for _, t := range res.Prompts {
				ids = append(ids, t.Name)
				seenDef(t.Name, t.Description)
			}
			return ids, res.NextCursor, nil
		case "resources":
			res, err := cs.ListResources(ctx, &mcp.ListResourcesParams{Cursor: cursor})
			if err != nil {
				return nil, "", err
			}
			var ids []string
			for _, t := range res.Resources {
				ids = append(ids, t.URI)
				seenDef(t.URI, t.Description)
			}
			return ids, res.NextCursor, nil
		default:
			res, err := cs.ListResourceTemplates(ctx, &mcp.ListResourceTemplatesParams{Cursor: cursor})
			if err != nil {
				return nil, "", err
			}
			var ids []string
			for _, t := range res.ResourceTemplates {
				ids = append(ids, t.URITemplate)
				seenDef(t.URITemplate, t.Description)
			}
			return ids, res.NextCursor, nil
		}
	}
	iterateCtx := func(ictx context.Context, cursor string, onItem func(k int)) ([]string, error) {
		var ids []string
		var ierr error
		got := func(id string) {
			ids = append(ids, id)
			if onItem != nil {
				onItem(len(ids))
			}
		}
		switch spec.Kind {
		case "tools":
			for t, err := range cs.Tools(ictx, &mcp.ListToolsParams{Cursor: cursor}) {
				if err != nil {
					ierr = err
					break
				}
				got(t.Name)
			}
		case "prompts":
			for t, err := range cs.Prompts(ictx, &mcp.ListPromptsParams{Cursor: cursor}) {
				if err != nil {
					ierr = err
					break
				}
				got(t.Name)
			}
		case "resources":
			for t, err := range cs.Resources(ictx, &mcp.ListResourcesParams{Cursor: cursor}) {
				if err != nil {
					ierr = err
					break
				}
				got(t.URI)
			}
		default:
			for t, err := range cs.ResourceTemplates(ictx, &mcp.ListResourceTemplatesParams{Cursor: cursor}) {
				if err != nil {
					ierr = err
					break
				}
				got(t.URITemplate)
			}
		}
		return ids, ierr
	}
	iterate := func(cursor string) ([]string, error) { return iterateCtx(ctx, cursor, nil) }
	var issued []string
	badCursor := func() (string, bool) { // cursor, clearly malformed?
		switch x := r.Intn(11); {
		case x >= 9:
			// length-prefix attacks: a leading tag byte, a ten-byte varint of 2^63 or more, a short tail (a decoder
			// that trusts a declared length must not index with it)
			b := []byte{[]byte{0, 1, 2, 3, 0x7f, 0x80, 0xff}[r.Intn(7)]}
			if r.Bool() {
				b = append(b, 0xff, 0xff, 0xff, 0xff, 0xff, 0xff, 0xff, 0xff, 0xff, 0x01)
			} else {
				b = append(b, 0x80, 0x80, 0x80, 0x80, 0x80, 0x80, 0x80, 0x80, 0x80, 0x01)
			}
			for k := r.Intn(4); k > 0; k-- {
				b = append(b, byte(r.Intn(256)))
			}
			var ref struct{ LastUID string }
			return base64.URLEncoding.EncodeToString(b), gob.NewDecoder(bytes.NewReader(b)).Decode(&ref) != nil
		case x == 0:
			return "not base64 !!", true
		case x == 1:
			return "AAAA", true
		case x == 2:
			return base64.URLEncoding.EncodeToString([]byte(`{"LastUID":"a"}`)), true
		case x == 3:
			var buf bytes.Buffer
			gob.NewEncoder(&buf).Encode(struct{ Other int }{7}) // well-formed gob of another type
			return base64.URLEncoding.EncodeToString(buf.Bytes()), true
		case x == 4:
			b := make([]byte, r.Range(1, 40))
			for i := range b {
				b[i] = byte(r.Intn(256))
			}
			// Arbitrary bytes are malformed unless they happen to be a gob stream that decodes into the token's
			// shape (about one in several thousand does: a lone type id, rest ignored); those are undecided.
			var ref struct{ LastUID string }
			return base64.URLEncoding.EncodeToString(b), gob.NewDecoder(bytes.NewReader(b)).Decode(&ref) != nil
		case x == 5:
			return "\n", true
		case x == 6 && len(issued) > 0:
			cu := issued[r.Intn(len(issued))]
			return cu[:len(cu)/2], false // truncated genuine cursor: usually malformed, conceivably not
		case x == 7 && len(issued) > 0:
			cu := []byte(issued[r.Intn(len(issued))])
			cu[r.Intn(len(cu))] ^= 1
			return string(cu), false
		}
		return strings.Repeat("A", 5000), true
	}
	sendBad := func() bool {
		cu, malformed := badCursor()
		_, _, err := list(cu)
		spec.Steps = append(spec.Steps, fmt.Sprintf("bad-cursor(%q malformed=%v)->%v", trunc80(cu), malformed, err != nil))
		c.Count("hostile_cursors", 1)
		if err == nil {
			if malformed {
				c.Violate("malformed-cursor-accepted", "%s list with malformed cursor %q returned a page", spec.Kind, trunc80(cu))
				return false
			}
			return true
		}
		var je *jsonrpc.Error
		if !errors.As(err, &je) || je.Code != -32602 {
			c.Violate("malformed-cursor-wrong-error", "%s list with cursor %q failed with %v, not with invalid-params (-32602)", spec.Kind, trunc80(cu), err)
			return false
		}
		return true
	}

	// use: one of the registered features is used (called, fetched, read; a template through a URI it matches).
	// Serving a feature must leave the listing alone.
	use := func() {
		var have []string
		for _, n := range names {
			if registered[idOf(n)] {
				have = append(have, n)
			}
		}
		if len(have) == 0 {
			return
		}
		v := have[r.Intn(len(have))]
		var err error
		switch spec.Kind {
		case "tools":
			_, err = cs.CallTool(ctx, &mcp.CallToolParams{Name: v})
		case "prompts":
			_, err = cs.GetPrompt(ctx, &mcp.GetPromptParams{Name: v})
		case "resources":
			_, err = cs.ReadResource(ctx, &mcp.ReadResourceParams{URI: idOf(v)})
		default:
			_, err = cs.ReadResource(ctx, &mcp.ReadResourceParams{URI: strings.Replace(idOf(v), "{x}", "some-value", 1)})
		}
		spec.Steps = append(spec.Steps, fmt.Sprintf("use %s (err: %v)", v, err != nil))
		c.Count("features_used_during_traversals", 1)
		if err == nil {
			c.Count("features_used_successfully", 1)
		}
	}
	if r.Chance(1, 3) {
		use()
	}
	// ---- traversal 1: mutations between page fetches
	initial := map[string]bool{}
	for id := range registered {
		initial[id] = true
	}
	removedEver := map[string]bool{}
	var seq1 []string
	cursor := ""
	pages, mutations := 0, 0
	for {
		if cursor != "" && r.Chance(1, 3) {
			// the same page is requested twice (a retry, or a second client paging in lock step) with an
			// addition in between; the page actually used is the second one
			if _, _, err := list(cursor); err != nil {
				c.Violate("list-failed", "%s list with an issued cursor failed: %v", spec.Kind, err)
				return
			}
			if len(pool) > 0 {
				add(pool[0])
				spec.Steps = append(spec.Steps, "refetch; add "+pool[0])
				pool = pool[1:]
				mutations++
			}
		}
		ids, next, err := list(cursor)
		if err != nil {
			c.Violate("list-failed", "%s list with an issued cursor failed: %v (steps %v)", spec.Kind, err, spec.Steps)
			return
		}
		pages++
		if len(ids) > spec.PageSize {
			c.Violate("page-too-large", "page of %d items with page size %d", len(ids), spec.PageSize)
			return
		}
		seq1 = append(seq1, ids...)
		spec.Steps = append(spec.Steps, fmt.Sprintf("page%v", ids))
		if next == "" {
			break
		}
		issued = append(issued, next)
		cursor = next
		if pages > 60 {
			c.Violate("traversal-does-not-end", "more than 60 pages for at most %d items", len(c17Names))
			return
		}
		if r.Chance(1, 2) {
			mutations++
			switch x := r.Intn(4); {
			case x == 3 && len(pool) > 0 && len(registered) > 0:
				// as many items removed as added, with no list call in between (the set keeps its size)
				k := r.Range(1, min(2, len(pool)))
				for ; k > 0 && len(registered) > 0; k-- {
					var have []string
					for _, n := range names {
						if registered[idOf(n)] {
							have = append(have, n)
						}
					}
					v := have[r.Intn(len(have))]
					remove(v)
					removedEver[idOf(v)] = true
					nw := pool[0]
					pool = append(pool[1:], v)
					add(nw)
					spec.Steps = append(spec.Steps, "swap "+v+"->"+nw)
				}
			case x == 0 && len(pool) > 0:
				add(pool[0])
				spec.Steps = append(spec.Steps, "add "+pool[0])
				pool = pool[1:]
			case x == 1 && len(registered) > 0:
				var have []string
				for _, n := range names {
					if registered[idOf(n)] {
						have = append(have, n)
					}
				}
				v := have[r.Intn(len(have))]
				switch r.Intn(4) {
				case 0:
					remove(v, "no-such-item")
					spec.Steps = append(spec.Steps, "remove "+v+"+unknown")
				case 1:
					remove("no-such-item", v, "neither-this")
					spec.Steps = append(spec.Steps, "remove unknown+"+v+"+unknown")
				default:
					remove(v)
					spec.Steps = append(spec.Steps, "remove "+v)
				}
				removedEver[idOf(v)] = true
				pool = append(pool, v)
			default:
				var have []string
				for _, n := range names {
					if registered[idOf(n)] {
						have = append(have, n)
					}
				}
				if len(have) > 0 {
					v := have[r.Intn(len(have))]
					add(v) // replace
					spec.Steps = append(spec.Steps, "replace "+v)
				}
			}
		}
		if r.Chance(1, 3) {
			use()
		}
		if r.Chance(1, 3) && !sendBad() {
			return
		}
	}
	count := map[string]int{}
	for _, id := range seq1 {
		count[id]++
		if count[id] > 1 {
			c.Violate("item-listed-twice", "%s %q appears twice in one traversal: %v (steps %v)", spec.Kind, id, seq1, spec.Steps)
			return
		}
	}
	for id := range initial {
		if !removedEver[id] && count[id] != 1 {
			c.Violate("stable-item-missing", "%s %q stayed registered throughout the traversal but was listed %d times: %v (steps %v)", spec.Kind, id, count[id], seq1, spec.Steps)
			return
		}
	}
	// ---- at rest: second traversal, iterators
	var seq2 []string
	var cursors2 []string
	cursor = ""
	for p := 0; ; p++ {
		ids, next, err := list(cursor)
		if err != nil {
			c.Violate("list-failed", "%s list failed at rest: %v", spec.Kind, err)
			return
		}
		seq2 = append(seq2, ids...)
		if next == "" {
			break
		}
		cursors2 = append(cursors2, next)
		cursor = next
		if p > 60 {
			c.Violate("traversal-does-not-end", "more than 60 pages at rest")
			return
		}
		if r.Chance(1, 4) && !sendBad() {
			return
		}
	}
	want := make([]string, 0, len(registered))
	for id := range registered {
		want = append(want, id)
	}
	got := append([]string(nil), seq2...)
	sort.Strings(want)
	sort.Strings(got)
	if strings.Join(want, "\x00") != strings.Join(got, "\x00") {
		c.Violate("traversal-differs-from-registry", "at rest the traversal returned %v, registered are %v", seq2, want)
		return
	}
	// one stable order: any two items listed by both traversals keep their relative order
	pos1 := map[string]int{}
	for i, id := range seq1 {
		pos1[id] = i
	}
	last := -1
	for _, id := range seq2 {
		if p, ok := pos1[id]; ok {
			if p < last {
				c.Violate("order-not-stable", "items appear in different relative order in two traversals: %v vs %v", seq1, seq2)
				return
			}
			last = p
		}
	}
	it, err := iterate("")
	if err != nil || strings.Join(it, "\x00") != strings.Join(seq2, "\x00") {
		c.Violate("iterator-differs-from-manual-paging", "client iterator yielded %v (err %v), manual paging %v", it, err, seq2)
		return
	}
	// a caller that gives up while it works through a page: the iterator reports that, as manual paging would
	// (the next list call fails), instead of ending as if the traversal were complete
	if len(seq2) > spec.PageSize && spec.PageSize > 0 {
		cctx, cancel := context.WithCancel(ctx)
		part, err := iterateCtx(cctx, "", func(k int) {
			if k == spec.PageSize {
				cancel() // the last item of the first page is being processed
			}
		})
		cancel()
		if err == nil && len(part) < len(seq2) {
			c.Violate("iterator-differs-from-manual-paging", "the caller's context ended while it processed the first page: the client iterator yielded %v and then ended without an error although %d items remain (manual paging reports the context's error at that point)", part, len(seq2)-len(part))
			return
		}
		c.Count("iterators_cancelled_mid_traversal", 1)
	}
	// a page that comes back empty but with a cursor is not the end: manual paging goes on, so must the iterator
	if len(cursors2) > 0 {
		blankMu.Lock()
		blankArmed, blankCursor = true, append([]string{""}, cursors2[:len(cursors2)-1]...)[r.Intn(len(cursors2))]
		blankMu.Unlock()
		var manual []string
		cc := blankCursor
		for p := 0; p < 80; p++ {
			ids, next, err := list(cc)
			if err != nil {
				c.Violate("list-failed", "%s list failed: %v", spec.Kind, err)
				return
			}
			manual = append(manual, ids...)
			if next == "" {
				break
			}
			cc = next
		}
		it, err := iterate(blankCursor)
		blankMu.Lock()
		blankArmed = false
		nBlanked := blanked
		blankMu.Unlock()
		if nBlanked < 2 {
			c.Inconclusive("the page meant to arrive empty was fetched %d times, not by both traversals", nBlanked)
			return
		}
		if err != nil || strings.Join(it, "\x00") != strings.Join(manual, "\x00") {
			c.Violate("iterator-differs-from-manual-paging", "with the page behind cursor %q arriving empty (its cursor intact), the client iterator yielded %v (err %v), manual paging %v", trunc80(blankCursor), it, err, manual)
			return
		}
		c.Count("empty_pages_with_cursor", 1)
	}
	// iterators started from every cursor issued at rest continue exactly from there
	for i, cu := range cursors2 {
		var manual []string
		cc := cu
		for {
			ids, next, err := list(cc)
			if err != nil {
				c.Violate("list-failed", "%s list failed: %v", spec.Kind, err)
				return
			}
			manual = append(manual, ids...)
			if next == "" {
				break
			}
			cc = next
		}
		it, err := iterate(cu)
		if err != nil || strings.Join(it, "\x00") != strings.Join(manual, "\x00") {
			c.Violate("iterator-differs-from-manual-paging", "client iterator started from cursor #%d yielded %v (err %v), manual paging from that cursor %v", i, it, err, manual)
			return
		}
	}
	// the server is alive after all hostile cursors
	if err := cs.Ping(ctx, nil); err != nil {
		c.Violate("server-dead-after-cursors", "ping failed: %v", err)
		return
	}
	c.Count("pages", pages)
	if pages >= 2 && mutations >= 1 {
		c.Nontrivial(fmt.Sprintf("%s/%d/%v/%v", spec.Kind, spec.PageSize, spec.Initial, spec.Steps))
	}
}

var _ = testing.Short
