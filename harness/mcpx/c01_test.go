//go:build verif

// C01 — every outgoing call completes exactly once, with its own response or an error.
//
// A real ClientSession / ServerSession runs over a scripted mcp.Connection
// (vhm.ScriptConn), i.e. the harness *is* the session's Reader/Writer/Closer.
// Every completing event (response returned by Read, cancel, failed write,
// reader failure) is recorded at that boundary with its virtual instant; the
// oracle computes, per call, the instant at which it must return and the set of
// outcomes it may return with.
package mcpx

import (
	"bufio"
	"context"
	"encoding/json"
	"errors"
	"fmt"
	"io"
	"math"
	"strings"
	"sync"
	"testing"
	"time"

	"github.com/modelcontextprotocol/go-sdk/internal/jsonrpc2"
	"github.com/modelcontextprotocol/go-sdk/internal/verifharness/vh"
	"github.com/modelcontextprotocol/go-sdk/internal/verifharness/vhm"
	"github.com/modelcontextprotocol/go-sdk/jsonrpc"
	"github.com/modelcontextprotocol/go-sdk/mcp"
)

type c01Call struct {
	N         int    `json:"n"`
	StartAt   int    `json:"start_ms"`
	CancelAt  int    `json:"cancel_ms"` // -1 never
	Write     string `json:"write"`     // ok | park | broken | rejected
	ParkMs    int    `json:"park_ms,omitempty"`
	Resp      string `json:"resp"` // ok | err | never | twice | wrongid | strid | inside
	RespDelay int    `json:"resp_delay_ms"`
}

type c01Spec struct {
	Side       string    `json:"side"` // client | server
	Calls      []c01Call `json:"calls"`
	ReadFailAt int       `json:"read_fail_ms"` // -1 never (before EndAt)
	ReadFailEO bool      `json:"read_fail_eof"`
	CloseAt    int       `json:"close_ms"` // -1 never
	Closers    int       `json:"closers"`
	Waiters    int       `json:"waiters"`
	EndAt      int       `json:"end_ms"`
	PostCalls  int       `json:"post_calls"`
	Storm      int       `json:"storm,omitempty"`  // client side: this many peer requests are parked in handlers when the reader hits EOF
	Modern     bool      `json:"modern,omitempty"` // client side: the session is negotiated at 2026-07-28 (server/discover); post-termination calls include Subscribe
	Logged     bool      `json:"logged,omitempty"` // the scripted transport is wrapped in the SDK's LoggingTransport (which must pass every outcome through)
}

func genC01(r *vh.Rand) c01Spec {
	s := c01Spec{Side: r.Choose("client", "client", "server", "wire"), ReadFailAt: -1, CloseAt: -1}
	k := r.Range(1, vh.Pick(8, 24))
	horizon := r.Range(3, 9)
	for i := 0; i < k; i++ {
		cs := c01Call{N: i + 1, StartAt: r.Intn(horizon), CancelAt: -1, Write: "ok", Resp: "ok", RespDelay: r.Intn(5)}
		if r.Chance(1, 3) {
			cs.CancelAt = cs.StartAt + r.Intn(6)
		}
		switch x := r.Intn(20); {
		case x < 2:
			cs.Write, cs.ParkMs = "park", r.Range(1, 5)
		case x < 3:
			cs.Write = "broken"
		case x < 5:
			cs.Write = "rejected"
		case x < 6:
			cs.Write = "unencodable" // params that cannot be JSON-encoded: the call fails before anything is written
		}
		cs.Resp = []string{"ok", "ok", "ok", "err", "err", "never", "twice", "wrongid", "strid", "inside"}[r.Intn(10)]
		s.Calls = append(s.Calls, cs)
	}
	if r.Chance(1, 4) {
		s.ReadFailAt, s.ReadFailEO = r.Intn(horizon+4), r.Bool()
	}
	if r.Chance(1, 3) {
		s.CloseAt, s.Closers = r.Intn(horizon+4), r.Range(1, 3)
	}
	if s.Side == "wire" {
		for i := range s.Calls {
			s.Calls[i].Write = "ok"
			if s.Calls[i].Resp == "inside" {
				s.Calls[i].Resp = "ok"
			}
		}
	}
	if s.Side == "client" && r.Chance(1, 12) {
		// Directed shape: the reader ends (EOF, the write side keeps working) at the very instant a
		// burst of calls starts, while many peer requests are parked in handlers.
		s.Storm = r.Range(16, 96)
		t := r.Range(1, 4)
		s.ReadFailAt, s.ReadFailEO, s.CloseAt = t, true, -1
		s.Calls = nil
		for i := 0; i < 8; i++ {
			s.Calls = append(s.Calls, c01Call{N: i + 1, StartAt: t, CancelAt: -1, Write: "ok", Resp: "never"})
		}
	}
	s.Waiters = r.Intn(3)
	s.EndAt = horizon + 14
	s.PostCalls = r.Range(1, 3)
	s.Modern = s.Side == "client" && s.Storm == 0 && r.Chance(1, 3)
	s.Logged = s.Side != "wire" && r.Chance(1, 5)
	return s
}

const (
	c01Broken  = "verif-broken-pipe"
	c01ReadErr = "verif-read-failure"
)

func ms(n int) time.Duration { return time.Duration(n) * time.Millisecond }

func TestVerifC01(t *testing.T) {
	cfg := vh.Config{
		Property: "C01",
		Cases:    vh.Pick(3000, 120000),
		Rule: "each case: a real ClientSession (2/3) or ServerSession (1/3) over a scripted Connection; 1..8 (thorough 1..24) concurrent calls with start/cancel instants in a 0..14 ms window " +
			"(collisions intended), per-call write fate {ok, parked, broken, rejected} and response fate {ok, rpc error, never, twice, wrong id, id of other JSON type, delivered inside Write}, " +
			"optional reader EOF/error and Close from 1-3 goroutines, peer vanishes at the end, then calls after Wait. non-trivial: >=2 calls overlapping in time and >=1 fault or cancel; " +
			"distinct = distinct sequences of boundary event kinds in logical-clock order",
		MinNontrivial: 100,
		Assumptions: []string{"scripted writer honours its context while parked", "handlers on the peer side are the script itself", "permitted-outcome set is computed from events observed at the session's own Read/Write boundary",
			"ties at one virtual instant permit either outcome"},
	}
	vh.Run(t, cfg, func(c *vh.Case) {
		if c.Index%40 == 3 {
			// IOTransport with awkward streams (c01io_test.go)
			spec := genC01IO(c.R)
			c.SetSpec(spec)
			if c.Bubble("", func() { runC01IO(c, spec) }) {
				decideC01IO(c, spec)
			}
			return
		}
		if c.Index%40 == 27 {
			// the legacy HTTP+SSE client: calls whose POST is unanswered when the event stream ends (c01sse_test.go)
			spec := genC01SSE(c.R)
			c.SetSpec(spec)
			if c.Bubble("", func() { runC01SSE(c, spec) }) {
				decideC01SSE(c, spec)
			}
			return
		}
		if c.Index%40 == 11 {
			// outside the bubble: the real client transport over net/http and a loopback socket (c01real_test.go)
			spec := genC01Real(c.R)
			c.SetSpec(spec)
			runC01Real(c, spec)
			return
		}
		if c.Index%8 == 5 {
			// the streamable HTTP client: calls whose POST is still unanswered when the session fails (c01http_test.go)
			spec := genC01HTTP(c.R)
			c.SetSpec(spec)
			if c.Bubble("", func() { runC01HTTP(c, spec) }) {
				decideC01HTTP(c, spec)
			}
			return
		}
		spec := genC01(c.R)
		c.SetSpec(spec)
		c.Bubble("", func() { runC01(c, spec) })
		decideC01(c, spec)
	})
}

func nonceOfParams(raw json.RawMessage) int {
	var p struct {
		Meta      map[string]any `json:"_meta"`
		Arguments map[string]any `json:"arguments"`
	}
	if json.Unmarshal(raw, &p) != nil {
		return 0
	}
	if v, ok := p.Arguments["nonce"].(float64); ok {
		return int(v)
	}
	if v, ok := p.Meta["nonce"].(float64); ok {
		return int(v)
	}
	return 0
}

func runC01(c *vh.Case, spec c01Spec) {
	if spec.Side == "wire" {
		runC01Wire(c, spec)
		return
	}
	log := c.Log
	sc := vhm.NewScriptConn(log)
	byN := map[int]c01Call{}
	for _, cs := range spec.Calls {
		byN[cs.N] = cs
	}
	method := "tools/call"
	if spec.Side == "server" {
		method = "roots/list"
	}
	okResult := func(n int) string {
		if spec.Side == "server" {
			return fmt.Sprintf(`{"roots":[{"uri":"file:///nonce-%d"}]}`, n)
		}
		return fmt.Sprintf(`{"content":[{"type":"text","text":"nonce-%d"}]}`, n)
	}
	var bg sync.WaitGroup
	sc.OnWrite = func(ctx context.Context, msg jsonrpc.Message) error {
		req, ok := msg.(*jsonrpc.Request)
		if !ok || !req.IsCall() {
			return nil
		}
		if req.Method == "initialize" {
			sc.Inject(vhm.Resp(req.ID, vhm.InitializeResultJSON("2025-06-18")))
			return nil
		}
		if req.Method == "server/discover" {
			sc.Inject(vhm.Resp(req.ID, `{"supportedVersions":["2026-07-28","2025-11-25"],"capabilities":{"tools":{},"resources":{"subscribe":true}},"serverInfo":{"name":"scripted","version":"0"}}`))
			return nil
		}
		if req.Method == "subscriptions/listen" {
			return nil // a stream: never answered
		}
		if req.Method != method {
			sc.Inject(vhm.Resp(req.ID, `{}`))
			return nil
		}
		n := nonceOfParams(req.Params)
		cs, ok := byN[n]
		log.Add("req-seen", "n", n, "id", vhm.IDString(req.ID))
		if !ok { // post-termination calls never get here; anything else is answered ok
			sc.Inject(vhm.Resp(req.ID, okResult(n)))
			return nil
		}
		switch cs.Write {
		case "park":
			select {
			case <-time.After(ms(cs.ParkMs)):
			case <-ctx.Done():
				return ctx.Err()
			case <-sc.Closed(): // a transport that honours Close unblocks a parked Write
				return errors.New(c01Broken)
			}
		case "broken":
			return errors.New(c01Broken)
		case "rejected":
			return fmt.Errorf("%w: %s", jsonrpc2.ErrRejected, "verif-rejected")
		}
		id := req.ID
		respond := func() {
			switch cs.Resp {
			case "ok", "inside":
				sc.Inject(vhm.Resp(id, okResult(n)))
			case "err":
				sc.Inject(vhm.ErrResp(id, int64(1000+n), fmt.Sprintf("scripted-error-%d", n), fmt.Sprintf(`{"n":%d,"k":"<&>"}`, n)))
			case "never":
			case "twice":
				sc.Inject(vhm.Resp(id, okResult(n)))
				sc.Inject(vhm.Resp(id, okResult(n+5000)))
			case "wrongid":
				sc.Inject(vhm.Resp(vhm.MustID(int64(900000+n)), okResult(n+6000)))
			case "strid":
				sc.Inject(vhm.Resp(vhm.MustID(fmt.Sprint(id.Raw())), okResult(n+7000)))
				time.Sleep(ms(1))
				sc.Inject(vhm.Resp(id, okResult(n)))
			}
		}
		if cs.Resp == "inside" {
			sc.InjectWait(vhm.Resp(id, okResult(n)))
			return nil
		}
		bg.Add(1)
		go func() {
			defer bg.Done()
			time.Sleep(ms(cs.RespDelay))
			respond()
		}()
		return nil
	}

	ctx := context.Background()
	var (
		doSubscribe func(ctx context.Context, n int) error
		doCall      func(ctx context.Context, n int) (string, error)
		doClose     func() error
		doWait      func() error
		server      *mcp.Server
	)
	if spec.Side == "client" {
		var copts *mcp.ClientOptions
		if spec.Storm > 0 {
			copts = &mcp.ClientOptions{CreateMessageHandler: func(ctx context.Context, _ *mcp.CreateMessageRequest) (*mcp.CreateMessageResult, error) {
				<-ctx.Done() // parked until the session ends
				return nil, ctx.Err()
			}}
		}
		client := mcp.NewClient(&mcp.Implementation{Name: "c", Version: "1"}, copts)
		cso := &mcp.ClientSessionOptions{ProtocolVersion: "2025-06-18"}
		if spec.Modern {
			cso = nil
		}
		var tr mcp.Transport = sc
		if spec.Logged {
			tr = &mcp.LoggingTransport{Transport: sc, Writer: io.Discard}
		}
		cs, err := client.Connect(ctx, tr, cso)
		if err != nil {
			c.Inconclusive("client connect: %v", err)
			return
		}
		if spec.Modern {
			if v := cs.InitializeResult().ProtocolVersion; v != "2026-07-28" {
				c.Inconclusive("expected a 2026-07-28 session, got %s", v)
				return
			}
			doSubscribe = func(ctx context.Context, n int) error {
				return cs.Subscribe(ctx, &mcp.SubscribeParams{URI: fmt.Sprintf("file:///post-%d", n)})
			}
		}
		for i := 0; i < spec.Storm; i++ {
			sc.Inject(vhm.Req(fmt.Sprintf("storm-%d", i), "sampling/createMessage", `{"maxTokens":1,"messages":[{"role":"user","content":{"type":"text","text":"x"}}]}`))
		}
		doCall = func(ctx context.Context, n int) (string, error) {
			args := map[string]any{"nonce": n}
			if byN[n].Write == "unencodable" {
				args["bad"] = math.NaN()
			}
			res, err := cs.CallTool(ctx, &mcp.CallToolParams{Name: "echo", Arguments: args})
			if err != nil {
				return "", err
			}
			if len(res.Content) == 1 {
				if tc, ok := res.Content[0].(*mcp.TextContent); ok {
					return tc.Text, nil
				}
			}
			return fmt.Sprintf("unexpected-result:%s", vh.JSON(res)), nil
		}
		doClose, doWait = cs.Close, cs.Wait
	} else {
		server = mcp.NewServer(&mcp.Implementation{Name: "s", Version: "1"}, nil)
		var tr mcp.Transport = sc
		if spec.Logged {
			tr = &mcp.LoggingTransport{Transport: sc, Writer: io.Discard}
		}
		ss, err := server.Connect(ctx, tr, nil)
		if err != nil {
			c.Inconclusive("server connect: %v", err)
			return
		}
		sc.InjectWait(vhm.Req("init", "initialize", `{"protocolVersion":"2025-06-18","capabilities":{"roots":{}},"clientInfo":{"name":"x","version":"1"}}`))
		sc.InjectWait(vhm.Req(nil, "notifications/initialized", `{}`))
		synctestWait()
		doCall = func(ctx context.Context, n int) (string, error) {
			meta := mcp.Meta{"nonce": n}
			if byN[n].Write == "unencodable" {
				meta["bad"] = math.NaN()
			}
			res, err := ss.ListRoots(ctx, &mcp.ListRootsParams{Meta: meta})
			if err != nil {
				return "", err
			}
			if len(res.Roots) == 1 {
				return strings.TrimPrefix(res.Roots[0].URI, "file:///"), nil
			}
			return fmt.Sprintf("unexpected-result:%s", vh.JSON(res)), nil
		}
		doClose, doWait = ss.Close, ss.Wait
	}
	log.Add("connected")

	var calls sync.WaitGroup
	runCall := func(n int, cancelAt int, startAt int) {
		defer calls.Done()
		defer c.Guard("")
		cctx, cancel := context.WithCancel(ctx)
		defer cancel()
		if cancelAt >= 0 {
			bg.Add(1)
			go func() {
				defer bg.Done()
				time.Sleep(ms(cancelAt - startAt))
				log.Add("cancel", "n", n)
				cancel()
			}()
		}
		log.Add("call-start", "n", n)
		payload, err := doCall(cctx, n)
		log.Add("call-return", "n", n, "outcome", classifyC01(payload, err), "err", errText(err))
	}
	for _, cs := range spec.Calls {
		cs := cs
		calls.Add(1)
		go func() {
			time.Sleep(ms(cs.StartAt))
			runCall(cs.N, cs.CancelAt, cs.StartAt)
		}()
	}
	if spec.ReadFailAt >= 0 {
		bg.Add(1)
		go func() {
			defer bg.Done()
			time.Sleep(ms(spec.ReadFailAt))
			if spec.ReadFailEO {
				sc.FailRead(io.EOF)
			} else {
				sc.FailRead(errors.New(c01ReadErr))
			}
		}()
	}
	if spec.CloseAt >= 0 {
		for i := 0; i < spec.Closers; i++ {
			bg.Add(1)
			go func() {
				defer bg.Done()
				defer c.Guard("")
				time.Sleep(ms(spec.CloseAt))
				log.Add("close-called")
				doClose()
				log.Add("close-returned")
			}()
		}
	}
	var waiters sync.WaitGroup
	for i := 0; i < spec.Waiters+1; i++ {
		waiters.Add(1)
		go func() {
			defer waiters.Done()
			doWait()
			log.Add("wait-returned")
		}()
	}
	// the peer vanishes
	time.Sleep(ms(spec.EndAt))
	log.Add("peer-vanishes")
	sc.FailRead(io.EOF)
	waiters.Wait()
	synctestWait()
	log.Add("after-wait")
	// calls after the session has terminated
	for i := 0; i < spec.PostCalls; i++ {
		calls.Add(1)
		go runCall(10000+i, -1, 0)
	}
	if doSubscribe != nil {
		// opening a stream is a call too: on a terminated session it must fail at once, naming the reason
		for i := 0; i < 1+spec.PostCalls; i++ {
			n := 20000 + i
			log.Add("call-start", "n", n)
			err := doSubscribe(ctx, n)
			log.Add("call-return", "n", n, "outcome", classifyC01("subscribed", err), "err", errText(err))
		}
	}
	calls.Wait()
	bg.Wait()
	if server != nil {
		n := 0
		for range server.Sessions() {
			n++
		}
		log.Add("sessions-after-wait", "n", n)
	}
	time.Sleep(11 * time.Second) // past the 5 s cancel-notify and 10 s notify helpers
}

func errText(err error) string {
	if err == nil {
		return ""
	}
	s := err.Error()
	if len(s) > 200 {
		s = s[:200]
	}
	return s
}

// classifyC01 maps a call result to an outcome class with its payload.
func classifyC01(payload string, err error) string {
	var we *jsonrpc.Error
	switch {
	case err == nil:
		return "ok:" + payload
	case errors.Is(err, mcp.ErrConnectionClosed):
		return "closed"
	case errors.Is(err, context.Canceled):
		return "ctx"
	case strings.Contains(err.Error(), c01Broken):
		return "wbroken"
	case strings.Contains(err.Error(), "verif-rejected"):
		return "wrejected"
	case strings.Contains(err.Error(), "unsupported value"):
		return "unencodable"
	case strings.Contains(err.Error(), c01ReadErr):
		return "readerr"
	case errors.Is(err, io.EOF) || strings.Contains(err.Error(), "EOF"):
		return "readerr"
	case errors.As(err, &we) && we.Code >= 1000:
		return fmt.Sprintf("rpcerr:%d:%s:%s", we.Code, we.Message, string(we.Data))
	}
	return "other:" + err.Error()
}

func fstr(e vh.Event, k string) string {
	if v, ok := e.F[k]; ok {
		return fmt.Sprint(v)
	}
	return ""
}

func fint(e vh.Event, k string) int {
	switch v := e.F[k].(type) {
	case int:
		return v
	case int64:
		return int(v)
	case float64:
		return int(v)
	}
	return 0
}

// decideC01 is the oracle: it sees only the boundary event log.
func decideC01(c *vh.Case, spec c01Spec) {
	if c.Violated() {
		return
	}
	evs := c.Log.Events()
	type cand struct {
		t       int64
		outcome string
	}
	const inf = int64(1) << 60
	idOf := map[int]string{}
	start, ret := map[int]vh.Event{}, map[int][]vh.Event{}
	cancelT := map[int]int64{}
	respFirst := map[string]vh.Event{} // id -> first response read for that id
	wret := map[string]vh.Event{}      // id -> write-returned of the request
	var shut int64 = inf               // earliest instant at which the session started shutting down
	var readFail int64 = inf
	readFailOutcome := "readerr"
	var waitRet int64 = inf
	for _, e := range evs {
		switch e.Kind {
		case "req-seen":
			idOf[fint(e, "n")] = fstr(e, "id")
		case "call-start":
			start[fint(e, "n")] = e
		case "call-return":
			ret[fint(e, "n")] = append(ret[fint(e, "n")], e)
		case "cancel":
			cancelT[fint(e, "n")] = e.T
		case "read-returned":
			if k := fstr(e, "kind"); k == "resp" || k == "resp-err" {
				if _, ok := respFirst[fstr(e, "id")]; !ok {
					respFirst[fstr(e, "id")] = e
				}
			}
		case "write-returned":
			if fstr(e, "kind") == "call" {
				wret[fstr(e, "id")] = e
				if es := fstr(e, "err"); es == c01Broken && e.T < shut {
					shut = e.T
				}
			}
		case "read-error", "read-eof-after-close":
			if e.T < readFail {
				readFail = e.T
			}
			if e.T < shut {
				shut = e.T
			}
		case "close-called":
			if e.T < shut {
				shut = e.T
			}
		case "wait-returned":
			if e.T < waitRet {
				waitRet = e.T
			}
		case "sessions-after-wait":
			if fint(e, "n") != 0 {
				c.Violate("session-not-removed", "server still lists %d session(s) after Wait returned", fint(e, "n"))
			}
		}
	}
	_ = readFailOutcome
	expectOK := func(n int) string {
		return fmt.Sprintf("ok:nonce-%d", n)
	}
	overlap, faults := 0, 0
	all := append([]c01Call(nil), spec.Calls...)
	for i := 0; i < spec.PostCalls; i++ {
		all = append(all, c01Call{N: 10000 + i, CancelAt: -1})
	}
	if spec.Modern && spec.Side == "client" {
		for i := 0; i < 1+spec.PostCalls; i++ {
			all = append(all, c01Call{N: 20000 + i, CancelAt: -1}) // Subscribe calls after termination
		}
	}
	for _, cs := range all {
		n := cs.N
		st, ok := start[n]
		if !ok {
			c.Inconclusive("call %d never started", n)
			continue
		}
		rs := ret[n]
		if len(rs) == 0 {
			c.Violate("call-never-returned", "call %d (started at %dus) never returned although the session terminated", n, st.T)
			continue
		}
		if len(rs) > 1 {
			c.Violate("call-completed-twice", "call %d returned %d times", n, len(rs))
			continue
		}
		r := rs[0]
		outcome := fstr(r, "outcome")
		if n >= 20000 && strings.HasPrefix(outcome, "ok:") {
			c.Violate("not-identified-as-closed", "Subscribe (call %d) started at %dus, after the session had terminated (Wait returned at %dus), reported success", n, st.T, waitRet)
			continue
		}
		// a payload must always be the call's own
		if strings.HasPrefix(outcome, "ok:") && outcome != expectOK(n) {
			c.Violate("foreign-response", "call %d completed with payload %q (expected its own %q)", n, outcome, expectOK(n))
			continue
		}
		if strings.HasPrefix(outcome, "rpcerr:") {
			want := fmt.Sprintf("rpcerr:%d:scripted-error-%d:{\"n\":%d,\"k\":\"<&>\"}", 1000+n, n, n)
			if outcome != want {
				c.Violate("error-payload-altered", "call %d completed with %q, expected %q", n, outcome, want)
				continue
			}
		}
		if strings.HasPrefix(outcome, "other:") {
			c.Violate("unexpected-error", "call %d completed with unclassifiable error %q", n, outcome)
			continue
		}
		id, written := idOf[n]
		ctie := false
		if t, ok := cancelT[n]; ok && t == st.T {
			ctie = true
		}
		if cs.Write == "unencodable" {
			// nothing can be sent: the call fails at once, with the encoding error (or, on a session that
			// is already shutting down, as closed), and leaves no trace in the session
			switch {
			case written:
				c.Violate("unencodable-call-written", "call %d has params that cannot be encoded, yet a request was written", n)
			case r.T != st.T:
				c.Violate("not-prompt", "call %d (unencodable params) started at %dus returned at %dus", n, st.T, r.T)
			case outcome == "unencodable" || (outcome == "closed" && shut <= st.T) || (outcome == "ctx" && ctie) || (outcome == "readerr" && readFail <= st.T):
				faults++
			default:
				c.Violate("wrong-outcome", "call %d (unencodable params) returned %q (err %q)", n, outcome, fstr(r, "err"))
			}
			continue
		}
		if !written {
			// The request never reached the transport: the session refused it, which it may
			// only do when it was already shutting down, and it must do so at once.
			if shut > st.T {
				if !(ctie && outcome == "ctx") {
					c.Violate("failed-without-cause", "call %d (start %dus) never reached the transport and failed with %q although no shutdown cause was observed before %dus", n, st.T, outcome, shut)
				}
				continue
			}
			if r.T != st.T {
				c.Violate("late-failure-after-close", "call %d started at %dus after shutdown began (%dus) but returned only at %dus", n, st.T, shut, r.T)
				continue
			}
			switch {
			case outcome == "closed":
			case outcome == "ctx" && ctie:
			case outcome == "readerr" && readFail == st.T:
			default:
				c.Violate("wrong-outcome", "call %d refused by a closing session returned %q (err %q)", n, outcome, fstr(r, "err"))
			}
			if st.T > waitRet && outcome != "closed" && !ctie {
				c.Violate("not-identified-as-closed", "call %d started after Wait returned failed with %q (err %q), not with ErrConnectionClosed", n, outcome, fstr(r, "err"))
			}
			continue
		}
		if st.T > waitRet {
			c.Violate("admitted-after-termination", "call %d started at %dus, after Wait had returned at %dus, yet its request was written", n, st.T, waitRet)
			continue
		}
		// candidates: completing events observed at the boundary
		var cands []cand
		if e, ok := respFirst[id]; ok {
			if fstr(e, "kind") == "resp" {
				cands = append(cands, cand{e.T, expectOK(n)})
			} else {
				cands = append(cands, cand{e.T, "rpcerr"})
			}
		}
		var wT int64 = -1
		if w, ok := wret[id]; ok {
			wT = w.T
			switch es := fstr(w, "err"); {
			case es == c01Broken || es == "closed":
				cands = append(cands, cand{w.T, "wbroken"})
			case strings.Contains(es, "verif-rejected"):
				cands = append(cands, cand{w.T, "wrejected"})
			}
		}
		if t, ok := cancelT[n]; ok {
			cands = append(cands, cand{t, "ctx"})
		}
		if readFail != inf && readFail >= st.T {
			cands = append(cands, cand{readFail, "readerr"})
		}
		tstar := inf
		for _, k := range cands {
			if k.t < tstar {
				tstar = k.t
			}
		}
		if tstar == inf {
			c.Violate("returned-without-cause", "call %d returned %q at %dus but no completing event was observed", n, outcome, r.T)
			continue
		}
		// a caller parked in Write cannot return before Write does
		bound := tstar
		if wT > bound {
			bound = wT
		}
		if r.T != bound {
			c.Violate("not-prompt", "call %d returned at %dus but its earliest completing event was at %dus (write returned at %dus); outcome %q", n, r.T, tstar, wT, outcome)
			continue
		}
		okOutcome := false
		for _, k := range cands {
			if k.t <= bound && (k.outcome == outcome || (k.outcome == "rpcerr" && strings.HasPrefix(outcome, "rpcerr:"))) {
				okOutcome = true
			}
		}
		if !okOutcome {
			c.Violate("wrong-outcome", "call %d returned %q at %dus; completing events: %v", n, outcome, r.T, cands)
			continue
		}
		if cs.CancelAt >= 0 || cs.Write != "ok" || (cs.Resp != "ok" && cs.Resp != "") {
			faults++
		}
		for _, o := range spec.Calls {
			if o.N != n {
				if os, ok := start[o.N]; ok && len(ret[o.N]) == 1 && os.T <= r.T && st.T <= ret[o.N][0].T {
					overlap++
				}
			}
		}
	}
	// nothing may still be blocked once Wait has returned
	for n, st := range start {
		if st.T <= waitRet && n < 10000 {
			if rs := ret[n]; len(rs) == 1 && rs[0].T > waitRet {
				c.Violate("blocked-after-termination", "call %d returned at %dus, after Wait had returned at %dus", n, rs[0].T, waitRet)
			}
		}
	}
	if spec.ReadFailAt >= 0 || spec.CloseAt >= 0 {
		faults++
	}
	c.Count("calls", len(all))
	if overlap >= 2 && faults >= 1 {
		c.Nontrivial(c.Log.KindSignature())
	}
}

var _ = testing.Short

// runC01Wire drives a real ClientSession over the SDK's own ndjson connection
// (IOTransport on pipes, protocol 2025-03-26) against a raw peer that answers
// all responses falling due at the same instant in ONE JSON-RPC batch line.
func runC01Wire(c *vh.Case, spec c01Spec) {
	log := c.Log
	ctx := context.Background()
	byN := map[int]c01Call{}
	for _, cs := range spec.Calls {
		byN[cs.N] = cs
	}
	cr, pw := io.Pipe() // peer -> client
	pr, cw := io.Pipe() // client -> peer
	okResult := func(n int) string { return fmt.Sprintf(`{"content":[{"type":"text","text":"nonce-%d"}]}`, n) }
	type due struct {
		id   string // raw JSON id
		kind string
		body string
	}
	var mu sync.Mutex
	pending := map[int64][]due{} // due instant (us since start) -> responses
	start := time.Now()
	var bg sync.WaitGroup
	var wmu sync.Mutex
	writeLine := func(items []due) {
		var parts []string
		for _, d := range items {
			parts = append(parts, d.body)
		}
		line := parts[0]
		if len(parts) > 1 {
			line = "[" + strings.Join(parts, ",") + "]"
		}
		wmu.Lock()
		_, err := pw.Write([]byte(line + "\n"))
		wmu.Unlock()
		if err != nil {
			return
		}
		log.Add("batch-line", "size", len(items))
		for _, d := range items {
			log.Add("read-returned", "kind", d.kind, "id", d.id, "method", "")
		}
	}
	schedule := func(after time.Duration, d due) {
		at := int64((time.Since(start) + after) / time.Microsecond)
		mu.Lock()
		first := len(pending[at]) == 0
		pending[at] = append(pending[at], d)
		mu.Unlock()
		if !first {
			return
		}
		bg.Add(1)
		go func() {
			defer bg.Done()
			time.Sleep(after)
			synctestWaitSafe()
			mu.Lock()
			items := pending[at]
			delete(pending, at)
			mu.Unlock()
			if len(items) > 0 {
				writeLine(items)
			}
		}()
	}
	peerDone := make(chan struct{})
	go func() {
		defer close(peerDone)
		sc := bufio.NewScanner(pr)
		sc.Buffer(make([]byte, 1<<20), 1<<20)
		for sc.Scan() {
			var m struct {
				ID     json.RawMessage `json:"id"`
				Method string          `json:"method"`
				Params json.RawMessage `json:"params"`
			}
			if json.Unmarshal(sc.Bytes(), &m) != nil || len(m.ID) == 0 {
				continue
			}
			idRaw := string(m.ID)
			idStr := "i:" + idRaw
			mk := func(id, rest string) string { return fmt.Sprintf(`{"jsonrpc":"2.0","id":%s,%s}`, id, rest) }
			switch m.Method {
			case "initialize":
				writeLine([]due{{idStr, "resp", mk(idRaw, `"result":`+vhm.InitializeResultJSON("2025-03-26"))}})
				continue
			case "tools/call":
			default:
				writeLine([]due{{idStr, "resp", mk(idRaw, `"result":{}`)}})
				continue
			}
			n := nonceOfParams(m.Params)
			log.Add("req-seen", "n", n, "id", idStr)
			log.Add("write-returned", "kind", "call", "id", idStr, "method", "tools/call", "err", "")
			cs, ok := byN[n]
			if !ok {
				writeLine([]due{{idStr, "resp", mk(idRaw, `"result":`+okResult(n))}})
				continue
			}
			d := ms(cs.RespDelay)
			switch cs.Resp {
			case "ok":
				schedule(d, due{idStr, "resp", mk(idRaw, `"result":`+okResult(n))})
			case "err":
				schedule(d, due{idStr, "resp-err", mk(idRaw, fmt.Sprintf(`"error":{"code":%d,"message":"scripted-error-%d","data":{"n":%d,"k":"<&>"}}`, 1000+n, n, n))})
			case "twice":
				schedule(d, due{idStr, "resp", mk(idRaw, `"result":`+okResult(n))})
				schedule(d+ms(1), due{idStr, "resp", mk(idRaw, `"result":`+okResult(n+5000))})
			case "wrongid":
				schedule(d, due{fmt.Sprintf("i:%d", 900000+n), "resp", mk(fmt.Sprint(900000+n), `"result":`+okResult(n+6000))})
			case "strid":
				schedule(d, due{"s:" + idRaw, "resp", mk(`"`+idRaw+`"`, `"result":`+okResult(n+7000))})
				schedule(d+ms(1), due{idStr, "resp", mk(idRaw, `"result":`+okResult(n))})
			}
		}
	}()
	client := mcp.NewClient(&mcp.Implementation{Name: "c", Version: "1"}, nil)
	cs, err := client.Connect(ctx, &mcp.IOTransport{Reader: cr, Writer: cw}, &mcp.ClientSessionOptions{ProtocolVersion: "2025-03-26"})
	if err != nil {
		c.Inconclusive("wire connect: %v", err)
		return
	}
	log.Add("connected")
	doCall := func(ctx context.Context, n int) (string, error) {
		res, err := cs.CallTool(ctx, &mcp.CallToolParams{Name: "echo", Arguments: map[string]any{"nonce": n}})
		if err != nil {
			return "", err
		}
		return textOf(res), nil
	}
	var calls sync.WaitGroup
	runCall := func(n int, cancelAt int, startAt int) {
		defer calls.Done()
		defer c.Guard("")
		cctx, cancel := context.WithCancel(ctx)
		defer cancel()
		if cancelAt >= 0 {
			bg.Add(1)
			go func() {
				defer bg.Done()
				time.Sleep(ms(cancelAt - startAt))
				log.Add("cancel", "n", n)
				cancel()
			}()
		}
		log.Add("call-start", "n", n)
		payload, err := doCall(cctx, n)
		log.Add("call-return", "n", n, "outcome", classifyC01(payload, err), "err", errText(err))
	}
	for _, cs := range spec.Calls {
		cs := cs
		calls.Add(1)
		go func() {
			time.Sleep(ms(cs.StartAt))
			runCall(cs.N, cs.CancelAt, cs.StartAt)
		}()
	}
	if spec.ReadFailAt >= 0 {
		bg.Add(1)
		go func() {
			defer bg.Done()
			time.Sleep(ms(spec.ReadFailAt))
			wmu.Lock()
			if spec.ReadFailEO {
				log.Add("read-error", "err", "EOF")
				pw.Close()
			} else {
				log.Add("read-error", "err", c01ReadErr)
				pw.CloseWithError(errors.New(c01ReadErr))
			}
			wmu.Unlock()
		}()
	}
	if spec.CloseAt >= 0 {
		for i := 0; i < spec.Closers; i++ {
			bg.Add(1)
			go func() {
				defer bg.Done()
				defer c.Guard("")
				time.Sleep(ms(spec.CloseAt))
				log.Add("close-called")
				cs.Close()
				log.Add("close-returned")
			}()
		}
	}
	var waiters sync.WaitGroup
	for i := 0; i < spec.Waiters+1; i++ {
		waiters.Add(1)
		go func() {
			defer waiters.Done()
			cs.Wait()
			log.Add("wait-returned")
		}()
	}
	time.Sleep(ms(spec.EndAt))
	log.Add("peer-vanishes")
	wmu.Lock()
	if spec.ReadFailAt < 0 {
		log.Add("read-error", "err", "EOF")
	}
	pw.Close()
	wmu.Unlock()
	waiters.Wait()
	synctestWait()
	log.Add("after-wait")
	for i := 0; i < spec.PostCalls; i++ {
		calls.Add(1)
		go runCall(10000+i, -1, 0)
	}
	calls.Wait()
	bg.Wait()
	pr.Close()
	<-peerDone
	time.Sleep(11 * time.Second)
}
