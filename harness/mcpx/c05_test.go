//go:build verif

// C05 — Close is graceful, terminates, and leaves nothing running.
//
// Real client/server pairs over every transport; both sessions' Connections
// are wrapped (where the harness owns the transport) so that the instant and
// logical position of the transport Close, every read/write and every injected
// fault are observed at the session's own boundary. Receiving middleware on
// both sides records handler start/finish.
package mcpx

import (
	"context"
	"encoding/json"
	"errors"
	"fmt"
	"io"
	"math"
	"reflect"
	"slices"
	"strings"
	"sync"
	"testing"
	"time"

	"github.com/modelcontextprotocol/go-sdk/internal/jsonrpc2"
	"github.com/modelcontextprotocol/go-sdk/internal/verifharness/vh"
	"github.com/modelcontextprotocol/go-sdk/internal/verifharness/vhm"
	"github.com/modelcontextprotocol/go-sdk/jsonrpc"
	"github.com/modelcontextprotocol/go-sdk/mcp"
)

type c05Op struct {
	Kind string `json:"kind"` // call | notify | close | kill-read
	Side string `json:"side"` // who acts: client | server
	At   int    `json:"at_ms"`
	N    int    `json:"n,omitempty"`
	Dur  int    `json:"dur_ms,omitempty"` // handler duration for calls
	K    int    `json:"k,omitempty"`      // number of concurrent Close callers
	Ask  bool   `json:"ask,omitempty"`    // client call: the server handler first asks the client (roots/list, nested in the request) and the client takes Dur to answer
}

type c05Fault struct {
	Side  string `json:"side"`
	Write int    `json:"write_n"` // fail the n-th write of that side (counted from the end of the handshake)
	Kind  string `json:"kind"`    // broken | rejected
}

type c05Spec struct {
	Transport string     `json:"transport"`
	Ops       []c05Op    `json:"ops"`
	Faults    []c05Fault `json:"faults,omitempty"`
	Waiters   int        `json:"waiters"`
	Version   string     `json:"version,omitempty"`   // requested protocol version ("" = the client's default)
	KeepAlive string     `json:"keepalive,omitempty"` // "", client, server, both: keep-alive (1 s) configured on that side
	FinalBy   string     `json:"final_by,omitempty"`  // "" (both), client, server: who calls Close at the end; the other side only waits
}

func genC05(r *vh.Rand, idx int) c05Spec {
	s := c05Spec{Transport: append([]string{"pipe-stubborn"}, vhm.PairKinds...)[r.Intn(len(vhm.PairKinds)+1)], Waiters: r.Intn(3), Version: "2025-06-18"}
	if r.Chance(1, 4) {
		s.Version = "" // 2026-07-28 on persistent connections
		s.Transport = r.Choose("mem", "pipe", "pipe-stubborn")
	}
	if r.Chance(1, 3) {
		s.KeepAlive = r.Choose("client", "server", "both")
	}
	if (s.Transport == "mem" || s.Transport == "pipe") && r.Chance(1, 3) {
		s.FinalBy = r.Choose("client", "server") // the peer vanishes; this side never calls Close
	}
	n := 0
	horizon := r.Range(4, 12)
	for i, k := 0, r.Range(2, 9); i < k; i++ {
		n++
		side := r.Choose("client", "client", "server")
		if r.Chance(1, 12) {
			// a notification whose params cannot be encoded (NaN): it fails locally and must leave no trace
			s.Ops = append(s.Ops, c05Op{Kind: "notify-bad", Side: side, At: r.Intn(horizon), N: n})
		} else if r.Chance(1, 4) {
			s.Ops = append(s.Ops, c05Op{Kind: "notify", Side: side, At: r.Intn(horizon), N: n, Dur: r.Intn(4)})
		} else {
			s.Ops = append(s.Ops, c05Op{Kind: "call", Side: side, At: r.Intn(horizon), N: n, Dur: r.Intn(10)})
		}
	}
	// at least one Close, possibly from both sides, possibly several callers
	for _, side := range []string{"client", "server"} {
		if r.Chance(3, 5) {
			at := r.Intn(horizon)
			s.Ops = append(s.Ops, c05Op{Kind: "close", Side: side, At: at, K: r.Range(1, 3)})
			if s.Version == "" {
				// 2026-07-28: resource subscriptions are listen streams; some start at the very instant Close begins
				m := r.Range(1, 3)
				if r.Chance(1, 2) && s.Transport != "pipe" { // unbuffered pipes: a blocked write holds a mutex, which stalls virtual time
					m = r.Range(8, 32) // a burst: the window between Close's sweep and the connection refusing calls is narrow
				}
				for k := 0; k < m; k++ {
					n++
					s.Ops = append(s.Ops, c05Op{Kind: "subscribe", Side: "client", At: []int{at, at, at, max(0, at-1), r.Intn(horizon)}[r.Intn(5)], N: n})
				}
			}
		}
	}
	if r.Chance(1, 4) {
		// Directed shape: calls outstanding in both directions, one side closes while more of its own
		// calls start at the very same instant, and the other side's first response write breaks.
		a, b := "client", "server"
		if r.Bool() {
			a, b = b, a
		}
		t := r.Range(1, 4)
		s.Ops = []c05Op{
			{Kind: "call", Side: b, At: 0, N: 1, Dur: t + r.Range(2, 6)},
			{Kind: "call", Side: a, At: 0, N: 2, Dur: t + r.Range(1, 5)},
			{Kind: "close", Side: a, At: t, K: r.Range(1, 2)},
			{Kind: "call", Side: a, At: t, N: 3, Dur: 1},
			{Kind: "call", Side: a, At: t, N: 4, Dur: 1},
			{Kind: "notify", Side: a, At: t, N: 5},
		}
		// more callers at the closing instant: which of them are refused by the closing session is a race
		for k, m := 0, r.Intn(14); k < m; k++ {
			s.Ops = append(s.Ops, c05Op{Kind: r.Choose("call", "call", "notify"), Side: a, At: t, N: 6 + k, Dur: r.Intn(2)})
		}
		s.Faults = []c05Fault{{Side: b, Kind: "broken-resp"}}
		return s
	}
	if s.Version != "" && r.Chance(1, 4) {
		// Directed shape: a handler is waiting for the client's answer to a nested request when its session is
		// closed from the server side; the answer arrives after the Close began
		t := r.Range(1, 4)
		n++
		s.Ops = slices.DeleteFunc(s.Ops, func(o c05Op) bool { return o.Kind == "close" && o.Side == "server" }) // one Close instant per side
		s.Ops = append(s.Ops, c05Op{Kind: "call", Side: "client", At: 0, N: n, Dur: t + r.Range(1, 4), Ask: true},
			c05Op{Kind: "close", Side: "server", At: t, K: r.Range(1, 2)})
		return s
	}
	if r.Chance(1, 4) {
		s.Ops = append(s.Ops, c05Op{Kind: "kill-read", Side: r.Choose("client", "server"), At: r.Intn(horizon)})
	}
	if r.Chance(1, 3) {
		s.Faults = append(s.Faults, c05Fault{Side: r.Choose("client", "server"), Write: r.Range(1, 8), Kind: r.Choose("broken", "broken", "rejected")})
	}
	return s
}

func TestVerifC05(t *testing.T) {
	cfg := vh.Config{
		Property: "C05",
		Cases:    vh.Pick(2500, 80000),
		Rule: "each case: real pair over mem|pipe|sse|http|http-json; 2..9 calls/notifications from either side with handler durations 0..9 ms at instants in a 0..11 ms window, Close from client and/or server (1..3 concurrent callers each), 1..3 Wait callers, " +
			"optional reader EOF on either side and a broken/rejected failure of the n-th write; everything is closed at the end. non-trivial: a Close called while >=1 handler of that session is running or a request for it is in flight. " +
			"distinct = distinct boundary event-kind sequences",
		MinNontrivial: 100,
		Assumptions: []string{"handlers return (finite sleeps)", "the transport honours Close", "responses of handlers that finish during Close may be dropped (not fixed by the statement)",
			"over HTTP the client's Close may wait for the DELETE exchange (bounded by 5 s)", "server-side Connection of HTTP/SSE transports is not wrapped (created inside the handler)"},
	}
	vh.Run(t, cfg, func(c *vh.Case) {
		if c.Index%50 == 7 {
			// a real child process behind CommandTransport (no virtual time), see c05cmd_test.go
			spec := genC05Cmd(c.R)
			c.SetSpec(spec)
			runC05Cmd(c, spec)
			return
		}
		spec := genC05(c.R, c.Index)
		c.SetSpec(spec)
		if c.Bubble("", func() { runC05(c, spec) }) {
			decideC05(c, spec)
		}
	})
}

// sideMW records handler start/finish for every message received by one side.
func c05MW(log *vh.Log, side string, dur func(n int) time.Duration) mcp.Middleware {
	return func(next mcp.MethodHandler) mcp.MethodHandler {
		return func(ctx context.Context, method string, req mcp.Request) (mcp.Result, error) {
			n := 0
			if p := req.GetParams(); p != nil && !reflect.ValueOf(p).IsNil() {
				switch v := any(p).(type) {
				case *mcp.CallToolParamsRaw:
					var a struct{ Nonce int }
					json.Unmarshal(v.Arguments, &a)
					n = a.Nonce
				default:
					if m := p.GetMeta(); m != nil {
						if f, ok := m["nonce"].(float64); ok {
							n = int(f)
						}
					}
				}
			}
			if n == 0 {
				return next(ctx, method, req)
			}
			log.Add("handler-start", "side", side, "method", method, "n", n)
			if d := dur(n); d > 0 {
				time.Sleep(d) // handlers run to completion regardless of their context
			}
			res, err := next(ctx, method, req)
			log.Add("handler-finish", "side", side, "method", method, "n", n)
			return res, err
		}
	}
}

func runC05(c *vh.Case, spec c05Spec) {
	log := c.Log
	ctx := context.Background()
	durOf := map[int]time.Duration{}
	for _, op := range spec.Ops {
		if op.N != 0 {
			durOf[op.N] = ms(op.Dur)
		}
		if op.Ask {
			durOf[op.N], durOf[op.N+5000] = 0, ms(op.Dur) // the server handler is quick; the client takes its time to answer
		}
	}
	dur := func(n int) time.Duration { return durOf[n] }
	var sopts *mcp.ServerOptions
	copts := &mcp.ClientOptions{}
	if spec.KeepAlive == "server" || spec.KeepAlive == "both" {
		sopts = &mcp.ServerOptions{KeepAlive: time.Second}
	}
	if spec.KeepAlive == "client" || spec.KeepAlive == "both" {
		copts.KeepAlive = time.Second
	}
	if spec.Version == "" {
		// a 2026-07-28 session with list-changed handlers keeps a subscriptions/listen call open for its whole life
		copts.ToolListChangedHandler = func(context.Context, *mcp.ToolListChangedRequest) {}
		copts.ResourceListChangedHandler = func(context.Context, *mcp.ResourceListChangedRequest) {}
	}
	if sopts == nil {
		sopts = &mcp.ServerOptions{}
	}
	sopts.SubscribeHandler = func(context.Context, *mcp.SubscribeRequest) error { return nil }
	sopts.UnsubscribeHandler = func(context.Context, *mcp.UnsubscribeRequest) error { return nil }
	server := mcp.NewServer(&mcp.Implementation{Name: "s", Version: "1"}, sopts)
	server.AddResource(&mcp.Resource{URI: "file:///r", Name: "r"}, func(context.Context, *mcp.ReadResourceRequest) (*mcp.ReadResourceResult, error) {
		return &mcp.ReadResourceResult{}, nil
	})
	server.AddTool(&mcp.Tool{Name: "work", InputSchema: json.RawMessage(`{"type":"object"}`)}, func(ctx context.Context, req *mcp.CallToolRequest) (*mcp.CallToolResult, error) {
		var a struct{ Nonce int }
		json.Unmarshal(req.Params.Arguments, &a)
		return &mcp.CallToolResult{Content: []mcp.Content{&mcp.TextContent{Text: fmt.Sprintf("nonce-%d", a.Nonce)}}}, nil
	})
	// "ask": the handler needs an answer from the client (a nested request made with its own context) before it can finish
	server.AddTool(&mcp.Tool{Name: "ask", InputSchema: json.RawMessage(`{"type":"object"}`)}, func(ctx context.Context, req *mcp.CallToolRequest) (*mcp.CallToolResult, error) {
		var a struct{ Nonce int }
		json.Unmarshal(req.Params.Arguments, &a)
		if _, err := req.Session.ListRoots(ctx, &mcp.ListRootsParams{Meta: mcp.Meta{"nonce": a.Nonce + 5000}}); err != nil {
			log.Add("nested-call-failed", "n", a.Nonce, "err", err.Error())
		}
		return &mcp.CallToolResult{Content: []mcp.Content{&mcp.TextContent{Text: fmt.Sprintf("nonce-%d", a.Nonce)}}}, nil
	})
	server.AddReceivingMiddleware(c05MW(log, "server", dur))
	client := mcp.NewClient(&mcp.Implementation{Name: "c", Version: "1"}, copts)
	client.AddRoots(&mcp.Root{URI: "file:///r"})
	client.AddReceivingMiddleware(c05MW(log, "client", dur))

	var armed bool
	var amu sync.Mutex
	usedFault := map[int]bool{}
	faultFor := func(side string) func(ctx context.Context, msg jsonrpc.Message, n int) error {
		count := 0
		return func(ctx context.Context, msg jsonrpc.Message, _ int) error {
			amu.Lock()
			defer amu.Unlock()
			if !armed {
				return nil
			}
			count++
			for i, f := range spec.Faults {
				if f.Side == side && f.Kind == "broken-resp" {
					if _, isResp := msg.(*jsonrpc.Response); isResp && !usedFault[i] {
						usedFault[i] = true
						return errors.New("verif-broken-pipe")
					}
				}
			}
			for _, f := range spec.Faults {
				if f.Side == side && f.Write == count {
					if f.Kind == "rejected" {
						// A rejected *response* silently loses the answer to a call of a peer that
						// stays healthy; that peer's Close then waits for the call by design
						// (documented at cancelCall). Only requests/notifications are rejected.
						if _, isResp := msg.(*jsonrpc.Response); isResp {
							return nil
						}
						return fmt.Errorf("%w: verif-rejected", jsonrpc2.ErrRejected)
					}
					return errors.New("verif-broken-pipe")
				}
			}
			return nil
		}
	}
	conns := map[string]*vhm.FaultConn{}
	wrap := func(side string) func(mcp.Connection) mcp.Connection {
		return func(inner mcp.Connection) mcp.Connection {
			fc := vhm.NewFaultConn(inner, log, side)
			fc.BeforeWrite = faultFor(side)
			amu.Lock()
			conns[side] = fc
			amu.Unlock()
			return fc
		}
	}
	po := vhm.PairOpts{Kind: spec.Transport, Server: server, Client: client, ClientVersion: spec.Version, WrapClient: wrap("client"), AsyncDelete: true}
	if spec.Transport == "mem" || spec.Transport == "pipe" || spec.Transport == "pipe-stubborn" {
		po.WrapServer = wrap("server")
	}
	pair, err := vhm.Connect(ctx, po)
	if err != nil {
		c.Inconclusive("connect %s: %v", spec.Transport, err)
		return
	}
	cs, ss := pair.CS, pair.SS
	c.Seen("negotiated", spec.Transport+"/"+cs.InitializeResult().ProtocolVersion)
	if ss == nil {
		c.Inconclusive("no server session for %s", spec.Transport)
		cs.Close()
		return
	}
	synctestWait()
	amu.Lock()
	armed = true
	amu.Unlock()
	log.Add("armed")

	var wg sync.WaitGroup
	run := func(at int, f func()) {
		wg.Add(1)
		go func() {
			defer wg.Done()
			defer c.Guard("")
			time.Sleep(ms(at))
			f()
		}()
	}
	outcome := func(err error) string {
		switch {
		case err == nil:
			return "ok"
		case errors.Is(err, mcp.ErrConnectionClosed):
			return "closed"
		}
		s := err.Error()
		if len(s) > 120 {
			s = s[:120]
		}
		return "err:" + s
	}
	for _, op := range spec.Ops {
		op := op
		switch op.Kind {
		case "call":
			run(op.At, func() {
				log.Add("call-start", "side", op.Side, "n", op.N)
				var err error
				if op.Side == "client" {
					var res *mcp.CallToolResult
					tool := "work"
					if op.Ask {
						tool = "ask"
					}
					res, err = cs.CallTool(ctx, &mcp.CallToolParams{Name: tool, Arguments: map[string]any{"nonce": op.N}})
					if err == nil && textOf(res) != fmt.Sprintf("nonce-%d", op.N) {
						err = fmt.Errorf("foreign payload %s", textOf(res))
					}
				} else {
					_, err = ss.ListRoots(ctx, &mcp.ListRootsParams{Meta: mcp.Meta{"nonce": op.N}})
				}
				log.Add("call-return", "side", op.Side, "n", op.N, "outcome", outcome(err))
				c.Seen("call-outcome", cs.InitializeResult().ProtocolVersion+"/"+spec.Transport+"/"+op.Side+"/"+strings.SplitN(outcome(err), ":", 2)[0])
			})
		case "notify", "notify-bad":
			run(op.At, func() {
				log.Add("notify-start", "side", op.Side, "n", op.N)
				var err error
				p := &mcp.ProgressNotificationParams{Meta: mcp.Meta{"nonce": op.N}, ProgressToken: "t", Progress: 1}
				if op.Kind == "notify-bad" {
					p.Progress = math.NaN()
				}
				if op.Side == "client" {
					err = cs.NotifyProgress(ctx, p)
				} else {
					err = ss.NotifyProgress(ctx, p)
				}
				log.Add("notify-return", "side", op.Side, "n", op.N, "outcome", outcome(err))
			})
		case "subscribe":
			run(op.At, func() {
				err := cs.Subscribe(ctx, &mcp.SubscribeParams{URI: fmt.Sprintf("file:///r%d", op.N)})
				log.Add("subscribe-return", "n", op.N, "outcome", outcome(err))
			})
		case "close":
			for i := 0; i < op.K; i++ {
				run(op.At, func() {
					log.Add("close-called", "side", op.Side)
					if op.Side == "client" {
						cs.Close()
					} else {
						ss.Close()
					}
					log.Add("close-returned", "side", op.Side)
				})
			}
		case "kill-read":
			run(op.At, func() {
				amu.Lock()
				fc := conns[op.Side]
				amu.Unlock()
				if fc != nil {
					log.Add("kill-read", "side", op.Side)
					fc.KillRead(io.EOF)
				}
			})
		}
	}
	for i := 0; i < spec.Waiters+1; i++ {
		for _, side := range []string{"client", "server"} {
			side := side
			wg.Add(1)
			go func() {
				defer wg.Done()
				if side == "client" {
					cs.Wait()
				} else {
					ss.Wait()
				}
				log.Add("wait-returned", "side", side)
			}()
		}
	}
	// End of scenario: whatever is still open is closed from both sides.
	time.Sleep(ms(40))
	log.Add("final-close")
	var fin sync.WaitGroup
	if spec.FinalBy != "server" {
		fin.Add(1)
		go func() { defer fin.Done(); cs.Close(); log.Add("final-close-returned", "side", "client") }()
	}
	if spec.FinalBy != "client" {
		fin.Add(1)
		go func() { defer fin.Done(); ss.Close(); log.Add("final-close-returned", "side", "server") }()
	}
	fin.Wait()
	wg.Wait()
	synctestWait()
	left := 0
	for range server.Sessions() {
		left++
	}
	log.Add("sessions-after-wait", "n", left)
	// a request after termination fails at once
	log.Add("post-call-start")
	_, err = cs.CallTool(ctx, &mcp.CallToolParams{Name: "work", Arguments: map[string]any{"nonce": 9999}})
	log.Add("post-call-return", "outcome", outcome(err))
	if pair.InProc != nil {
		pair.InProc.Wait()
	}
	if pair.Release != nil {
		pair.Release()
	}
	time.Sleep(11 * time.Second)
}

func decideC05(c *vh.Case, spec c05Spec) {
	if c.Violated() {
		return
	}
	evs := c.Log.Events()
	const inf = int64(1) << 60
	firstClose := map[string]vh.Event{}
	closeRet := map[string][]vh.Event{}
	tclose := map[string]vh.Event{}
	sentAt := map[int]vh.Event{}
	type h struct{ start, finish *vh.Event }
	handlers := map[string]map[int]*h{"client": {}, "server": {}}
	waitRet := map[string]int64{"client": inf, "server": inf}
	closeCalls := 0
	for i := range evs {
		e := evs[i]
		side := fstr(e, "side")
		switch e.Kind {
		case "close-called":
			closeCalls++
			if _, ok := firstClose[side]; !ok {
				firstClose[side] = e
			}
		case "close-returned":
			closeRet[side] = append(closeRet[side], e)
		case "transport-close":
			if _, ok := tclose[side]; !ok {
				tclose[side] = e
			}
		case "call-start", "notify-start":
			sentAt[fint(e, "n")] = e
		case "handler-start":
			n := fint(e, "n")
			if handlers[side][n] != nil {
				c.Violate("handler-ran-twice", "%s handler for nonce %d started twice", side, n)
				return
			}
			handlers[side][n] = &h{start: &evs[i]}
		case "handler-finish":
			if hh := handlers[side][fint(e, "n")]; hh != nil {
				hh.finish = &evs[i]
			}
		case "wait-returned":
			if e.T < waitRet[side] {
				waitRet[side] = e.T
			}
		case "sessions-after-wait":
			if fint(e, "n") != 0 {
				c.Violate("session-not-removed", "Server.Sessions() still lists %d session(s) after Close and Wait returned on both sides", fint(e, "n"))
				return
			}
		case "post-call-return":
			if out := fstr(e, "outcome"); out != "closed" {
				c.Violate("call-after-close-not-closed", "a call on the closed client session returned %q instead of ErrConnectionClosed", out)
				return
			}
		}
	}
	// (c) graceful: a handler that was running when its side called Close finishes, and its result still
	// reaches the caller -- provided nothing else interferes (no injected faults, the caller itself does not
	// close or lose its reader meanwhile, a transport the harness fully controls)
	callRet := map[int]vh.Event{}
	killRead := false
	for _, e := range evs {
		if e.Kind == "call-return" {
			callRet[fint(e, "n")] = e
		}
		if e.Kind == "kill-read" {
			killRead = true
		}
	}
	for _, op := range spec.Ops {
		if op.Kind == "kill-read" {
			killRead = true
		}
	}
	if len(spec.Faults) == 0 && !killRead && spec.KeepAlive == "" && (spec.Transport == "mem" || spec.Transport == "pipe") {
		for _, side := range []string{"client", "server"} {
			fc, closed := firstClose[side]
			if !closed {
				continue
			}
			other := "client"
			if side == "client" {
				other = "server"
			}
			for n, hh := range handlers[side] {
				if hh.finish == nil || !(hh.start.Seq < fc.Seq && hh.finish.Seq > fc.Seq) {
					continue
				}
				if oc, ok := firstClose[other]; ok && oc.Seq < hh.finish.Seq {
					continue // the caller's side was closing too
				}
				if r, ok := callRet[n]; ok && fstr(r, "outcome") != "ok" {
					c.Violate("graceful-result-lost", "%s called Close at %dus while its handler for call %d was running (%dus..%dus); the handler finished, but the caller got %q instead of the result", side, fc.T, n, hh.start.T, hh.finish.T, fstr(r, "outcome"))
					return
				}
			}
		}
	}
	nontrivial := false
	for _, side := range []string{"client", "server"} {
		fc, closed := firstClose[side]
		// (a) nothing sent strictly after the Close call is dispatched on the closing side
		for n, hh := range handlers[side] {
			if hh.finish == nil {
				c.Violate("handler-never-finished", "%s handler for nonce %d started but never finished", side, n)
				return
			}
			if closed {
				if s, ok := sentAt[n]; ok && s.T > fc.T {
					c.Violate("dispatched-after-close", "%s: request %d was sent at %dus, after Close was called at %dus, yet its handler started (at %dus)", side, n, s.T, fc.T, hh.start.T)
					return
				}
			}
			// (b) the transport is closed only after running handlers have returned
			if tc, ok := tclose[side]; ok && hh.start.Seq < tc.Seq && hh.finish.Seq > tc.Seq {
				c.Violate("transport-closed-under-running-handler", "%s: transport closed (seq %d, %dus) while the handler for nonce %d was still running (started %dus, finished %dus)", side, tc.Seq, tc.T, n, hh.start.T, hh.finish.T)
				return
			}
			if closed && hh.start.Seq < fc.Seq && hh.finish.Seq > fc.Seq {
				nontrivial = true
			}
		}
		if closed {
			for _, s := range sentAt {
				if fstr(s, "side") != side && s.T <= fc.T {
					nontrivial = nontrivial || s.T >= fc.T-3000
				}
			}
			// (c) bounded termination: on transports owned by the harness Close returns at the
			// instant the session's own last piece of work completes
			if len(closeRet[side]) == 0 {
				c.Violate("close-never-returned", "%s.Close never returned", side)
				return
			}
			// ... and no Close call - the first or one that overlaps it - returns while a handler of its session
			// that was running when it was called is still running
			for _, cr := range closeRet[side] {
				for n, hh := range handlers[side] {
					if hh.start.Seq < cr.Seq && hh.finish.Seq > cr.Seq {
						c.Violate("close-returned-under-running-handler", "%s: a Close call returned at %dus (seq %d) while the handler for nonce %d was still running (started %dus, finished %dus); %d Close call(s) on that side, the first at %dus",
							side, cr.T, cr.Seq, n, hh.start.T, hh.finish.T, len(closeRet[side]), fc.T)
						return
					}
				}
			}
			if spec.Transport == "mem" || spec.Transport == "pipe" || spec.Transport == "pipe-stubborn" {
				for _, cr := range closeRet[side] {
					// the session's own work that had completed when this Close call returned
					last := fc.T
					for _, hh := range handlers[side] {
						if hh.finish.T <= cr.T && hh.finish.T > last {
							last = hh.finish.T
						}
					}
					for _, e := range evs {
						if (e.Kind == "call-return" || e.Kind == "notify-return") && fstr(e, "side") == side && e.T <= cr.T && e.T > last {
							last = e.T
						}
					}
					if cr.T > last {
						c.Violate("close-late", "%s.Close called at %dus returned at %dus although the session's own work was done by %dus", side, fc.T, cr.T, last)
						return
					}
				}
			}
		}
	}
	if waitRet["client"] == inf || waitRet["server"] == inf {
		c.Violate("wait-never-returned", "Wait did not return on both sides (client %v, server %v)", waitRet["client"] != inf, waitRet["server"] != inf)
		return
	}
	c.Count("close_calls", closeCalls)
	if nontrivial {
		c.Nontrivial(spec.Transport + ":" + c.Log.KindSignature())
	}
}

var _ = strings.Contains
var _ = testing.Short
