//go:build verif

// C01 over IOTransport with awkward streams: the peer stops draining its input, so a call sits inside the
// transport's Write; then the peer goes away (EOF). The session terminates, and the caller inside Write must come
// back with it, also when closing the read half of the transport reports an error.
package mcpx

import (
	"bufio"
	"context"
	"encoding/json"
	"errors"
	"fmt"
	"io"
	"strings"
	"time"

	"github.com/modelcontextprotocol/go-sdk/internal/verifharness/vh"
	"github.com/modelcontextprotocol/go-sdk/internal/verifharness/vhm"
	"github.com/modelcontextprotocol/go-sdk/mcp"
)

type c01IOSpec struct {
	Side           string `json:"side"` // "io"
	ReaderCloseErr bool   `json:"reader_close_err"`
	WriterCloseErr bool   `json:"writer_close_err"`
	Logged         bool   `json:"logged"`   // the transport is wrapped in the SDK's LoggingTransport
	PauseAt        int    `json:"pause_ms"` // the peer stops reading
	CallAt         int    `json:"call_ms"`
	EOFAt          int    `json:"eof_ms"`
	Answered       int    `json:"answered"` // calls made (and answered) before the pause
	// Decoys: before each genuine answer the peer writes responses whose id is NEAR the call's id but not equal to it
	// (the number with a fraction, the number as a string): they answer no call of this session.
	Decoys bool `json:"decoys,omitempty"`
}

func genC01IO(r *vh.Rand) c01IOSpec {
	s := c01IOSpec{Side: "io", ReaderCloseErr: r.Bool(), WriterCloseErr: r.Chance(1, 4), Logged: r.Chance(1, 3), PauseAt: r.Range(1, 4), Answered: r.Intn(3)}
	s.CallAt = s.PauseAt + r.Intn(3)
	s.EOFAt = s.CallAt + r.Range(1, 5)
	if r.Bool() {
		s.Decoys, s.Answered = true, max(1, s.Answered)
	}
	return s
}

type c01CloseErrReader struct {
	io.ReadCloser
	fail bool
}

func (r c01CloseErrReader) Close() error {
	err := r.ReadCloser.Close()
	if r.fail {
		return errors.New("verif: close of the input stream reported an error")
	}
	return err
}

type c01CloseErrWriter struct {
	io.WriteCloser
	fail bool
}

func (w c01CloseErrWriter) Close() error {
	err := w.WriteCloser.Close()
	if w.fail {
		return errors.New("verif: close of the output stream reported an error")
	}
	return err
}

func runC01IO(c *vh.Case, spec c01IOSpec) {
	log := c.Log
	ctx := context.Background()
	cr, sw := io.Pipe() // peer -> client
	sr, cw := io.Pipe() // client -> peer
	pause := make(chan struct{})
	peerDone := make(chan struct{})
	go func() {
		defer close(peerDone)
		br := bufio.NewReader(sr)
		for {
			select {
			case <-pause:
				return // stops draining; the pipe stays open
			default:
			}
			line, err := br.ReadBytes('\n')
			if err != nil {
				return
			}
			var m struct {
				ID     json.RawMessage `json:"id"`
				Method string          `json:"method"`
				Params json.RawMessage `json:"params"`
			}
			if json.Unmarshal(line, &m) != nil || len(m.ID) == 0 {
				continue
			}
			switch m.Method {
			case "initialize":
				fmt.Fprintf(sw, `{"jsonrpc":"2.0","id":%s,"result":%s}`+"\n", m.ID, vhm.InitializeResultJSON("2025-06-18"))
			case "tools/call":
				if spec.Decoys && len(m.ID) > 0 && m.ID[0] != '"' {
					for _, near := range []string{string(m.ID) + ".7", string(m.ID) + ".25e0", `"` + string(m.ID) + `"`} {
						fmt.Fprintf(sw, `{"jsonrpc":"2.0","id":%s,"result":{"content":[{"type":"text","text":"decoy-for-%s"}]}}`+"\n", near, strings.Trim(near, `"`))
					}
				}
				fmt.Fprintf(sw, `{"jsonrpc":"2.0","id":%s,"result":{"content":[{"type":"text","text":"nonce-%d"}]}}`+"\n", m.ID, nonceOfParams(m.Params))
			default:
				fmt.Fprintf(sw, `{"jsonrpc":"2.0","id":%s,"result":{}}`+"\n", m.ID)
			}
		}
	}()
	var tr mcp.Transport = &mcp.IOTransport{Reader: c01CloseErrReader{cr, spec.ReaderCloseErr}, Writer: c01CloseErrWriter{cw, spec.WriterCloseErr}}
	if spec.Logged {
		tr = &mcp.LoggingTransport{Transport: tr, Writer: io.Discard}
	}
	client := mcp.NewClient(&mcp.Implementation{Name: "c", Version: "1"}, nil)
	cs, err := client.Connect(ctx, tr, &mcp.ClientSessionOptions{ProtocolVersion: "2025-06-18"})
	if err != nil {
		c.Inconclusive("connect: %v", err)
		return
	}
	for i := 0; i < spec.Answered; i++ {
		res, err := cs.CallTool(ctx, &mcp.CallToolParams{Name: "t", Arguments: map[string]any{"nonce": 100 + i}})
		if out := classifyC01(textOf(res), err); out != fmt.Sprintf("ok:nonce-%d", 100+i) {
			c.Violate("foreign-response", "call %d before the pause completed with %q", 100+i, out)
		}
	}
	synctestWait()
	log.ResetStart()
	t0 := time.Now()
	at := func(msv int) { time.Sleep(time.Until(t0.Add(ms(msv)))) }
	waited := make(chan struct{})
	go func() {
		cs.Wait()
		log.Add("wait-returned")
		close(waited)
	}()
	at(spec.PauseAt)
	close(pause)
	// the peer's reader may be parked inside ReadBytes: feed it nothing, it simply never reads again once it wakes
	log.Add("peer-stops-reading")
	callDone := make(chan struct{})
	go func() {
		defer close(callDone)
		at(spec.CallAt)
		// two calls, one after the other: the peer may still take the first line, the second is then stuck
		for n := 1; n <= 2; n++ {
			log.Add("call-start", "n", n)
			res, err := cs.CallTool(ctx, &mcp.CallToolParams{Name: "t", Arguments: map[string]any{"nonce": n}})
			log.Add("call-return", "n", n, "outcome", classifyC01(textOf(res), err), "err", errText(err))
			if err != nil {
				return
			}
		}
	}()
	at(spec.EOFAt)
	log.Add("peer-eof")
	sw.Close()
	select {
	case <-waited:
	case <-time.After(time.Minute):
		c.Violate("session-not-terminated", "the peer closed its output at %d ms; the session's Wait had not returned a minute later", spec.EOFAt)
	}
	select {
	case <-callDone:
	case <-time.After(time.Hour):
		log.Add("caller-still-blocked")
	}
	_, err = cs.CallTool(ctx, &mcp.CallToolParams{Name: "t", Arguments: map[string]any{"nonce": 9}})
	log.Add("post-call-return", "outcome", classifyC01("", err), "err", errText(err))
	// let go of everything the scenario holds
	sr.Close()
	cw.Close()
	<-peerDone
	time.Sleep(time.Minute)
}

func decideC01IO(c *vh.Case, spec c01IOSpec) {
	var waitT int64 = -1
	blocked := false
	var lastRet *vh.Event
	for _, e := range c.Log.Events() {
		e := e
		switch e.Kind {
		case "wait-returned":
			waitT = e.T
		case "caller-still-blocked":
			blocked = true
		case "call-return":
			lastRet = &e
			if out := fstr(e, "outcome"); len(out) > 3 && out[:3] == "ok:" && out != fmt.Sprintf("ok:nonce-%d", fint(e, "n")) {
				c.Violate("foreign-response", "call %d completed with %q", fint(e, "n"), out)
				return
			}
		case "post-call-return":
			if out := fstr(e, "outcome"); out != "closed" {
				c.Violate("not-identified-as-closed", "a call started after the session had terminated came back with %q (%s)", out, fstr(e, "err"))
				return
			}
		}
	}
	if c.Violated() {
		return
	}
	if blocked {
		c.Violate("blocked-after-termination", "the peer had stopped draining its input, a call sat inside the transport's Write; the peer went away, the session's Wait returned at %dus, yet the caller was still blocked an hour later (closing the input stream reports an error: %v, logging transport: %v)", waitT, spec.ReaderCloseErr, spec.Logged)
		return
	}
	if lastRet != nil && waitT >= 0 && lastRet.T > waitT {
		c.Violate("blocked-after-termination", "the last call returned at %dus, after the session's Wait had returned at %dus", lastRet.T, waitT)
		return
	}
	c.Count("io_cases", 1)
	c.Seen("io_modes", fmt.Sprintf("reader_close_err=%v/writer_close_err=%v/logged=%v", spec.ReaderCloseErr, spec.WriterCloseErr, spec.Logged))
	c.Nontrivial("io:" + c.Log.KindSignature() + fmt.Sprint(spec.ReaderCloseErr, spec.Logged))
}
