//go:build verif

// C18, raw 2026-07-28 listeners: a scripted peer (no SDK client code) opens subscriptions/listen streams that name
// several resource URIs at once — something the SDK's own client never does — on a server whose SubscribeHandler may
// refuse some of them. "resources/updated reaches exactly the sessions currently subscribed to that URI": a listen
// that was refused leaves nothing behind, a listen that was acknowledged gets every update of exactly its URIs until
// it is cancelled, and a cancelled listen's URIs are forgotten.
package mcpx

import (
	"context"
	"encoding/json"
	"fmt"
	"sort"
	"strings"
	"time"

	"github.com/modelcontextprotocol/go-sdk/internal/verifharness/vh"
	"github.com/modelcontextprotocol/go-sdk/internal/verifharness/vhm"
	"github.com/modelcontextprotocol/go-sdk/jsonrpc"
	"github.com/modelcontextprotocol/go-sdk/mcp"
)

type c18RawListen struct {
	ID       int   `json:"id"`
	At       int   `json:"at_ms"`
	URIs     []int `json:"uris"`
	CancelAt int   `json:"cancel_ms"` // -1: stays open
}

type c18RawSpec struct {
	Shape   string         `json:"shape"`  // "raw-listen"
	Reject  []int          `json:"reject"` // URIs the SubscribeHandler refuses
	Listens []c18RawListen `json:"listens"`
	Updates [][2]int       `json:"updates"` // (at ms, uri)
}

const c18RawNURI = 4

func genC18Raw(r *vh.Rand) c18RawSpec {
	s := c18RawSpec{Shape: "raw-listen"}
	for u := 0; u < c18RawNURI; u++ {
		if r.Chance(1, 4) {
			s.Reject = append(s.Reject, u)
		}
	}
	free := []int{0, 1, 2, 3}
	for i, n := 0, r.Range(1, 3); i < n && len(free) > 0; i++ {
		// the URI sets of one session's listens are disjoint here (what overlapping listens mean is not fixed by the statement)
		l := c18RawListen{ID: 100 + i, At: r.Intn(20), CancelAt: -1}
		for k, m := 0, r.Range(1, 3); k < m && len(free) > 0; k++ {
			j := r.Intn(len(free))
			l.URIs = append(l.URIs, free[j])
			free = append(free[:j], free[j+1:]...)
		}
		if r.Chance(1, 3) {
			l.CancelAt = l.At + r.Range(5, 40)
		}
		s.Listens = append(s.Listens, l)
	}
	for i, n := 0, r.Range(3, 12); i < n; i++ {
		s.Updates = append(s.Updates, [2]int{r.Intn(70), r.Intn(c18RawNURI)})
	}
	sort.Slice(s.Updates, func(i, j int) bool { return s.Updates[i][0] < s.Updates[j][0] })
	return s
}

func runC18Raw(c *vh.Case, spec c18RawSpec) {
	log := c.Log
	uri := func(u int) string { return fmt.Sprintf("file:///raw-u%d", u) }
	rejected := map[string]bool{}
	for _, u := range spec.Reject {
		rejected[uri(u)] = true
	}
	server := mcp.NewServer(&mcp.Implementation{Name: "s", Version: "1"}, &mcp.ServerOptions{
		SubscribeHandler: func(_ context.Context, req *mcp.SubscribeRequest) error {
			if rejected[req.Params.URI] {
				return fmt.Errorf("verif: subscription to %s refused", req.Params.URI)
			}
			return nil
		},
		UnsubscribeHandler: func(context.Context, *mcp.UnsubscribeRequest) error { return nil },
	})
	for u := 0; u < c18RawNURI; u++ {
		server.AddResource(&mcp.Resource{URI: uri(u), Name: fmt.Sprintf("r%d", u)}, func(context.Context, *mcp.ReadResourceRequest) (*mcp.ReadResourceResult, error) {
			return &mcp.ReadResourceResult{}, nil
		})
	}
	ctx := context.Background()
	t1, t2 := mcp.NewInMemoryTransports()
	ss, err := server.Connect(ctx, t1, nil)
	if err != nil {
		c.Inconclusive("server connect: %v", err)
		return
	}
	conn, err := t2.Connect(ctx)
	if err != nil {
		c.Inconclusive("raw connect: %v", err)
		return
	}
	rctx, stopReader := context.WithCancel(ctx)
	readerDone := make(chan struct{})
	go func() {
		defer close(readerDone)
		for {
			msg, err := conn.Read(rctx)
			if err != nil {
				return
			}
			switch m := msg.(type) {
			case *jsonrpc.Response:
				if m.Error != nil {
					log.Add("listen-refused", "id", vhm.IDString(m.ID), "err", m.Error.Error())
				} else {
					log.Add("listen-ended", "id", vhm.IDString(m.ID))
				}
			case *jsonrpc.Request:
				switch m.Method {
				case "notifications/subscriptions/acknowledged":
					var p struct {
						Meta          map[string]any `json:"_meta"`
						Notifications struct {
							ResourceSubscriptions []string `json:"resourceSubscriptions"`
						} `json:"notifications"`
					}
					json.Unmarshal(m.Params, &p)
					log.Add("listen-acked", "sub", fmt.Sprint(p.Meta["io.modelcontextprotocol/subscriptionId"]), "uris", strings.Join(p.Notifications.ResourceSubscriptions, ","))
				case "notifications/resources/updated":
					var p struct {
						URI string `json:"uri"`
					}
					json.Unmarshal(m.Params, &p)
					log.Add("updated-received", "uri", p.URI)
				default:
					log.Add("other-received", "method", m.Method)
				}
			}
		}
	}()
	const meta = `{"io.modelcontextprotocol/protocolVersion":"2026-07-28","io.modelcontextprotocol/clientCapabilities":{},"io.modelcontextprotocol/clientInfo":{"name":"raw","version":"1"}}`
	send := func(s string) {
		msg, err := jsonrpc.DecodeMessage([]byte(s))
		if err != nil {
			panic(err)
		}
		conn.Write(ctx, msg)
	}
	t0 := time.Now()
	at := func(msv int) { time.Sleep(time.Until(t0.Add(ms(msv)))) }
	type ev struct {
		at   int
		kind string // listen | cancel | update
		l    c18RawListen
		uri  int
	}
	var evs []ev
	for _, l := range spec.Listens {
		evs = append(evs, ev{at: l.At, kind: "listen", l: l})
		if l.CancelAt >= 0 {
			evs = append(evs, ev{at: l.CancelAt, kind: "cancel", l: l})
		}
	}
	for _, u := range spec.Updates {
		evs = append(evs, ev{at: u[0], kind: "update", uri: u[1]})
	}
	sort.SliceStable(evs, func(i, j int) bool { return evs[i].at < evs[j].at })
	for _, e := range evs {
		at(e.at)
		switch e.kind {
		case "listen":
			var us []string
			for _, u := range e.l.URIs {
				us = append(us, `"`+uri(u)+`"`)
			}
			log.Add("listen-sent", "id", e.l.ID, "uris", fmt.Sprint(e.l.URIs))
			send(fmt.Sprintf(`{"jsonrpc":"2.0","id":%d,"method":"subscriptions/listen","params":{"_meta":%s,"notifications":{"resourceSubscriptions":[%s]}}}`, e.l.ID, meta, strings.Join(us, ",")))
		case "cancel":
			log.Add("cancel-sent", "id", e.l.ID)
			send(fmt.Sprintf(`{"jsonrpc":"2.0","method":"notifications/cancelled","params":{"_meta":%s,"requestId":%d}}`, meta, e.l.ID))
		case "update":
			log.Add("update", "uri", uri(e.uri))
			server.ResourceUpdated(ctx, &mcp.ResourceUpdatedNotificationParams{URI: uri(e.uri)})
			log.Add("update-returned", "uri", uri(e.uri))
		}
		synctestWaitSafe()
	}
	time.Sleep(200 * time.Millisecond)
	log.Add("quiet")
	conn.Close()
	ss.Wait()
	stopReader()
	<-readerDone
	time.Sleep(11 * time.Second)
}

func decideC18Raw(c *vh.Case, spec c18RawSpec) {
	uri := func(u int) string { return fmt.Sprintf("file:///raw-u%d", u) }
	rejected := map[int]bool{}
	for _, u := range spec.Reject {
		rejected[u] = true
	}
	// per listen: refused iff it names a refused URI; otherwise it is in force from its instant until its cancel
	type span struct{ from, to int64 } // virtual us; to<0: open end
	inForce := map[string][]span{}     // uri -> spans in which an acknowledged listen names it
	evs := c.Log.Events()
	sentAt, cancelAt := map[int]int64{}, map[int]int64{}
	refused, acked := map[string]bool{}, map[string]bool{}
	for _, e := range evs {
		switch e.Kind {
		case "listen-sent":
			sentAt[fint(e, "id")] = e.T
		case "cancel-sent":
			cancelAt[fint(e, "id")] = e.T
		case "listen-refused":
			refused[fstr(e, "id")] = true
		case "listen-acked":
			acked[fstr(e, "sub")] = true
		}
	}
	for _, l := range spec.Listens {
		bad := false
		for _, u := range l.URIs {
			bad = bad || rejected[u]
		}
		idKey := fmt.Sprintf("i:%d", l.ID)
		if bad {
			if !refused[idKey] {
				c.Violate("refused-subscription-acknowledged", "listen %d names a URI the server's SubscribeHandler refuses (%v, refused %v) but the request was not answered with an error", l.ID, l.URIs, spec.Reject)
				return
			}
			continue
		}
		if refused[idKey] {
			c.Violate("subscription-never-established", "listen %d for %v (none refused) was answered with an error", l.ID, l.URIs)
			return
		}
		if !acked[fmt.Sprint(l.ID)] {
			c.Violate("subscription-never-established", "listen %d for %v was never acknowledged", l.ID, l.URIs)
			return
		}
		to := int64(-1)
		if t, ok := cancelAt[l.ID]; ok {
			to = t
		}
		for _, u := range l.URIs {
			inForce[uri(u)] = append(inForce[uri(u)], span{sentAt[l.ID], to})
		}
	}
	// every update: delivered iff some acknowledged listen naming it is in force; instants equal to a listen's
	// start or cancel are concurrent with it (either)
	type need struct {
		must, may int
	}
	want := map[string]*need{}
	for _, e := range evs {
		if e.Kind != "update" {
			continue
		}
		u := fstr(e, "uri")
		if want[u] == nil {
			want[u] = &need{}
		}
		definitely, possibly := false, false
		for _, sp := range inForce[u] {
			if e.T > sp.from && (sp.to < 0 || e.T < sp.to) {
				definitely = true
			}
			if e.T >= sp.from && (sp.to < 0 || e.T <= sp.to) {
				possibly = true
			}
		}
		if definitely {
			want[u].must++
		}
		if possibly {
			want[u].may++
		}
	}
	got := map[string]int{}
	for _, e := range evs {
		if e.Kind == "updated-received" {
			got[fstr(e, "uri")]++
		}
	}
	for u := 0; u < c18RawNURI; u++ {
		w := want[uri(u)]
		if w == nil {
			w = &need{}
		}
		g := got[uri(u)]
		if g < w.must {
			c.Violate("resource-updated-not-delivered", "raw listener: %d update(s) of %s fell into an acknowledged listen naming it, %d arrived (listens %s, refused URIs %v)", w.must, uri(u), g, vh.JSON(spec.Listens), spec.Reject)
			return
		}
		if g > w.may {
			c.Violate("resource-updated-to-unsubscribed", "raw listener: %d update(s) of %s arrived, at most %d fell into an acknowledged listen naming it (listens %s, refused URIs %v)", g, uri(u), w.may, vh.JSON(spec.Listens), spec.Reject)
			return
		}
	}
	c.Count("raw_listens", len(spec.Listens))
	c.Count("raw_updates", len(spec.Updates))
	c.Nontrivial("raw:" + c.Log.KindSignature())
}

// ---- raw legacy peers: the version named in initialize is not the version that is negotiated --------------------

type c18RawLegacySpec struct {
	Shape     string `json:"shape"`     // "raw-legacy"
	Requested string `json:"requested"` // protocolVersion sent in initialize
	Changes   []int  `json:"changes_ms"`
	Kind      string `json:"kind"` // tools | prompts | resources
}

func genC18RawLegacy(r *vh.Rand) c18RawLegacySpec {
	s := c18RawLegacySpec{Shape: "raw-legacy", Kind: r.Choose("tools", "prompts", "resources"),
		Requested: r.Choose("2024-11-05", "2025-03-26", "2025-06-18", "2025-11-25", "2026-07-28", "2026-07-28", "2099-01-01", "2027-03-01", "1999-01-01", "garbage")}
	at := r.Range(1, 20)
	for i, n := 0, r.Range(1, 5); i < n; i++ {
		s.Changes = append(s.Changes, at)
		at += c18Gaps[r.Intn(len(c18Gaps))]
	}
	return s
}

func runC18RawLegacy(c *vh.Case, spec c18RawLegacySpec) {
	log := c.Log
	ctx := context.Background()
	server := mcp.NewServer(&mcp.Implementation{Name: "s", Version: "1"}, nil)
	add := func(i int) {
		switch spec.Kind {
		case "tools":
			server.AddTool(&mcp.Tool{Name: fmt.Sprintf("t%d", i), InputSchema: json.RawMessage(`{"type":"object"}`)}, func(context.Context, *mcp.CallToolRequest) (*mcp.CallToolResult, error) {
				return &mcp.CallToolResult{}, nil
			})
		case "prompts":
			server.AddPrompt(&mcp.Prompt{Name: fmt.Sprintf("p%d", i)}, func(context.Context, *mcp.GetPromptRequest) (*mcp.GetPromptResult, error) {
				return &mcp.GetPromptResult{}, nil
			})
		default:
			server.AddResource(&mcp.Resource{URI: fmt.Sprintf("file:///r%d", i), Name: fmt.Sprintf("r%d", i)}, func(context.Context, *mcp.ReadResourceRequest) (*mcp.ReadResourceResult, error) {
				return &mcp.ReadResourceResult{}, nil
			})
		}
	}
	add(0)
	t1, t2 := mcp.NewInMemoryTransports()
	ss, err := server.Connect(ctx, t1, nil)
	if err != nil {
		c.Inconclusive("server connect: %v", err)
		return
	}
	conn, err := t2.Connect(ctx)
	if err != nil {
		c.Inconclusive("raw connect: %v", err)
		return
	}
	rctx, stopReader := context.WithCancel(ctx)
	readerDone := make(chan struct{})
	go func() {
		defer close(readerDone)
		for {
			msg, err := conn.Read(rctx)
			if err != nil {
				return
			}
			switch m := msg.(type) {
			case *jsonrpc.Response:
				var res struct {
					ProtocolVersion string `json:"protocolVersion"`
				}
				json.Unmarshal(m.Result, &res)
				if m.Error != nil {
					log.Add("init-refused", "err", m.Error.Error())
				} else {
					log.Add("init-answered", "negotiated", res.ProtocolVersion)
				}
			case *jsonrpc.Request:
				log.Add("received", "method", m.Method)
			}
		}
	}()
	send := func(s string) {
		msg, err := jsonrpc.DecodeMessage([]byte(s))
		if err != nil {
			panic(err)
		}
		conn.Write(ctx, msg)
	}
	send(fmt.Sprintf(`{"jsonrpc":"2.0","id":1,"method":"initialize","params":{"protocolVersion":%q,"capabilities":{"roots":{}},"clientInfo":{"name":"raw","version":"1"}}}`, spec.Requested))
	synctestWait()
	send(`{"jsonrpc":"2.0","method":"notifications/initialized"}`)
	synctestWait()
	t0 := time.Now()
	log.ResetStart()
	for i, at := range spec.Changes {
		time.Sleep(time.Until(t0.Add(ms(at))))
		log.Add("change", "i", i+1)
		add(i + 1)
	}
	time.Sleep(300 * time.Millisecond)
	log.Add("quiet")
	conn.Close()
	ss.Wait()
	stopReader()
	<-readerDone
	time.Sleep(11 * time.Second)
}

func decideC18RawLegacy(c *vh.Case, spec c18RawLegacySpec) {
	evs := c.Log.Events()
	negotiated, refused := "", false
	var lastChange int64 = -1
	var notes []int64
	for _, e := range evs {
		switch e.Kind {
		case "init-answered":
			negotiated = fstr(e, "negotiated")
		case "init-refused":
			refused = true
		case "change":
			lastChange = e.T
		case "received":
			if fstr(e, "method") == c18Method(spec.Kind) {
				notes = append(notes, e.T)
			}
		}
	}
	if refused {
		c.Seen("raw_legacy", spec.Requested+"->refused")
		return // the server may refuse a version; nothing to notify then
	}
	if negotiated == "" {
		c.Inconclusive("initialize was never answered")
		return
	}
	c.Seen("raw_legacy", spec.Requested+"->"+negotiated)
	if negotiated >= "2026-07-28" {
		return // not a legacy session (cannot happen through initialize today)
	}
	if len(notes) == 0 || notes[len(notes)-1] < lastChange {
		c.Violate("change-notification-lost/"+spec.Kind, "a peer that named %q in initialize was answered with the legacy version %s; it is a connected legacy session, yet after the last %s change at %dus it received no %s (received at %v)",
			spec.Requested, negotiated, spec.Kind, lastChange, c18Method(spec.Kind), notes)
		return
	}
	c.Count("raw_legacy_sessions", 1)
	c.Nontrivial("raw-legacy:" + spec.Requested + spec.Kind + fmt.Sprint(len(spec.Changes)))
}

// ---- one peer that stops taking notifications must not cost the others theirs ---------------------------------

type c18StuckSpec struct {
	Shape    string `json:"shape"` // "stuck-peer"
	Sessions int    `json:"sessions"`
	Stuck    int    `json:"stuck"`   // index of the session whose transport does not take the notification ...
	StuckS   int    `json:"stuck_s"` // ... for this many seconds (the write honours its context)
	Kind     string `json:"kind"`    // tools | prompts | resources | updated (resources/updated to subscribers)
	Changes  int    `json:"changes"` // changes 5 ms apart (one debounced round)
}

func genC18Stuck(r *vh.Rand) c18StuckSpec {
	s := c18StuckSpec{Shape: "stuck-peer", Sessions: r.Range(2, 4), StuckS: []int{3, 12, 30, 3600}[r.Intn(4)], Kind: r.Choose("tools", "prompts", "resources", "updated"), Changes: r.Range(1, 3)}
	s.Stuck = r.Intn(s.Sessions)
	return s
}

func runC18Stuck(c *vh.Case, spec c18StuckSpec) {
	log := c.Log
	ctx := context.Background()
	const uri = "file:///stuck-u"
	server := mcp.NewServer(&mcp.Implementation{Name: "s", Version: "1"}, &mcp.ServerOptions{
		SubscribeHandler:   func(context.Context, *mcp.SubscribeRequest) error { return nil },
		UnsubscribeHandler: func(context.Context, *mcp.UnsubscribeRequest) error { return nil },
	})
	server.AddTool(&mcp.Tool{Name: "t0", InputSchema: json.RawMessage(`{"type":"object"}`)}, func(context.Context, *mcp.CallToolRequest) (*mcp.CallToolResult, error) {
		return &mcp.CallToolResult{}, nil
	})
	server.AddPrompt(&mcp.Prompt{Name: "p0"}, func(context.Context, *mcp.GetPromptRequest) (*mcp.GetPromptResult, error) {
		return &mcp.GetPromptResult{}, nil
	})
	server.AddResource(&mcp.Resource{URI: uri, Name: "r0"}, func(context.Context, *mcp.ReadResourceRequest) (*mcp.ReadResourceResult, error) {
		return &mcp.ReadResourceResult{}, nil
	})
	method := "notifications/" + spec.Kind + "/list_changed"
	if spec.Kind == "updated" {
		method = "notifications/resources/updated"
	}
	var pairs []*vhm.Pair
	for i := 0; i < spec.Sessions; i++ {
		i := i
		note := func() { log.Add("received", "sess", i) }
		client := mcp.NewClient(&mcp.Implementation{Name: fmt.Sprintf("c%d", i), Version: "1"}, &mcp.ClientOptions{
			ToolListChangedHandler: func(context.Context, *mcp.ToolListChangedRequest) {
				if spec.Kind == "tools" {
					note()
				}
			},
			PromptListChangedHandler: func(context.Context, *mcp.PromptListChangedRequest) {
				if spec.Kind == "prompts" {
					note()
				}
			},
			ResourceListChangedHandler: func(context.Context, *mcp.ResourceListChangedRequest) {
				if spec.Kind == "resources" {
					note()
				}
			},
			ResourceUpdatedHandler: func(context.Context, *mcp.ResourceUpdatedNotificationRequest) {
				if spec.Kind == "updated" {
					note()
				}
			},
		})
		po := vhm.PairOpts{Kind: "mem", Server: server, Client: client, ClientVersion: "2025-06-18"}
		if i == spec.Stuck {
			po.WrapServer = func(inner mcp.Connection) mcp.Connection {
				fc := vhm.NewFaultConn(inner, vh.NewLog(), "server")
				fc.BeforeWrite = func(wctx context.Context, msg jsonrpc.Message, _ int) error {
					if req, ok := msg.(*jsonrpc.Request); ok && req.Method == method {
						log.Add("stuck-write-begins", "sess", i)
						select {
						case <-time.After(time.Duration(spec.StuckS) * time.Second):
							return nil
						case <-wctx.Done():
							log.Add("stuck-write-given-up", "sess", i)
							return wctx.Err()
						}
					}
					return nil
				}
				return fc
			}
		}
		p, err := vhm.Connect(ctx, po)
		if err != nil {
			c.Inconclusive("connect %d: %v", i, err)
			return
		}
		pairs = append(pairs, p)
		if spec.Kind == "updated" {
			if err := p.CS.Subscribe(ctx, &mcp.SubscribeParams{URI: uri}); err != nil {
				c.Inconclusive("subscribe %d: %v", i, err)
				return
			}
		}
	}
	synctestWait()
	log.ResetStart()
	for k := 1; k <= spec.Changes; k++ {
		log.Add("change", "k", k)
		switch spec.Kind {
		case "tools":
			server.AddTool(&mcp.Tool{Name: fmt.Sprintf("t%d", k), InputSchema: json.RawMessage(`{"type":"object"}`)}, func(context.Context, *mcp.CallToolRequest) (*mcp.CallToolResult, error) {
				return &mcp.CallToolResult{}, nil
			})
		case "prompts":
			server.AddPrompt(&mcp.Prompt{Name: fmt.Sprintf("p%d", k)}, func(context.Context, *mcp.GetPromptRequest) (*mcp.GetPromptResult, error) {
				return &mcp.GetPromptResult{}, nil
			})
		case "resources":
			server.AddResource(&mcp.Resource{URI: fmt.Sprintf("file:///stuck-r%d", k), Name: fmt.Sprintf("r%d", k)}, func(context.Context, *mcp.ReadResourceRequest) (*mcp.ReadResourceResult, error) {
				return &mcp.ReadResourceResult{}, nil
			})
		default:
			go server.ResourceUpdated(ctx, &mcp.ResourceUpdatedNotificationParams{URI: uri})
		}
		time.Sleep(5 * time.Millisecond)
	}
	// every write to a peer is bounded by the SDK (10 s): after a few times that, everybody has been served
	time.Sleep(time.Duration(spec.Sessions*10+5) * time.Second)
	log.Add("settled")
	for _, p := range pairs {
		p.CS.Close()
	}
	for _, p := range pairs {
		if p.SS != nil {
			p.SS.Wait()
		}
	}
	time.Sleep(2 * time.Hour)
}

func decideC18Stuck(c *vh.Case, spec c18StuckSpec) {
	got := map[int]int{}
	var settled int64 = -1
	for _, e := range c.Log.Events() {
		switch e.Kind {
		case "received":
			if settled < 0 {
				got[fint(e, "sess")]++
			}
		case "settled":
			settled = e.T
		}
	}
	for i := 0; i < spec.Sessions; i++ {
		if i == spec.Stuck && spec.StuckS >= 10 {
			continue // its own notification may be given up after the SDK's bound
		}
		if got[i] == 0 {
			c.Violate("change-notification-lost/"+spec.Kind, "%d legacy sessions; the transport of session %d did not take the notification for %d s; session %d, healthy and entitled, received no %s notification for the %d change(s) within %d s",
				spec.Sessions, spec.Stuck, spec.StuckS, i, spec.Kind, spec.Changes, spec.Sessions*10+5)
			return
		}
	}
	c.Count("stuck_peer_cases", 1)
	c.Nontrivial(fmt.Sprintf("stuck:%d:%d:%d:%s", spec.Sessions, spec.Stuck, spec.StuckS, spec.Kind))
}
