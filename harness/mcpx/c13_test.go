//go:build verif

// C13 — keep-alive closes dead sessions after the configured misses, never live ones.
//
// A real Client/ServerSession with keep-alive enabled runs over a scripted
// Connection whose peer decides the fate of every ping from a finite pattern
// (answered, possibly late; silence; method-not-found; the write rejected).
// Under virtual time the instants of every ping and of the session's closure
// are exact, and a reference model written from the statement predicts them.
package mcpx

import (
	"context"
	"encoding/json"
	"errors"
	"fmt"
	"io"
	"log/slog"
	"net/http"
	"slices"
	"strings"
	"sync"
	"testing"
	"time"

	"github.com/modelcontextprotocol/go-sdk/internal/jsonrpc2"
	"github.com/modelcontextprotocol/go-sdk/internal/verifharness/vh"
	"github.com/modelcontextprotocol/go-sdk/internal/verifharness/vhm"
	"github.com/modelcontextprotocol/go-sdk/jsonrpc"
	"github.com/modelcontextprotocol/go-sdk/mcp"
)

type c13Spec struct {
	Side       string   `json:"side"` // client | server
	IntervalMs int      `json:"interval_ms"`
	Threshold  int      `json:"threshold"`
	Pattern    []string `json:"pattern"`               // per ping: A | L (answered late, < interval/2) | S | N | D (N with error data) | R
	CloseAfter int      `json:"close_after"`           // the harness closes the session after this many intervals (if still open)
	CloseErr   bool     `json:"close_err,omitempty"`   // the transport's Close reports an error although it closes
	Hand       string   `json:"hand,omitempty"`        // how the session came about: "" legacy initialize | fallback (client asked for its default version, the peer only knows initialize) | none (server: the peer never sends initialize) | discover (server: the peer opens with server/discover)
	Pending    bool     `json:"pending,omitempty"`     // a user call that the peer never answers is outstanding (no deadline)
	PendAnswer int      `json:"pend_answer,omitempty"` // > 0 (live peers only): the peer answers that call this many thirds of an interval after the harness called Close
	// Incoming: right after the handshake the peer sends the session one request whose handler is still running when
	// the pings start to fail: "parked" (it waits for its context to end, as a long-running tool does) or "busy"
	// (it works for 2.5 intervals, ignoring its context). A dead peer must be given up on time all the same.
	Incoming string `json:"incoming,omitempty"`
	// CloseOnTick: the application's Close falls on the very instant of a keep-alive tick (which of the two goes
	// first is the scheduler's choice)
	CloseOnTick bool `json:"close_on_tick,omitempty"`
	// Via: what carries the session (client cases): "" the scripted connection | streamable | sse: the SDK's own HTTP
	// client transport against a scripted HTTP peer, which gives every ping its outcome at the HTTP level: answered (in
	// the POST's response / on the event stream), accepted and never answered, the POST itself left without a response
	// (W), refused with 503 (R)
	Via string `json:"via,omitempty"`
	// NFStatus (streamable): the HTTP status that accompanies the JSON-RPC method-not-found error of N/D: 200, 400,
	// or 404 (the mapping of SEP-2575), on a session that has an Mcp-Session-Id
	NFStatus int `json:"nf_status,omitempty"`
}

func genC13(r *vh.Rand, idx int) c13Spec {
	s := c13Spec{Side: r.Choose("client", "server"), IntervalMs: []int{10, 1000, 3600000}[r.Intn(3)], Threshold: []int{0, 1, 2, 3, 5}[r.Intn(5)]}
	n := r.Range(1, 12)
	if vh.Thorough() && idx < 4*(1+4+16+64+256+1024+4096) {
		// systematic: every pattern over {A,S,N,R} up to length 6 (x4 threshold/side variants by index)
		k := idx / 4
		l := 0
		for cnt := 1; k >= cnt; cnt *= 4 {
			k -= cnt
			l++
		}
		s.Pattern = nil
		for i := 0; i < l; i++ {
			s.Pattern = append(s.Pattern, []string{"A", "S", "N", "R"}[k%4])
			k /= 4
		}
		s.Threshold = []int{1, 2, 3, 0}[idx%4]
		s.CloseAfter = len(s.Pattern) + 3
		return s
	}
	for i := 0; i < n; i++ {
		s.Pattern = append(s.Pattern, []string{"A", "A", "L", "S", "S", "S", "R", "N", "W", "C", "A", "S"}[r.Intn(12)])
		if s.Pattern[i] == "N" && r.Chance(2, 3) {
			s.Pattern[i] = "S"
		}
		if s.Pattern[i] == "N" && r.Bool() {
			s.Pattern[i] = "D" // method-not-found whose error object carries a data member
		}
	}
	s.CloseAfter = n + r.Range(1, 4)
	s.CloseErr = r.Chance(1, 4)
	if r.Chance(1, 3) {
		if s.Side == "client" {
			s.Hand = "fallback"
		} else {
			s.Hand = r.Choose("none", "discover")
		}
	}
	s.Pending = r.Chance(1, 4)
	if r.Chance(1, 6) {
		// a live peer that is merely slow with one call, and an application that closes gracefully meanwhile
		s.Pending = true
		for i := range s.Pattern {
			s.Pattern[i] = "A"
		}
		s.PendAnswer = r.Range(2, 14)
	}
	if s.PendAnswer > 0 && r.Bool() {
		s.CloseOnTick = true
	}
	if s.Pending && s.PendAnswer == 0 && s.Hand == "" && r.Chance(1, 3) {
		// only the sending direction breaks (the peer closed its input): the write of one ping fails for good, the
		// reader keeps waiting, the user's call is outstanding. Every later ping fails locally; a run of failures it is.
		k := r.Intn(len(s.Pattern))
		for i := range s.Pattern {
			if i < k {
				s.Pattern[i] = "A"
			}
		}
		s.Pattern[k] = "B"
		s.Pattern = s.Pattern[:k+1]
		s.CloseAfter = k + 8
	}
	if !s.Pending && s.Hand == "" && r.Chance(1, 4) {
		s.Incoming = "parked"
	}
	if s.Pending && s.PendAnswer == 0 && r.Chance(1, 2) {
		// the application's Close arrives while the ping that completes the failure threshold is in flight
		thr, run := max(1, s.Threshold), 0
	scan:
		for i, o := range s.Pattern {
			switch o {
			case "A", "L":
				run = 0
			case "N", "D":
				break scan
			default:
				run++
				if run >= thr {
					if o != "R" {
						s.CloseAfter = i + 1
					}
					break scan
				}
			}
		}
	}
	// half of the client cases run over a real HTTP client transport (drawn last: the other attributes are what they were)
	via, nf, use := r.Choose("streamable", "sse"), []int{200, 404, 400, 404}[r.Intn(4)], r.Bool()
	if use && s.Side == "client" && !slices.Contains(s.Pattern, "B") {
		s.Via, s.CloseErr = via, false
		if via == "streamable" {
			s.NFStatus = nf
		}
	}
	return s
}

func TestVerifC13(t *testing.T) {
	cfg := vh.Config{
		Property: "C13",
		Cases:    vh.Pick(1500, 60000),
		Rule: "each case: a client or server session with KeepAlive in {10 ms, 1 s, 1 h} and failure threshold in {0,1,2,3,5} over a scripted peer (half of the client cases: over the SDK's streamable or HTTP+SSE client transport against a scripted HTTP server that has a session id and a hanging GET, outcomes given at the HTTP level: answered in the POST's response / on the event stream, accepted and never answered, the POST left without a response, refused with 503, method-not-found with status 200, 400 or 404); ping outcomes follow a pattern of length 1..12 over {answered, answered late (< interval/2), silence, silence with the follow-up cancellation notice rejected, write blocked until the ping's deadline, method-not-found (bare or with an error data member), write rejected}, answered afterwards; 1/3 of the sessions come about without the legacy handshake (client asking for its default version and falling back to initialize; server whose peer never initializes or opens with server/discover); 1/4 have a user call without deadline outstanding that the peer never answers (it must fail, as connection closed, at the instant keep-alive closes the session); the transport's Close optionally reports an error; the harness closes the session a few intervals later. " +
			"Thorough tier: all patterns over {A,S,N,R} up to length 6 x 4 thresholds. non-trivial: >=1 failed ping and (>=1 answered ping after a failure, or the session was closed by keep-alive). distinct = distinct (side, interval, threshold, pattern)",
		MinNontrivial: 100,
		Assumptions:   []string{"the peer keeps draining its input; a missed ping is one that was received and not answered", "a ping whose write is rejected by the transport fails at once"},
	}
	vh.Run(t, cfg, func(c *vh.Case) {
		spec := genC13(c.R, c.Index)
		c.SetSpec(spec)
		if c.Bubble("", func() { runC13(c, spec) }) {
			decideC13(c, spec)
		}
	})
}

func runC13(c *vh.Case, spec c13Spec) {
	log := c.Log
	ctx := context.Background()
	iv := ms(spec.IntervalMs)
	sc := vhm.NewScriptConn(log)
	if spec.CloseErr {
		sc.CloseErr = errors.New("verif: exit status 1")
	}
	var cmu sync.Mutex
	rejectCancel := false
	var pendID jsonrpc.ID
	havePend := false
	nPing := 0
	sc.OnWrite = func(wctx context.Context, msg jsonrpc.Message) error {
		req, ok := msg.(*jsonrpc.Request)
		if ok && !req.IsCall() && req.Method == "notifications/cancelled" {
			cmu.Lock()
			rej := rejectCancel
			rejectCancel = false
			cmu.Unlock()
			if rej {
				log.Add("cancel-notice-rejected")
				return fmt.Errorf("%w: verif-rejected-cancel", jsonrpc2.ErrRejected)
			}
			return nil
		}
		if !ok || !req.IsCall() {
			return nil
		}
		switch req.Method {
		case "initialize":
			sc.Inject(vhm.Resp(req.ID, vhm.InitializeResultJSON("2025-06-18")))
			return nil
		case "server/discover":
			sc.Inject(vhm.ErrResp(req.ID, -32601, "method not found: server/discover", ""))
			return nil
		case "tools/list", "roots/list":
			if spec.Pending {
				log.Add("user-call-received")
				cmu.Lock()
				pendID, havePend = req.ID, true
				cmu.Unlock()
				return nil // not answered (yet)
			}
		case "ping":
			i := nPing
			nPing++
			o := "A"
			if i < len(spec.Pattern) {
				o = spec.Pattern[i]
			}
			log.Add("ping", "i", i, "outcome", o)
			id := req.ID
			switch o {
			case "A":
				sc.Inject(vhm.Resp(id, `{}`))
			case "L":
				go func() {
					time.Sleep(iv/2 - iv/5)
					sc.Inject(vhm.Resp(id, `{}`))
				}()
			case "N":
				sc.Inject(vhm.ErrResp(id, -32601, "method not found: ping", ""))
			case "D":
				sc.Inject(vhm.ErrResp(id, -32601, "Method not found", `{"method":"ping"}`))
			case "R":
				return fmt.Errorf("%w: verif-rejected", jsonrpc2.ErrRejected)
			case "B":
				return errors.New("verif: write: broken pipe")
			case "S":
			case "C":
				cmu.Lock()
				rejectCancel = true
				cmu.Unlock()
			case "W":
				// the transport cannot take the message: Write returns when the ping's own deadline expires
				<-wctx.Done()
				return wctx.Err()
			}
			return nil
		}
		sc.Inject(vhm.Resp(req.ID, `{}`))
		return nil
	}
	// what the SDK logs: keep-alive reports the pings it gives up on, and must be silent once the session is closed
	sdkLog := slog.New(c13LogHandler{log})
	hold := func(hctx context.Context) {
		log.Add("incoming-handler-start")
		if spec.Incoming == "busy" {
			time.Sleep(2*iv + iv/2)
		} else {
			<-hctx.Done()
		}
		log.Add("incoming-handler-finish")
	}
	var closeFn func() error
	var waitFn func() error
	var userCall func() error
	// peer != nil: the session runs over an HTTP client transport, and the peer is the HTTP server behind it
	var peer *c13HTTPPeer
	inject := func(msg jsonrpc.Message) {
		if peer != nil {
			peer.push(msg)
		} else {
			sc.Inject(msg)
		}
	}
	// the user's own call has no deadline; the user gives up on it only when the scenario ends
	uctx, ucancel := context.WithCancel(ctx)
	defer ucancel()
	if spec.Side == "client" {
		client := mcp.NewClient(&mcp.Implementation{Name: "c", Version: "1"}, &mcp.ClientOptions{KeepAlive: iv, KeepAliveFailureThreshold: spec.Threshold, Logger: sdkLog,
			CreateMessageHandler: func(hctx context.Context, _ *mcp.CreateMessageRequest) (*mcp.CreateMessageResult, error) {
				hold(hctx)
				return &mcp.CreateMessageResult{Model: "m", Role: "assistant", Content: &mcp.TextContent{Text: "x"}}, nil
			}})
		cso := &mcp.ClientSessionOptions{ProtocolVersion: "2025-06-18"}
		if spec.Hand == "fallback" {
			cso = nil
		}
		var tr mcp.Transport = sc
		switch spec.Via {
		case "streamable":
			peer = newC13HTTPPeer(spec, log, iv)
			tr = &mcp.StreamableClientTransport{Endpoint: "http://example.test/mcp", HTTPClient: (&vhm.InProc{Handler: peer}).Client(), MaxRetries: -1}
		case "sse":
			peer = newC13HTTPPeer(spec, log, iv)
			tr = &mcp.SSEClientTransport{Endpoint: "http://example.test/sse", HTTPClient: (&vhm.InProc{Handler: peer}).Client()}
		}
		cs, err := client.Connect(ctx, tr, cso)
		if err != nil {
			c.Inconclusive("connect: %v", err)
			return
		}
		closeFn, waitFn = cs.Close, cs.Wait
		if spec.Pending {
			userCall = func() error { _, err := cs.ListTools(uctx, nil); return err }
		}
		if spec.Incoming != "" {
			inject(vhm.Req("hold", "sampling/createMessage", `{"messages":[{"role":"user","content":{"type":"text","text":"x"}}],"maxTokens":1}`))
		}
	} else {
		server := mcp.NewServer(&mcp.Implementation{Name: "s", Version: "1"}, &mcp.ServerOptions{KeepAlive: iv, KeepAliveFailureThreshold: spec.Threshold, Logger: sdkLog})
		server.AddTool(&mcp.Tool{Name: "hold", InputSchema: json.RawMessage(`{"type":"object"}`)}, func(hctx context.Context, _ *mcp.CallToolRequest) (*mcp.CallToolResult, error) {
			hold(hctx)
			return &mcp.CallToolResult{Content: []mcp.Content{&mcp.TextContent{Text: "held"}}}, nil
		})
		ss, err := server.Connect(ctx, sc, nil)
		if err != nil {
			c.Inconclusive("connect: %v", err)
			return
		}
		switch spec.Hand {
		case "none":
		case "discover":
			sc.Inject(vhm.Req("disc", "server/discover", `{"_meta":{"io.modelcontextprotocol/protocolVersion":"2026-07-28","io.modelcontextprotocol/clientCapabilities":{},"io.modelcontextprotocol/clientInfo":{"name":"x","version":"1"}}}`))
		default:
			sc.Inject(vhm.Req("init", "initialize", `{"protocolVersion":"2025-06-18","capabilities":{"roots":{}},"clientInfo":{"name":"x","version":"1"}}`))
			sc.Inject(vhm.Req(nil, "notifications/initialized", `{}`))
		}
		if spec.Incoming != "" {
			sc.Inject(vhm.Req("hold", "tools/call", `{"name":"hold","arguments":{}}`))
		}
		closeFn, waitFn = ss.Close, ss.Wait
		if spec.Pending && spec.Hand == "" {
			userCall = func() error { _, err := ss.ListRoots(uctx, nil); return err }
		}
	}
	log.Add("keepalive-started")
	go func() {
		waitFn()
		log.Add("wait-returned")
	}()
	if userCall != nil {
		go func() {
			synctestWait()
			log.Add("user-call")
			err := userCall()
			log.Add("user-call-returned", "err", fmt.Sprint(err))
		}()
	}
	if spec.CloseOnTick {
		time.Sleep(time.Duration(spec.CloseAfter) * iv)
	} else {
		time.Sleep(time.Duration(spec.CloseAfter)*iv + iv/4)
	}
	if userCall == nil {
		if spec.Incoming == "parked" {
			// a live peer withdraws its request before the application closes (a graceful Close waits for handlers)
			inject(vhm.Req(nil, "notifications/cancelled", `{"requestId":"hold"}`))
			synctestWait()
		}
		log.Add("harness-close")
		closeFn()
		log.Add("harness-close-returned", "plain", true)
	} else {
		// The application closes gracefully while its own call is still outstanding. Close waits for the call:
		// it ends when the peer answers, when keep-alive gives the peer up, or when the caller gives up.
		if !spec.CloseOnTick {
			synctestWait()
		}
		log.Add("harness-close")
		closed := make(chan struct{})
		go func() {
			closeFn()
			log.Add("harness-close-returned")
			close(closed)
		}()
		if spec.PendAnswer > 0 {
			time.Sleep(time.Duration(spec.PendAnswer) * iv / 3)
			cmu.Lock()
			id, ok := pendID, havePend
			cmu.Unlock()
			if peer != nil {
				peer.answerUserCall()
			} else if ok {
				log.Add("user-call-answered")
				sc.Inject(vhm.Resp(id, `{"tools":[],"roots":[]}`))
			}
		} else {
			time.Sleep(iv)
			log.Add("user-gives-up")
			ucancel()
		}
		<-closed
	}
	synctestWait()
	// Close leaves no keep-alive goroutine (and hence no ticker) behind
	if st := vh.BubbleStacks(); strings.Contains(st, "mcp.startKeepalive") {
		c.Violate("keepalive-outlives-close", "after Close returned a keep-alive goroutine is still alive:\n%s", st[strings.Index(st, "mcp.startKeepalive")-200:min(len(st), strings.Index(st, "mcp.startKeepalive")+400)])
	}
	// nothing may ping (or tick) any more
	time.Sleep(10 * iv)
	log.Add("end")
	if peer != nil {
		close(peer.release)
	}
	time.Sleep(11 * time.Second)
}

// c13HTTPPeer is the peer of the cases that run over one of the SDK's HTTP client transports: an HTTP server that gives
// every ping the outcome the pattern says. Over streamable HTTP (with a session id and a standalone stream) a response
// travels in the response of the POST that carried the request; over HTTP+SSE every POST is acknowledged with 202 and
// the response follows on the event stream. The end of the hanging GET is the closure of the transport.
type c13HTTPPeer struct {
	spec c13Spec
	log  *vh.Log
	iv   time.Duration
	sse  bool

	mu           sync.Mutex
	nPing        int
	rejectCancel bool
	pendSeen     bool
	events       chan string   // messages for the hanging GET
	answer       chan struct{} // closed when the peer is to answer the user's call
	release      chan struct{} // closed when the scenario is over: whatever is still parked here returns
}

func newC13HTTPPeer(spec c13Spec, log *vh.Log, iv time.Duration) *c13HTTPPeer {
	return &c13HTTPPeer{spec: spec, log: log, iv: iv, sse: spec.Via == "sse", events: make(chan string, 64), answer: make(chan struct{}), release: make(chan struct{})}
}

// push sends msg to the client on the hanging GET.
func (p *c13HTTPPeer) push(msg jsonrpc.Message) {
	b, err := jsonrpc.EncodeMessage(msg)
	if err != nil {
		panic(err)
	}
	select {
	case p.events <- string(b):
	case <-p.release:
	}
}

// answerUserCall lets the peer answer the user's outstanding call now (if it has arrived).
func (p *c13HTTPPeer) answerUserCall() {
	p.mu.Lock()
	seen := p.pendSeen
	p.mu.Unlock()
	if seen {
		p.log.Add("user-call-answered")
		close(p.answer)
	}
}

func (p *c13HTTPPeer) ServeHTTP(w http.ResponseWriter, r *http.Request) {
	// park: this exchange stays as it is until the client abandons it (a host that hangs does not do so for ever:
	// three intervals later the connection is reset at the latest)
	park := func() {
		t := time.NewTimer(3 * p.iv)
		defer t.Stop()
		select {
		case <-r.Context().Done():
		case <-t.C:
		case <-p.release:
		}
	}
	event := func(data string) {
		io.WriteString(w, "event: message\ndata: "+data+"\n\n")
		w.(http.Flusher).Flush()
	}
	switch r.Method {
	case http.MethodDelete:
		w.WriteHeader(http.StatusNoContent)
		return
	case http.MethodGet:
		w.Header().Set("Content-Type", "text/event-stream")
		if p.sse {
			io.WriteString(w, "event: endpoint\ndata: /msg?sessionid=c13\n\n")
		} else {
			w.Header().Set("Mcp-Session-Id", "c13")
		}
		w.(http.Flusher).Flush()
		for {
			select {
			case ev := <-p.events:
				event(ev)
			case <-r.Context().Done():
				p.log.Add("transport-close")
				return
			case <-p.release:
				return
			}
		}
	case http.MethodPost:
	default:
		w.WriteHeader(http.StatusMethodNotAllowed)
		return
	}
	body, _ := io.ReadAll(r.Body)
	var m struct {
		ID     json.RawMessage `json:"id"`
		Method string          `json:"method"`
	}
	if err := json.Unmarshal(body, &m); err != nil {
		http.Error(w, "bad json", http.StatusBadRequest)
		return
	}
	if m.Method == "notifications/cancelled" {
		p.mu.Lock()
		rej := p.rejectCancel
		p.rejectCancel = false
		p.mu.Unlock()
		if rej {
			p.log.Add("cancel-notice-rejected")
			w.WriteHeader(http.StatusServiceUnavailable)
			return
		}
	}
	if len(m.ID) == 0 || m.Method == "" {
		w.WriteHeader(http.StatusAccepted) // a notification, or the client's response to a request of the peer
		return
	}
	stream := func() {
		w.Header().Set("Content-Type", "text/event-stream")
		w.Header().Set("Mcp-Session-Id", "c13")
		w.(http.Flusher).Flush()
	}
	// reply delivers a JSON-RPC response (after the delay, if any) the way the transport has it
	reply := func(status int, member string, delay time.Duration) {
		msg := fmt.Sprintf(`{"jsonrpc":"2.0","id":%s,%s}`, m.ID, member)
		if p.sse {
			w.WriteHeader(http.StatusAccepted)
			go func() {
				time.Sleep(delay)
				select {
				case p.events <- msg:
				case <-p.release:
				}
			}()
			return
		}
		time.Sleep(delay)
		w.Header().Set("Content-Type", "application/json")
		w.Header().Set("Mcp-Session-Id", "c13")
		w.WriteHeader(status)
		io.WriteString(w, msg)
	}
	// silence: the request is taken and never answered
	silence := func() {
		if p.sse {
			w.WriteHeader(http.StatusAccepted)
			return
		}
		stream()
		park()
	}
	switch m.Method {
	case "initialize":
		reply(200, `"result":`+vhm.InitializeResultJSON("2025-06-18"), 0)
	case "server/discover":
		reply(200, `"error":{"code":-32601,"message":"method not found: server/discover"}`, 0)
	case "tools/list":
		if !p.spec.Pending {
			reply(200, `"result":{"tools":[]}`, 0)
			return
		}
		p.log.Add("user-call-received")
		p.mu.Lock()
		p.pendSeen = true
		p.mu.Unlock()
		res := fmt.Sprintf(`{"jsonrpc":"2.0","id":%s,"result":{"tools":[]}}`, m.ID)
		if p.sse {
			w.WriteHeader(http.StatusAccepted)
			go func() {
				select {
				case <-p.answer:
					select {
					case p.events <- res:
					case <-p.release:
					}
				case <-p.release:
				}
			}()
			return
		}
		// not answered (yet): the POST's response is a stream that stays open
		stream()
		select {
		case <-p.answer:
			event(res)
		case <-r.Context().Done():
		case <-p.release:
		}
	case "ping":
		p.mu.Lock()
		i := p.nPing
		p.nPing++
		o := "A"
		if i < len(p.spec.Pattern) {
			o = p.spec.Pattern[i]
		}
		if o == "C" {
			p.rejectCancel = true
		}
		p.mu.Unlock()
		p.log.Add("ping", "i", i, "outcome", o)
		switch o {
		case "A":
			reply(200, `"result":{}`, 0)
		case "L":
			reply(200, `"result":{}`, p.iv/2-p.iv/5)
		case "N":
			reply(max(200, p.spec.NFStatus), `"error":{"code":-32601,"message":"method not found: ping"}`, 0)
		case "D":
			reply(max(200, p.spec.NFStatus), `"error":{"code":-32601,"message":"Method not found","data":{"method":"ping"}}`, 0)
		case "R":
			w.WriteHeader(http.StatusServiceUnavailable) // a gateway refuses this one message
		case "S", "C":
			silence()
		case "W":
			// the host hangs: the POST gets no response at all; the client's Write returns when the ping's deadline expires
			park()
		}
	default:
		reply(200, `"result":{}`, 0)
	}
}

func decideC13(c *vh.Case, spec c13Spec) {
	if c.Violated() {
		return
	}
	iv := int64(spec.IntervalMs) * 1000 // us
	thr := spec.Threshold
	if thr < 1 {
		thr = 1
	}
	var start, harnessClose, tclose int64 = -1, -1, -1
	var pings []vh.Event
	for _, e := range c.Log.Events() {
		switch e.Kind {
		case "keepalive-started":
			start = e.T
		case "ping":
			pings = append(pings, e)
		case "harness-close":
			harnessClose = e.T
		case "transport-close":
			if tclose < 0 {
				tclose = e.T
			}
		}
	}
	if start < 0 || harnessClose < 0 {
		c.Inconclusive("scenario did not run to its end")
		return
	}
	// reference model
	consecutive := 0
	var wantPings []int64
	var wantClose int64 = -1
	stopped := false
	failures, recovered := 0, false
	broken := false
	for i := 0; ; i++ {
		t := start + int64(i+1)*iv
		if t > harnessClose || stopped || wantClose >= 0 {
			break
		}
		o := "A"
		if i < len(spec.Pattern) {
			o = spec.Pattern[i]
		}
		if broken {
			// the writer is broken: further pings fail locally (they never reach the peer) and count as misses
			consecutive++
			if consecutive >= thr {
				wantClose = t
			}
			continue
		}
		wantPings = append(wantPings, t)
		if o == "B" {
			broken = true
			consecutive++
			if consecutive >= thr {
				wantClose = t
			}
			continue
		}
		switch o {
		case "A", "L":
			if consecutive > 0 {
				recovered = true
			}
			consecutive = 0
		case "N", "D":
			stopped = true
		case "S", "R", "W", "C":
			failures++
			consecutive++
			if consecutive >= thr {
				if o != "R" {
					wantClose = t + iv/2
				} else {
					wantClose = t
				}
			}
		}
	}
	// events of the graceful Close made while the user's own call was outstanding
	userIssued := false
	var answeredT, givesUpT int64 = -1, -1
	var userRet *vh.Event
	for _, e := range c.Log.Events() {
		e := e
		switch e.Kind {
		case "user-call":
			userIssued = true
		case "user-call-answered":
			answeredT = e.T
		case "user-gives-up":
			givesUpT = e.T
		case "user-call-returned":
			userRet = &e
		}
	}
	graceful := int64(-1) // > 0: the instant at which the harness's graceful Close is due to complete on its own terms
	if wantClose > harnessClose {
		if userIssued {
			// the ping that completes the threshold was already in flight when the application called Close (which
			// waits for the outstanding call): keep-alive still gives the peer up when that ping times out
		} else {
			wantClose = -1 // the harness closed the session first
		}
	}
	if wantClose < 0 && userIssued {
		switch {
		case answeredT >= 0:
			graceful = answeredT
		case givesUpT >= 0:
			graceful = givesUpT
		}
	}
	for _, e := range c.Log.Events() {
		switch {
		case e.Kind == "sdk-log" && strings.Contains(fstr(e, "msg"), "keepalive") && harnessClose >= 0 && e.T > harnessClose:
			c.Violate("keepalive-not-silent-after-close", "the application closed the session at %v; keep-alive still reported %q (%s) at %v", time.Duration(harnessClose)*time.Microsecond, fstr(e, "msg"), fstr(e, "level"), time.Duration(e.T)*time.Microsecond)
			return
		}
	}
	var got []int64
	for _, p := range pings {
		got = append(got, p.T)
	}
	desc := func(ts []int64) string {
		var sb strings.Builder
		for _, t := range ts {
			fmt.Fprintf(&sb, "%v ", time.Duration(t)*time.Microsecond)
		}
		return sb.String()
	}
	if len(got) > len(wantPings) {
		extra := got[len(wantPings)]
		switch {
		case stopped:
			c.Violate("ping-after-method-not-found", "the peer reported ping as unsupported, yet another ping arrived at %v (pings %s)", time.Duration(extra)*time.Microsecond, desc(got))
		case extra > harnessClose || (wantClose >= 0 && extra > wantClose):
			c.Violate("ping-after-close", "a ping arrived at %v, after the session had been closed (pings %s)", time.Duration(extra)*time.Microsecond, desc(got))
		default:
			c.Violate("unexpected-ping", "pings arrived at %s, reference model expects %s", desc(got), desc(wantPings))
		}
		return
	}
	if spec.CloseOnTick && len(wantPings) > 0 && wantPings[len(wantPings)-1] == harnessClose && len(got) == len(wantPings)-1 {
		// the tick and the application's Close fell on one instant and the Close went first: no ping then
		wantPings = wantPings[:len(wantPings)-1]
	}
	if len(got) < len(wantPings) {
		if tclose >= 0 && tclose < wantPings[len(got)] && (wantClose < 0 || tclose < wantClose) {
			c.Violate("live-session-closed", "keep-alive closed the session at %v although no run of %d consecutive failed pings had occurred (pattern %v); expected closure: %v", time.Duration(tclose)*time.Microsecond, thr, spec.Pattern, wantClose)
			return
		}
		c.Violate("missing-ping", "pings arrived at %s, reference model expects %s", desc(got), desc(wantPings))
		return
	}
	for i := range got {
		if got[i] != wantPings[i] {
			c.Violate("ping-instant", "ping %d arrived at %v, expected %v (interval %v)", i, time.Duration(got[i])*time.Microsecond, time.Duration(wantPings[i])*time.Microsecond, time.Duration(iv)*time.Microsecond)
			return
		}
	}
	if wantClose >= 0 {
		if tclose != wantClose {
			c.Violate("dead-session-close-instant", "after %d consecutive failed pings (threshold %d) the session must be closed at %v; transport close observed at %v (pattern %v)", thr, spec.Threshold, time.Duration(wantClose)*time.Microsecond, time.Duration(tclose)*time.Microsecond, spec.Pattern)
			return
		}
	} else if graceful >= 0 {
		if tclose != graceful {
			c.Violate("graceful-close-cut-short", "the application called Close at %v with its own call outstanding; the session must end when that call does (%v): transport close observed at %v (pattern %v)", time.Duration(harnessClose)*time.Microsecond, time.Duration(graceful)*time.Microsecond, time.Duration(tclose)*time.Microsecond, spec.Pattern)
			return
		}
		if answeredT >= 0 && (userRet == nil || fmt.Sprint(userRet.F["err"]) != "<nil>") {
			c.Violate("live-call-failed-by-keepalive", "the peer answered the outstanding call at %v (all pings were answered), yet the call returned %v", time.Duration(answeredT)*time.Microsecond, userRet)
			return
		}
		c.Count("graceful_closes_with_call_outstanding", 1)
	} else if inflightUntil := func() int64 {
		// a keep-alive ping that is still unanswered when the application calls Close is an outstanding call like
		// any other: the graceful Close may wait for it, at most until the ping's own deadline
		for i := range wantPings {
			o := "A"
			if i < len(spec.Pattern) {
				o = spec.Pattern[i]
			}
			if tp := wantPings[i]; tp <= harnessClose && harnessClose < tp+iv/2 && (o == "S" || o == "C" || o == "W" || o == "L") {
				return tp + iv/2
			}
		}
		return harnessClose
	}(); tclose >= harnessClose && tclose <= inflightUntil {
		// closed by the application, on time
	} else if tclose != harnessClose {
		c.Violate("live-session-closed", "the session was closed at %v, before the harness closed it at %v, although no run of %d consecutive failures occurred (pattern %v)", time.Duration(tclose)*time.Microsecond, time.Duration(harnessClose)*time.Microsecond, thr, spec.Pattern)
		return
	}
	// a user call that was waiting for the dead peer ends with the session, and says why
	if wantClose >= 0 {
		issued := false
		var ret *vh.Event
		for _, e := range c.Log.Events() {
			e := e
			switch e.Kind {
			case "user-call":
				issued = true
			case "user-call-returned":
				ret = &e
			}
		}
		if issued {
			if ret == nil || ret.T != wantClose {
				c.Violate("pending-call-outlives-dead-session", "keep-alive closed the session at %v but the user call waiting for the dead peer returned at %v", time.Duration(wantClose)*time.Microsecond, ret)
				return
			}
			if msg := fmt.Sprint(ret.F["err"]); !strings.Contains(msg, "connection closed") {
				c.Violate("pending-call-error", "the user call that ended with the session reports %q, which does not identify the connection as closed", msg)
				return
			}
			c.Count("pending_calls_failed_by_keepalive", 1)
		}
	}
	c.Count("pings", len(got))
	if failures >= 1 && (recovered || wantClose >= 0) {
		c.Nontrivial(fmt.Sprintf("%s/%d/%d/%v", spec.Side, spec.IntervalMs, spec.Threshold, spec.Pattern))
	}
}

var _ = testing.Short

// c13LogHandler turns the SDK's log records into events.
type c13LogHandler struct{ log *vh.Log }

func (h c13LogHandler) Enabled(context.Context, slog.Level) bool { return true }
func (h c13LogHandler) Handle(_ context.Context, r slog.Record) error {
	h.log.Add("sdk-log", "level", r.Level.String(), "msg", r.Message)
	return nil
}
func (h c13LogHandler) WithAttrs([]slog.Attr) slog.Handler { return h }
func (h c13LogHandler) WithGroup(string) slog.Handler      { return h }
