//go:build verif

// C04 — cancelling a call returns promptly and cancels only the matching peer handler.
//
// Mode "sdk": real client/server pairs over every transport; a parking tool
// records, per nonce, when its context is cancelled. Mode "script": a real
// ClientSession against a scripted peer that never answers, answers late,
// answers an abandoned id, or stops accepting the cancellation notice.
package mcpx

import (
	"bytes"
	"context"
	"encoding/json"
	"errors"
	"fmt"
	"io"
	"net/http"
	"strings"
	"sync"
	"testing"
	"time"

	"github.com/modelcontextprotocol/go-sdk/internal/verifharness/vh"
	"github.com/modelcontextprotocol/go-sdk/internal/verifharness/vhm"
	"github.com/modelcontextprotocol/go-sdk/jsonrpc"
	"github.com/modelcontextprotocol/go-sdk/mcp"
)

type c04Call struct {
	N          int    `json:"n"`
	StartAt    int    `json:"start_ms"`
	CancelAt   int    `json:"cancel_ms"`             // -1: never cancelled
	ReleaseAt  int    `json:"release_ms"`            // sdk mode: handler released (-1 never, until cancelled/closed); script: response instant (-1 never)
	Peer       string `json:"peer,omitempty"`        // script mode: answer | never | late | stall-notify | stall-notify-forever
	Dir        string `json:"dir,omitempty"`         // sdk mode: "" client->server tool call; "s2c": server->client call issued inside a tool handler
	ByDeadline bool   `json:"by_deadline,omitempty"` // the call's context ends by its deadline instead of an explicit cancel
}

type c04Spec struct {
	Mode            string    `json:"mode"` // sdk | script
	Transport       string    `json:"transport,omitempty"`
	Calls           []c04Call `json:"calls"`
	EndAt           int       `json:"end_ms"`
	NoStandaloneSSE bool      `json:"no_standalone_sse,omitempty"`
	Version         string    `json:"version,omitempty"`         // sdk mode: requested protocol version ("" = the client's default)
	Propagate       bool      `json:"propagate,omitempty"`       // stateless HTTP: StreamableHTTPOptions.PropagateRequestCancellation
	BlockAt         int       `json:"block_at_ms,omitempty"`     // sdk mode: a client notification sent at this instant whose server handler blocks ...
	BlockMs         int       `json:"block_ms,omitempty"`        // ... for this long (0: none): cancellation notices must not queue behind it
	BodyLatencyMs   int       `json:"body_latency_ms,omitempty"` // http-json: the JSON body of every tools/call response is this long in transit after its headers (a cancel or deadline can fall into that window)
	NestAtOnce      bool      `json:"nest_at_once,omitempty"`    // s2c calls: the tool handler returns the moment its cancelled nested call has returned (the cancellation notice is sent asynchronously and must still reach the client)
	CallerClose     bool      `json:"caller_close,omitempty"`    // sdk mode, persistent transports: at the end the caller's own session is closed gracefully with two calls parked at the peer; one of them is then cancelled (its notice must still go out), the other completes
	NilParams       string    `json:"nil_params,omitempty"`      // sdk mode, legacy session: after the follow-up a call made WITHOUT params (c2s: ListTools(ctx, nil); s2c: ListRoots(ctx, nil) on a stateful session) is parked at the peer and cancelled: the peer's handler for it must see that
	DrainCancel     int       `json:"drain_cancel,omitempty"`    // sdk mode, persistent transports: at the end this many parked calls are cancelled while the callee is already draining under a graceful Close
}

func genC04(r *vh.Rand) c04Spec {
	s := c04Spec{Mode: "sdk"}
	if r.Chance(2, 5) {
		s.Mode = "script"
	} else {
		s.Transport = vhm.PairKinds[r.Intn(len(vhm.PairKinds))]
		s.Version = "2025-06-18"
		if r.Chance(1, 4) {
			// the client's default: 2026-07-28 wherever the transport can serve it
			s.Version = ""
			s.Transport = r.Choose("mem", "pipe", "http-stateless", "http-stateless", "http", "sse")
		} else if r.Chance(1, 8) {
			s.Transport = "http-stateless"
		} else if r.Chance(1, 7) {
			s.Transport = "pipe-chunked" // writers that split every Write: concurrent messages must still not interleave
		}
		if s.Transport == "http-stateless" {
			s.Propagate = r.Bool()
		}
		if s.Version != "" && s.Transport != "http-stateless" && r.Chance(1, 4) {
			s.NilParams = r.Choose("c2s", "s2c")
		}
	}
	k := r.Range(1, 8)
	for i := 0; i < k; i++ {
		cs := c04Call{N: i + 1, StartAt: r.Intn(5), CancelAt: -1, ReleaseAt: -1}
		if r.Chance(3, 5) {
			cs.CancelAt = cs.StartAt + r.Intn(7)
		}
		if s.Mode == "sdk" {
			if r.Chance(1, 3) && s.Version != "" && s.Transport != "http-stateless" {
				cs.Dir = "s2c" // server->client requests need a legacy, stateful session
				if r.Chance(1, 3) {
					cs.Dir = "ask" // the cancelled call is the outer tool call; its handler is waiting for the client's answer to a nested request
				}
			}
			if cs.CancelAt < 0 || r.Chance(1, 3) {
				cs.ReleaseAt = cs.StartAt + r.Intn(8) // may tie with or precede the cancel
			}
			if cs.CancelAt >= 0 && r.Chance(1, 4) {
				cs.ReleaseAt = cs.CancelAt // cancel races the response exactly
			}
		} else {
			cs.Peer = r.Choose("answer", "never", "late", "late", "stall-notify", "stall-notify-forever")
			switch cs.Peer {
			case "answer":
				cs.ReleaseAt = cs.StartAt + r.Intn(8)
			case "late":
				if cs.CancelAt < 0 {
					cs.CancelAt = cs.StartAt + r.Intn(5)
				}
				cs.ReleaseAt = cs.CancelAt + []int{0, 1, 3, 100, 6000, 10000}[r.Intn(6)]
			default:
				if cs.CancelAt < 0 {
					cs.CancelAt = cs.StartAt + r.Intn(6)
				}
			}
		}
		s.Calls = append(s.Calls, cs)
	}
	s.EndAt = 20
	hasS2C := false
	for _, q := range s.Calls {
		hasS2C = hasS2C || q.Dir != ""
	}
	if s.Mode == "sdk" && s.Transport != "http-stateless" && !hasS2C && r.Chance(1, 3) {
		s.BlockAt, s.BlockMs = r.Intn(6), r.Range(2, 9)
	}
	if s.Mode == "sdk" {
		for i := range s.Calls {
			if s.Calls[i].CancelAt > s.Calls[i].StartAt && s.Calls[i].Dir != "s2c" && r.Chance(1, 3) {
				s.Calls[i].ByDeadline = true
			}
		}
	}
	if s.Mode == "sdk" && s.Transport == "http-json" && r.Bool() {
		s.BodyLatencyMs = r.Range(1, 4)
		for i := range s.Calls {
			// aim half of the cancellations at the window in which the answer is on its way
			if q := &s.Calls[i]; q.CancelAt >= 0 && q.Dir == "" && r.Bool() {
				q.ReleaseAt = max(q.StartAt, q.CancelAt-r.Range(1, s.BodyLatencyMs))
				if q.CancelAt <= q.ReleaseAt {
					q.CancelAt = q.ReleaseAt + 1
				}
			}
		}
	}
	if hasS2C && r.Chance(1, 3) {
		s.NestAtOnce = true
	}
	if s.Transport == "http" && r.Bool() && !s.NestAtOnce {
		s.NoStandaloneSSE = true // server->client traffic can then only travel on request streams
	}
	if s.Mode == "sdk" && (s.Transport == "mem" || s.Transport == "pipe") && r.Chance(1, 3) {
		s.DrainCancel = r.Range(1, 3)
	} else if s.Mode == "sdk" && (s.Transport == "mem" || s.Transport == "pipe") && r.Chance(1, 3) {
		s.CallerClose = true
	}
	return s
}

func TestVerifC04(t *testing.T) {
	cfg := vh.Config{
		Property: "C04",
		Cases:    vh.Pick(2000, 60000),
		Rule: "each case: 1..8 concurrent in-flight calls; a random subset is cancelled at instants before/at/after the response instant. mode sdk (3/5): real pair over mem|pipe|sse|http|http-json with a parking tool that records ctx cancellation per nonce; " +
			"every 6th case: a raw JSON-RPC caller (ids: small integers, integers beyond 2^53, digit-only strings next to the equal number; optionally one in-flight id re-sent) parks calls in an SDK server and cancels a subset with notifications/cancelled: exactly those handlers observe cancellation, at that instant; " +
			"mode script (2/5): ClientSession vs scripted peer {answers, never answers, answers 0 ms..10 s late, cannot be sent the cancelled notification (bounded or forever)}. " +
			"non-trivial: >=2 calls in flight together and >=1 cancelled while another stays in flight. distinct = distinct boundary event-kind sequences",
		MinNontrivial: 100,
		Assumptions: []string{"ties between cancel and response at one virtual instant permit either outcome", "a handler that has not started when the cancel arrives may never start",
			"a writer stalled forever is released only when the peer vanishes (pipes ignore contexts)"},
	}
	vh.Run(t, cfg, func(c *vh.Case) {
		if c.Index%6 == 5 {
			// raw-caller mode: see c04raw_test.go
			rs := genC04Raw(c.R)
			c.SetSpec(rs)
			if c.Bubble("", func() { runC04Raw(c, rs) }) {
				decideC04Raw(c, rs)
			}
			return
		}
		spec := genC04(c.R)
		c.SetSpec(spec)
		ok := c.Bubble("", func() {
			if spec.Mode == "sdk" {
				runC04SDK(c, spec)
			} else {
				runC04Script(c, spec)
			}
		})
		if ok {
			decideC04(c, spec)
		}
	})
}

func c04Classify(text string, err error) string {
	switch {
	case err == nil:
		return "ok:" + text
	case errors.Is(err, context.Canceled), errors.Is(err, context.DeadlineExceeded):
		return "ctx"
	case errors.Is(err, mcp.ErrConnectionClosed):
		return "closed"
	}
	return "other:" + err.Error()
}

func textOf(res *mcp.CallToolResult) string {
	if res != nil && len(res.Content) == 1 {
		if tc, ok := res.Content[0].(*mcp.TextContent); ok {
			return tc.Text
		}
	}
	return "unexpected:" + vh.JSON(res)
}

func runC04SDK(c *vh.Case, spec c04Spec) {
	log := c.Log
	ctx := context.Background()
	release := map[int]chan struct{}{}
	for _, cs := range spec.Calls {
		release[cs.N] = make(chan struct{})
	}
	for n := 9100; n < 9110; n++ {
		release[n] = make(chan struct{}) // calls of the drain-then-cancel epilogue: never released
	}
	release[9000], release[9001] = make(chan struct{}), make(chan struct{})
	release[9200], release[9201] = make(chan struct{}), make(chan struct{}) // calls of the caller-close epilogue
	close(release[9000])
	close(release[9001])
	server := mcp.NewServer(&mcp.Implementation{Name: "s", Version: "1"}, &mcp.ServerOptions{
		ProgressNotificationHandler: func(context.Context, *mcp.ProgressNotificationServerRequest) {
			log.Add("blocking-notification-start")
			time.Sleep(ms(spec.BlockMs)) // a synchronous handler: later messages wait for it, cancellation notices must not
			log.Add("blocking-notification-end")
		},
	})
	server.AddTool(&mcp.Tool{Name: "park", InputSchema: json.RawMessage(`{"type":"object"}`)}, func(ctx context.Context, req *mcp.CallToolRequest) (*mcp.CallToolResult, error) {
		var a struct{ Nonce int }
		json.Unmarshal(req.Params.Arguments, &a)
		log.Add("handler-start", "n", a.Nonce)
		select {
		case <-ctx.Done():
			log.Add("handler-ctx-done", "n", a.Nonce, "cause", fmt.Sprint(context.Cause(ctx)))
		case <-release[a.Nonce]:
		}
		log.Add("handler-finish", "n", a.Nonce)
		return &mcp.CallToolResult{Content: []mcp.Content{&mcp.TextContent{Text: fmt.Sprintf("nonce-%d", a.Nonce)}}}, nil
	})
	// s2c: the tool handler itself issues a (cancellable) sampling request to the client
	icancel := map[int]context.CancelFunc{}
	ictx := map[int]context.Context{}
	var imu sync.Mutex
	server.AddTool(&mcp.Tool{Name: "nest", InputSchema: json.RawMessage(`{"type":"object"}`)}, func(ctx context.Context, req *mcp.CallToolRequest) (*mcp.CallToolResult, error) {
		var a struct{ Nonce int }
		json.Unmarshal(req.Params.Arguments, &a)
		// the nested request's context: the handler's own, cancelled when the harness cancels nonce n
		cctx, cancel := context.WithCancel(ctx)
		defer cancel()
		imu.Lock()
		h := ictx[a.Nonce]
		imu.Unlock()
		if h != nil {
			stop := context.AfterFunc(h, cancel)
			defer stop()
		}
		log.Add("call-start", "n", a.Nonce)
		res, err := req.Session.CreateMessage(cctx, &mcp.CreateMessageParams{Meta: mcp.Meta{"nonce": a.Nonce}, MaxTokens: 1,
			Messages: []*mcp.SamplingMessage{{Role: "user", Content: &mcp.TextContent{Text: "x"}}}})
		text := ""
		if err == nil {
			if tc, ok := res.Content.(*mcp.TextContent); ok {
				text = tc.Text
			}
		}
		log.Add("call-return", "n", a.Nonce, "outcome", c04Classify(text, err))
		// The cancellation notice is sent asynchronously and, on streamable HTTP, travels on this
		// request's stream: keep the outer request open for a moment, unless the case is about exactly that race.
		if !spec.NestAtOnce {
			time.Sleep(ms(1))
		}
		return &mcp.CallToolResult{Content: []mcp.Content{&mcp.TextContent{Text: "outer-done"}}}, nil
	})
	server.AddTool(&mcp.Tool{Name: "ask", InputSchema: json.RawMessage(`{"type":"object"}`)}, func(ctx context.Context, req *mcp.CallToolRequest) (*mcp.CallToolResult, error) {
		var a struct{ Nonce int }
		json.Unmarshal(req.Params.Arguments, &a)
		log.Add("handler-start", "n", a.Nonce)
		// parked in a request to the client, made with the handler's own context
		req.Session.CreateMessage(ctx, &mcp.CreateMessageParams{Meta: mcp.Meta{"nonce": a.Nonce + 5000}, MaxTokens: 1,
			Messages: []*mcp.SamplingMessage{{Role: "user", Content: &mcp.TextContent{Text: "x"}}}})
		if ctx.Err() != nil {
			log.Add("handler-ctx-done", "n", a.Nonce, "cause", fmt.Sprint(context.Cause(ctx)))
		}
		log.Add("handler-finish", "n", a.Nonce)
		return &mcp.CallToolResult{Content: []mcp.Content{&mcp.TextContent{Text: fmt.Sprintf("nonce-%d", a.Nonce)}}}, nil
	})
	client := mcp.NewClient(&mcp.Implementation{Name: "c", Version: "1"}, &mcp.ClientOptions{
		CreateMessageHandler: func(ctx context.Context, req *mcp.CreateMessageRequest) (*mcp.CreateMessageResult, error) {
			n := 0
			if f, ok := req.Params.Meta["nonce"].(float64); ok {
				n = int(f)
			}
			if n >= 5000 {
				// nested request of an "ask" call: answered when that call is released, abandoned when it is cancelled
				select {
				case <-ctx.Done():
				case <-release[n-5000]:
				}
				return &mcp.CreateMessageResult{Model: "m", Role: "assistant", Content: &mcp.TextContent{Text: "nested"}}, nil
			}
			log.Add("handler-start", "n", n)
			select {
			case <-ctx.Done():
				log.Add("handler-ctx-done", "n", n, "cause", fmt.Sprint(context.Cause(ctx)))
			case <-release[n]:
			}
			log.Add("handler-finish", "n", n)
			return &mcp.CreateMessageResult{Model: "m", Role: "assistant", Content: &mcp.TextContent{Text: fmt.Sprintf("nonce-%d", n)}}, nil
		},
	})
	// calls made without params (NilParams): parked by method, there is only ever one of them
	npRelease := make(chan struct{})
	npPark := func(method string) mcp.Middleware {
		return func(next mcp.MethodHandler) mcp.MethodHandler {
			return func(ctx context.Context, m string, req mcp.Request) (mcp.Result, error) {
				if m == method && spec.NilParams != "" {
					log.Add("np-handler-start", "method", m)
					select {
					case <-ctx.Done():
						log.Add("np-handler-ctx-done", "method", m)
					case <-npRelease:
					}
				}
				return next(ctx, m, req)
			}
		}
	}
	if spec.NilParams == "c2s" {
		server.AddReceivingMiddleware(npPark("tools/list"))
	} else if spec.NilParams == "s2c" {
		client.AddRoots(&mcp.Root{URI: "file:///r", Name: "r"})
		client.AddReceivingMiddleware(npPark("roots/list"))
	}
	pair, err := vhm.Connect(ctx, vhm.PairOpts{Kind: spec.Transport, Server: server, Client: client, ClientVersion: spec.Version, DisableStandaloneSSE: spec.NoStandaloneSSE, AsyncDelete: true, HTTPOpts: &mcp.StreamableHTTPOptions{PropagateRequestCancellation: spec.Propagate},
		BodyLatency: func(req *http.Request, body []byte) time.Duration {
			if spec.BodyLatencyMs > 0 && req.Method == http.MethodPost && bytes.Contains(body, []byte(`"name":"park"`)) {
				return ms(spec.BodyLatencyMs)
			}
			return 0
		}})
	if err != nil {
		c.Inconclusive("connect %s: %v", spec.Transport, err)
		return
	}
	cs := pair.CS
	var wg, bg sync.WaitGroup
	for _, call := range spec.Calls {
		call := call
		wg.Add(1)
		go func() {
			defer wg.Done()
			defer c.Guard("")
			time.Sleep(ms(call.StartAt))
			cctx, cancel := context.WithCancel(ctx)
			if call.ByDeadline {
				cancel()
				cctx, cancel = context.WithTimeout(ctx, ms(call.CancelAt-call.StartAt))
			}
			defer cancel()
			if call.Dir == "s2c" {
				imu.Lock()
				ictx[call.N], icancel[call.N] = cctx, cancel
				imu.Unlock()
			}
			if call.CancelAt >= 0 {
				bg.Add(1)
				go func() {
					defer bg.Done()
					time.Sleep(ms(call.CancelAt - call.StartAt))
					log.Add("cancel", "n", call.N)
					if !call.ByDeadline {
						cancel()
					}
				}()
			}
			if call.ReleaseAt >= 0 {
				bg.Add(1)
				go func() {
					defer bg.Done()
					time.Sleep(ms(call.ReleaseAt - call.StartAt))
					log.Add("release", "n", call.N)
					close(release[call.N])
				}()
			}
			if call.Dir == "s2c" {
				// the outer tool call is never cancelled; the cancel goroutine above cancels cctx,
				// which is relayed to the context of the nested server->client request
				if _, err := cs.CallTool(ctx, &mcp.CallToolParams{Name: "nest", Arguments: map[string]any{"nonce": call.N}}); err != nil {
					log.Add("outer-call-failed", "n", call.N, "err", err.Error())
				}
				return
			}
			log.Add("call-start", "n", call.N)
			tool := "park"
			if call.Dir == "ask" {
				tool = "ask"
			}
			args := map[string]any{"nonce": call.N}
			if spec.Transport == "pipe-chunked" {
				args["pad"] = strings.Repeat("x", 1500) // a long frame: other writers get their chance while it is on its way
			}
			res, err := cs.CallTool(cctx, &mcp.CallToolParams{Name: tool, Arguments: args})
			log.Add("call-return", "n", call.N, "outcome", c04Classify(textOf(res), err))
		}()
	}
	if spec.BlockMs > 0 {
		bg.Add(1)
		go func() {
			defer bg.Done()
			time.Sleep(ms(spec.BlockAt))
			cs.NotifyProgress(ctx, &mcp.ProgressNotificationParams{ProgressToken: "block", Progress: 1})
		}()
	}
	wg.Wait()
	bg.Wait()
	time.Sleep(ms(spec.EndAt))
	// the session must still be usable
	log.Add("followup-start")
	if cs.InitializeResult().ProtocolVersion >= "2026-07-28" {
		// ping is not part of the sessionless protocol
		log.Add("followup", "what", "ping", "outcome", "ok")
	} else if err := cs.Ping(ctx, nil); err != nil {
		log.Add("followup", "what", "ping", "outcome", "error:"+err.Error())
	} else {
		log.Add("followup", "what", "ping", "outcome", "ok")
	}
	res, err := cs.CallTool(ctx, &mcp.CallToolParams{Name: "park", Arguments: map[string]any{"nonce": 9000}})
	log.Add("followup", "what", "call", "outcome", c04Classify(textOf(res), err), "want", "ok:nonce-9000")
	if spec.NilParams != "" && (spec.NilParams == "c2s" || (pair.SS != nil && !spec.NoStandaloneSSE)) {
		nctx, ncancel := context.WithCancel(ctx)
		done := make(chan error, 1)
		go func() {
			defer c.Guard("")
			var err error
			if spec.NilParams == "c2s" {
				_, err = cs.ListTools(nctx, nil)
			} else {
				_, err = pair.SS.ListRoots(nctx, nil)
			}
			done <- err
		}()
		time.Sleep(ms(1))
		if len(log.Find("np-handler-start")) == 1 {
			t0 := log.Now()
			ncancel()
			err := <-done
			if !errors.Is(err, context.Canceled) || log.Now() != t0 {
				c.Violate("cancel-not-prompt", "a %s call made without params was cancelled at %v and returned %v at %v", spec.NilParams, t0, err, log.Now())
			}
			time.Sleep(ms(1))
			if len(log.Find("np-handler-ctx-done")) != 1 && !c.Violated() {
				c.Violate("handler-not-cancelled", "%s call made without params (%s) over %s: cancelled by its caller at %v on a healthy connection; a millisecond later the peer's handler for it has not been cancelled", spec.NilParams,
					map[string]string{"c2s": "ListTools(ctx, nil)", "s2c": "ListRoots(ctx, nil)"}[spec.NilParams], spec.Transport, t0)
			}
			c.Count("calls_without_params_cancelled", 1)
		} else {
			ncancel()
			<-done
		}
		close(npRelease)
	}
	if spec.DrainCancel > 0 && pair.SS != nil {
		// The callee starts a graceful Close while calls are parked in its handlers, and only then do the
		// callers give up: the cancellation must still reach exactly those handlers (at that instant), which
		// lets the Close finish.
		var dwg sync.WaitGroup
		dctx, dcancel := context.WithCancel(ctx)
		for i := 0; i < spec.DrainCancel; i++ {
			n := 9100 + i
			dwg.Add(1)
			go func() {
				defer dwg.Done()
				log.Add("call-start", "n", n)
				res, err := cs.CallTool(dctx, &mcp.CallToolParams{Name: "park", Arguments: map[string]any{"nonce": n}})
				log.Add("call-return", "n", n, "outcome", c04Classify(textOf(res), err))
			}()
		}
		synctestWait()
		dwg.Add(1)
		go func() {
			defer dwg.Done()
			log.Add("drain-close-called")
			pair.SS.Close()
			log.Add("drain-close-returned")
		}()
		time.Sleep(ms(2))
		log.Add("drain-cancel")
		dcancel()
		dwg.Wait()
		log.Add("drain-done")
	}
	if spec.CallerClose {
		// The caller closes its own session gracefully while two of its calls are parked at the peer; Close waits
		// for them. One is then cancelled: the peer's handler for exactly that call must see it at once. The
		// other is released afterwards and completes, which lets the Close finish.
		var cwg sync.WaitGroup
		c1ctx, c1cancel := context.WithCancel(ctx)
		rel2 := release[9201]
		for _, n := range []int{9200, 9201} {
			cwg.Add(1)
			go func() {
				defer cwg.Done()
				cc := ctx
				if n == 9200 {
					cc = c1ctx
				}
				log.Add("call-start", "n", n)
				res, err := cs.CallTool(cc, &mcp.CallToolParams{Name: "park", Arguments: map[string]any{"nonce": n}})
				log.Add("call-return", "n", n, "outcome", c04Classify(textOf(res), err))
			}()
		}
		synctestWait()
		cwg.Add(1)
		go func() {
			defer cwg.Done()
			log.Add("caller-close-called")
			cs.Close()
			log.Add("caller-close-returned")
		}()
		time.Sleep(ms(2))
		log.Add("caller-cancel")
		c1cancel()
		time.Sleep(ms(2))
		log.Add("caller-release")
		close(rel2)
		cwg.Wait()
	}
	// release every handler that is still parked (never-released, never-cancelled ones), then close
	log.Add("closing")
	for _, call := range spec.Calls {
		if call.ReleaseAt < 0 {
			close(release[call.N])
		}
	}
	cs.Close()
	if pair.SS != nil {
		pair.SS.Wait()
	}
	if pair.InProc != nil {
		pair.InProc.Wait()
	}
	time.Sleep(11 * time.Second)
}

func runC04Script(c *vh.Case, spec c04Spec) {
	log := c.Log
	ctx := context.Background()
	sc := vhm.NewScriptConn(log)
	byN := map[int]c04Call{}
	for _, cs := range spec.Calls {
		byN[cs.N] = cs
	}
	idOf := map[string]int{} // jsonrpc id -> nonce
	var mu sync.Mutex
	vanish := make(chan struct{})
	var bg sync.WaitGroup
	okRes := func(n int) string { return fmt.Sprintf(`{"content":[{"type":"text","text":"nonce-%d"}]}`, n) }
	sc.OnWrite = func(wctx context.Context, msg jsonrpc.Message) error {
		req, ok := msg.(*jsonrpc.Request)
		if !ok {
			return nil
		}
		switch req.Method {
		case "initialize":
			sc.Inject(vhm.Resp(req.ID, vhm.InitializeResultJSON("2025-06-18")))
			return nil
		case "ping":
			sc.Inject(vhm.Resp(req.ID, `{}`))
			return nil
		case "notifications/cancelled":
			var p struct {
				RequestID any `json:"requestId"`
			}
			json.Unmarshal(req.Params, &p)
			id := vhm.IDString(vhm.MustID(p.RequestID))
			mu.Lock()
			n := idOf[id]
			mu.Unlock()
			log.Add("cancel-notice-attempt", "n", n, "id", id)
			switch byN[n].Peer {
			case "stall-notify":
				select { // peer stopped draining; this transport honours the write context
				case <-wctx.Done():
					return wctx.Err()
				case <-vanish:
					return io.ErrClosedPipe
				}
			case "stall-notify-forever":
				<-vanish // a pipe write ignores its context
				return io.ErrClosedPipe
			}
			log.Add("cancel-notice-delivered", "n", n, "id", id)
			return nil
		case "tools/call":
			n := nonceOfParams(req.Params)
			mu.Lock()
			idOf[vhm.IDString(req.ID)] = n
			mu.Unlock()
			log.Add("req-seen", "n", n, "id", vhm.IDString(req.ID))
			cs, ok := byN[n]
			if !ok {
				sc.Inject(vhm.Resp(req.ID, okRes(n)))
				return nil
			}
			if cs.ReleaseAt >= 0 {
				id := req.ID
				bg.Add(1)
				go func() {
					defer bg.Done()
					time.Sleep(ms(cs.ReleaseAt - cs.StartAt))
					log.Add("release", "n", n)
					sc.Inject(vhm.Resp(id, okRes(n)))
				}()
			}
		}
		return nil
	}
	client := mcp.NewClient(&mcp.Implementation{Name: "c", Version: "1"}, nil)
	cs, err := client.Connect(ctx, sc, &mcp.ClientSessionOptions{ProtocolVersion: "2025-06-18"})
	if err != nil {
		c.Inconclusive("connect: %v", err)
		return
	}
	var wg, cg sync.WaitGroup
	for _, call := range spec.Calls {
		call := call
		wg.Add(1)
		go func() {
			defer wg.Done()
			defer c.Guard("")
			time.Sleep(ms(call.StartAt))
			cctx, cancel := context.WithCancel(ctx)
			defer cancel()
			if call.CancelAt >= 0 {
				cg.Add(1)
				go func() {
					defer cg.Done()
					time.Sleep(ms(call.CancelAt - call.StartAt))
					log.Add("cancel", "n", call.N)
					cancel()
				}()
			}
			log.Add("call-start", "n", call.N)
			res, err := cs.CallTool(cctx, &mcp.CallToolParams{Name: "park", Arguments: map[string]any{"nonce": call.N}})
			log.Add("call-return", "n", call.N, "outcome", c04Classify(textOf(res), err))
		}()
	}
	// A call that is never answered and never cancelled cannot exist in this mode (generator),
	// so every caller returns on its own.
	wg.Wait()
	cg.Wait()
	time.Sleep(ms(spec.EndAt))
	log.Add("followup-start")
	if err := cs.Ping(ctx, nil); err != nil {
		log.Add("followup", "what", "ping", "outcome", "error:"+err.Error())
	} else {
		log.Add("followup", "what", "ping", "outcome", "ok")
	}
	res, err := cs.CallTool(ctx, &mcp.CallToolParams{Name: "park", Arguments: map[string]any{"nonce": 9000}})
	log.Add("followup", "what", "call", "outcome", c04Classify(textOf(res), err), "want", "ok:nonce-9000")
	time.Sleep(12 * time.Second) // late responses (<= 10 s) arrive, bounded notify helpers (5 s) end
	res, err = cs.CallTool(ctx, &mcp.CallToolParams{Name: "park", Arguments: map[string]any{"nonce": 9001}})
	log.Add("followup", "what", "call-after-late-responses", "outcome", c04Classify(textOf(res), err), "want", "ok:nonce-9001")
	log.Add("closing")
	close(vanish) // the peer goes away: stalled writes fail, reads end
	sc.FailRead(io.EOF)
	cs.Close()
	bg.Wait()
	time.Sleep(11 * time.Second)
}

func decideC04(c *vh.Case, spec c04Spec) {
	if c.Violated() {
		return
	}
	evs := c.Log.Events()
	start, ret := map[int]vh.Event{}, map[int]vh.Event{}
	cancelT, releaseT := map[int]int64{}, map[int]int64{}
	cancelSeq := map[int]int64{}
	hstart, hdone := map[int]vh.Event{}, map[int]vh.Event{}
	hfinish := map[int]vh.Event{}
	noticeFor := map[int]int{}
	var closing int64 = 1 << 60
	for _, e := range evs {
		n := fint(e, "n")
		switch e.Kind {
		case "call-start":
			start[n] = e
		case "call-return":
			if _, dup := ret[n]; dup {
				c.Violate("call-completed-twice", "call %d returned twice", n)
				return
			}
			ret[n] = e
		case "cancel":
			cancelT[n] = e.T
			cancelSeq[n] = e.Seq
		case "release":
			releaseT[n] = e.T
		case "handler-start":
			hstart[n] = e
		case "handler-ctx-done":
			if _, ok := hdone[n]; !ok {
				hdone[n] = e
			}
		case "handler-finish":
			if _, ok := hfinish[n]; !ok {
				hfinish[n] = e
			}
		case "cancel-notice-attempt":
			noticeFor[n]++
		case "closing":
			closing = e.T
		case "followup":
			out := fstr(e, "outcome")
			if want := fstr(e, "want"); want != "" {
				if out != want {
					c.Violate("session-unusable-after-cancel", "follow-up %s after the cancellations returned %q, want %q", fstr(e, "what"), out, want)
					return
				}
			} else if out != "ok" {
				c.Violate("session-unusable-after-cancel", "follow-up %s after the cancellations failed: %s", fstr(e, "what"), out)
				return
			}
		}
	}
	cancelledWhileOtherInFlight := false
	inflightPairs := 0
	for _, cs := range spec.Calls {
		n := cs.N
		st, ok1 := start[n]
		r, ok2 := ret[n]
		if !ok1 || !ok2 {
			c.Violate("call-never-returned", "call %d did not return (start seen: %v)", n, ok1)
			return
		}
		outcome := fstr(r, "outcome")
		if strings.HasPrefix(outcome, "ok:") && outcome != fmt.Sprintf("ok:nonce-%d", n) {
			c.Violate("foreign-response", "call %d completed with %q", n, outcome)
			return
		}
		ct, cancelled := cancelT[n]
		rt, released := releaseT[n]
		if hs, ok := hstart[n]; ok && released && spec.Mode == "sdk" && hs.T > rt {
			rt = hs.T // the handler was dispatched after its release (it queued behind a synchronous handler): it answers at once
		}
		if _, ok := hstart[n]; !ok && released && spec.Mode == "sdk" && cancelled {
			released = false // cancelled before its handler was ever dispatched: no response can exist
		}
		// the response reaches the caller when its body has travelled (http-json with a slow body); the handler
		// side below keeps judging by the instant the handler answered
		rtHandler := rt
		if released && spec.BodyLatencyMs > 0 && cs.Dir == "" {
			rt += int64(spec.BodyLatencyMs) * 1000
		}
		switch {
		case cancelled && (!released || ct < rt):
			if r.T != ct {
				c.Violate("cancel-not-prompt", "call %d: context cancelled at %dus but the call returned at %dus (%s)", n, ct, r.T, outcome)
				return
			}
			if outcome != "ctx" {
				c.Violate("cancel-wrong-outcome", "call %d cancelled at %dus (no response before) returned %q instead of the context error", n, ct, outcome)
				return
			}
		case cancelled && released && ct == rt:
			if r.T != ct || (outcome != "ctx" && !strings.HasPrefix(outcome, "ok:")) {
				c.Violate("cancel-not-prompt", "call %d: cancel and response tie at %dus but it returned %q at %dus", n, ct, outcome, r.T)
				return
			}
		case released:
			if r.T != rt || !strings.HasPrefix(outcome, "ok:") {
				c.Violate("response-not-delivered", "call %d: response released at %dus (before any cancel) but the call returned %q at %dus", n, rt, outcome, r.T)
				return
			}
		default:
			c.Inconclusive("call %d has neither cancel nor release yet returned %q", n, outcome)
			return
		}
		_ = st
		if spec.Mode == "sdk" {
			hd, hasDone := hdone[n]
			hs, hasStart := hstart[n]
			switch {
			case cancelled && released && ct > rtHandler && ct <= rt:
				// cancelled while the answer was on its way: the handler had already returned
				c.Count("cancelled_while_body_in_transit", 1)
			case cancelled && (!released || ct < rtHandler):
				// the matching handler, if it was already running when the cancel happened
				// ("during handling"), must see the cancellation at the cancel instant
				if hasStart && hs.Seq < cancelSeq[n] && (!cs.ByDeadline || hs.T < ct) {
					if hf, ok := hfinish[n]; ok && !hasDone && hf.T <= ct {
						// the handler had returned by the instant of the cancellation (it gave up by itself in that very
						// instant, e.g. because its nested request could no longer be written): nothing was left to cancel
						c.Count("handler_already_gone_at_cancel", 1)
					} else if !hasDone {
						key := "handler-not-cancelled"
						if spec.NestAtOnce && cs.Dir == "s2c" {
							key = "handler-not-cancelled/nested-caller-returned"
						}
						if spec.Transport == "http-stateless" && !(spec.Version == "" && spec.Propagate) {
							// every POST is its own session there: the cancellation notice reaches another one.
							// Only 2026-07-28 requests with PropagateRequestCancellation are tied to the HTTP request.
							key = "handler-not-cancelled/http-stateless"
						}
						c.Violate(key, "call %d cancelled at %dus over %s (version %q, propagate=%v): its handler (started %dus) never observed ctx.Done", n, ct, spec.Transport, spec.Version, spec.Propagate, hs.T)
						return
					} else if hasDone && hd.T != ct {
						c.Violate("handler-cancelled-late", "call %d cancelled at %dus: its handler observed ctx.Done only at %dus", n, ct, hd.T)
						return
					}
				}
			case cancelled && released && ct == rtHandler:
				// tie: either
			default:
				// never cancelled (or cancelled only after the response): must not be cancelled before closing
				if hasDone && hd.T < closing && (!cancelled || hd.T < ct) {
					c.Violate("wrong-handler-cancelled", "handler of call %d observed ctx.Done at %dus (cause %q) although that call was not cancelled then", n, hd.T, fstr(hd, "cause"))
					return
				}
			}
		} else {
			// script mode: the cancelled notification must name exactly this call, and only cancelled calls get one
			if !cancelled && noticeFor[n] > 0 {
				c.Violate("wrong-call-cancelled", "peer received notifications/cancelled for call %d which was never cancelled", n)
				return
			}
			if cancelled && (!released || ct < rt) && noticeFor[n] != 1 {
				c.Violate("cancel-notice-mismatch", "call %d was cancelled at %dus but the peer saw %d cancellation notice(s) naming its request id", n, ct, noticeFor[n])
				return
			}
		}
		for _, o := range spec.Calls {
			if o.N == n {
				continue
			}
			os, or := start[o.N], ret[o.N]
			if os.T <= r.T && st.T <= or.T {
				inflightPairs++
				if cancelled && ct >= os.T && ct < or.T {
					cancelledWhileOtherInFlight = true
				}
			}
		}
	}
	if noticeFor[0] > 0 {
		c.Violate("cancel-notice-mismatch", "peer received %d cancellation notice(s) whose requestId matches no request it was sent", noticeFor[0])
		return
	}
	if spec.CallerClose {
		var ccT, relT, closeRet int64 = -1, -1, -1
		for _, e := range evs {
			switch e.Kind {
			case "caller-cancel":
				ccT = e.T
			case "caller-release":
				relT = e.T
			case "caller-close-returned":
				closeRet = e.T
			}
		}
		if _, started := hstart[9200]; started && ccT >= 0 {
			if hd, ok := hdone[9200]; !ok || hd.T != ccT {
				c.Violate("handler-not-cancelled/caller-closing", "the caller had begun a graceful Close of its own session with two calls parked at the peer; one of them was cancelled at %dus; its handler observed cancellation: %v (at %dus)", ccT, ok, hd.T)
				return
			}
			if r, ok := ret[9200]; !ok || r.T != ccT || !strings.HasPrefix(fstr(r, "outcome"), "ctx") {
				c.Violate("cancel-not-prompt", "call 9200 cancelled at %dus (caller closing) returned %v at %dus with %q", ccT, ok, r.T, fstr(r, "outcome"))
				return
			}
			if hd, ok := hdone[9201]; ok && hd.T < relT {
				c.Violate("wrong-handler-cancelled", "the other parked call (9201) was never cancelled, yet its handler's context was cancelled at %dus", hd.T)
				return
			}
			if r, ok := ret[9201]; !ok || fstr(r, "outcome") != "ok:nonce-9201" || r.T != relT {
				c.Violate("response-not-delivered", "call 9201 (parked while its caller's session closes gracefully) was released at %dus and returned %v %q at %dus", relT, ok, fstr(r, "outcome"), r.T)
				return
			}
			if closeRet != relT {
				c.Violate("close-outlives-cancelled-handlers", "the caller's graceful Close returned at %dus although its last call completed at %dus", closeRet, relT)
				return
			}
			c.Count("caller_close_cases", 1)
		}
	}
	if spec.DrainCancel > 0 {
		var dcT, closeRet int64 = -1, -1
		for _, e := range evs {
			switch e.Kind {
			case "drain-cancel":
				dcT = e.T
			case "drain-close-returned":
				closeRet = e.T
			}
		}
		if dcT >= 0 {
			for i := 0; i < spec.DrainCancel; i++ {
				n := 9100 + i
				if _, ok := hstart[n]; !ok {
					continue // the call never reached its handler before the Close began: nothing to cancel
				}
				hd, ok := hdone[n]
				if !ok || hd.T != dcT {
					c.Violate("handler-not-cancelled/draining", "call %d was cancelled at %dus while the callee was draining under a graceful Close; its handler observed cancellation: %v (at %dus)", n, dcT, ok, hd.T)
					return
				}
				if r, ok := ret[n]; !ok || r.T != dcT || !strings.HasPrefix(fstr(r, "outcome"), "ctx") {
					c.Violate("not-prompt", "call %d cancelled at %dus (callee draining) returned %v at %dus with %q", n, dcT, ok, r.T, fstr(r, "outcome"))
					return
				}
			}
			if closeRet != dcT {
				c.Violate("close-outlives-cancelled-handlers", "the callee's graceful Close returned at %dus although its last handlers were cancelled at %dus", closeRet, dcT)
				return
			}
			c.Count("drain_cancel_calls", spec.DrainCancel)
		}
	}
	c.Count("calls", len(spec.Calls))
	if inflightPairs >= 2 && cancelledWhileOtherInFlight {
		c.Nontrivial(spec.Mode + spec.Transport + ":" + c.Log.KindSignature())
	}
}

var _ = testing.Short
