//go:build verif

// C19 — wire codec and framing round-trip every message and value without loss.
//
// Four generators, selected by case index: (A) JSON-RPC messages built as Go
// values and as raw wire text, (B) hostile byte strings, (C) MCP protocol
// values (content kinds, results with nil/empty lists), (D) live sessions over
// every transport with a wire monitor on the client's Connection that checks
// every message the SDK sends or receives, and payloads chosen to stress the
// ndjson and SSE framing.
package mcpx

import (
	"bytes"
	"context"
	"encoding/json"
	"errors"
	"fmt"
	"math/big"
	"net/http"
	"reflect"
	"sort"
	"strings"
	"sync"
	"testing"
	"time"

	"github.com/modelcontextprotocol/go-sdk/internal/verifharness/vh"
	"github.com/modelcontextprotocol/go-sdk/internal/verifharness/vhm"
	"github.com/modelcontextprotocol/go-sdk/jsonrpc"
	"github.com/modelcontextprotocol/go-sdk/mcp"
)

// ------------------------------------------------------------ JSON generator

var c19Strings = []string{"", "a", "héllo ✓", "line1\nline2", "tab\tq\"uote\\back", "<script>&amp;</script>", "data: x", "event: message", "id: 7", " lead", "trail ", "\r\n", "  ", "𝄞", "\x00\x01", "=?base64?aGk=?=", "null", "[1,2]"}

func c19String(r *vh.Rand) string {
	if r.Chance(1, 5) {
		n := r.Range(1, 40)
		b := make([]rune, n)
		for i := range b {
			b[i] = rune([]int{0x20 + r.Intn(95), 0xe9, 0x4e2d, 0x1F600, '\n', '"', '\\', '<'}[r.Intn(8)])
		}
		return string(b)
	}
	return c19Strings[r.Intn(len(c19Strings))]
}

func c19Number(r *vh.Rand) string {
	return []string{"0", "-0", "1", "-1", "9007199254740993", "-9223372036854775808", "18446744073709551616", "1.5", "-2.25e-3", "1e400", "123456789012345678901234567890", "0.1", "1E2"}[r.Intn(13)]
}

func c19JSON(r *vh.Rand, depth int) string {
	k := r.Intn(8)
	if depth <= 0 && k < 3 {
		k += 3
	}
	switch k {
	case 0, 1:
		n := r.Intn(4)
		parts := []string{}
		seen := map[string]bool{}
		for i := 0; i < n; i++ {
			key := c19String(r)
			if seen[key] {
				continue
			}
			seen[key] = true
			kb, _ := json.Marshal(key)
			parts = append(parts, string(kb)+":"+c19JSON(r, depth-1))
		}
		return "{" + strings.Join(parts, ",") + "}"
	case 2:
		n := r.Intn(4)
		parts := []string{}
		for i := 0; i < n; i++ {
			parts = append(parts, c19JSON(r, depth-1))
		}
		return "[" + strings.Join(parts, ",") + "]"
	case 3, 4:
		b, _ := json.Marshal(c19String(r))
		return string(b)
	case 5:
		return c19Number(r)
	case 6:
		return r.Choose("true", "false")
	default:
		return "null"
	}
}

// canon decodes JSON text into a tree whose numbers are exact rationals (as strings).
func canon(raw []byte) (any, error) {
	dec := json.NewDecoder(bytes.NewReader(raw))
	dec.UseNumber()
	var v any
	if err := dec.Decode(&v); err != nil {
		return nil, err
	}
	return canonTree(v), nil
}

func canonTree(v any) any {
	switch x := v.(type) {
	case json.Number:
		if rat, ok := new(big.Rat).SetString(string(x)); ok {
			return "num:" + rat.RatString()
		}
		return "num?:" + string(x)
	case map[string]any:
		for k, e := range x {
			x[k] = canonTree(e)
		}
		return x
	case []any:
		for i, e := range x {
			x[i] = canonTree(e)
		}
		return x
	}
	return v
}

func jsonEqual(a, b []byte) bool {
	if len(bytes.TrimSpace(a)) == 0 && len(bytes.TrimSpace(b)) == 0 {
		return true
	}
	x, err1 := canon(a)
	y, err2 := canon(b)
	return err1 == nil && err2 == nil && reflect.DeepEqual(x, y)
}

func c19ID(r *vh.Rand) (raw string, id jsonrpc.ID) {
	switch r.Intn(4) {
	case 0:
		s := c19String(r)
		b, _ := json.Marshal(s)
		id, _ = jsonrpc.MakeID(s)
		return string(b), id
	default:
		n := []int64{0, 1, -1, 42, 1<<53 - 1, 1 << 53, 1<<53 + 1, -(1<<53 + 1), 1<<62 + 12345, 9223372036854775807, -9223372036854775808, int64(r.Uint64())}[r.Intn(12)]
		raw = fmt.Sprint(n)
		// build the ID from exact wire text so that no float is involved on the harness side
		m, err := jsonrpc.DecodeMessage([]byte(`{"jsonrpc":"2.0","id":` + raw + `,"method":"x"}`))
		if err == nil {
			id = m.(*jsonrpc.Request).ID
		}
		return raw, id
	}
}

func TestVerifC19(t *testing.T) {
	cfg := vh.Config{
		Property: "C19",
		Cases:    vh.Pick(20000, 160000),
		Rule: "case i mod 8: 0-2 JSON-RPC messages (ids: strings incl. empty/unicode/escapes, integers over the whole int64 range; params/results: random JSON trees with big/fractional numbers, escapes, <>&; errors with data) checked as decode(encode(x))==x and, from shuffled raw wire text, encode(decode(w))~w on id/method/params/result/error; " +
			"3 hostile bytes (random, mutated valid messages, deep nesting, wrong-case keys) and, every second of them, a result/params document of one of 18 protocol types with 1-2 sub-values replaced by null / a scalar / an array / an object of the wrong shape, decoded into that type (no panic); 4-5 MCP values (every content kind with _meta/annotations/nested content, every list result with nil and empty lists) checked for round trip and required non-null members; " +
			"6-7 (1 in 40 of them) a live session over mem|pipe|sse|http|http-json with a wire monitor on every message and framing-hostile payloads. non-trivial: every case except rejected hostile inputs; distinct = distinct generated inputs (hash)",
		MinNontrivial: 1000,
		Shards:        0,
		Assumptions:   []string{"JSON numbers are compared as exact rationals", "object member order and insignificant whitespace are not part of a value"},
	}
	vh.Run(t, cfg, func(c *vh.Case) {
		switch c.Index % 8 {
		case 0, 1, 2:
			c19Messages(c)
		case 3:
			if c.Index%16 == 3 {
				c19HostileValues(c) // see c19hostile_test.go
			} else if c.Index%64 == 11 {
				c19CaseValues(c) // member names inside protocol values, differing only in letter case
			} else if c.Index%64 == 43 {
				c.Bubble("", func() { c19CoalescedSSE(c) }) // messages sharing a read with the endpoint event of an HTTP+SSE stream
			} else if c.Index%64 == 27 {
				c.Bubble("", func() { c19PaddedBodies(c) }) // insignificant whitespace around a POST body (single message or batch)
			} else {
				c19Hostile(c)
			}
		case 4, 5:
			c19Values(c)
		default:
			if c.Index%40 == 6 || c.Index%40 == 7 {
				c.Bubble("", func() { c19Live(c) })
			} else {
				c19Messages(c)
			}
		}
	})
}

// ------------------------------------------------------- (A) JSON-RPC messages

func c19Messages(c *vh.Case) {
	r := c.R
	idRaw, id := c19ID(r)
	params := c19JSON(r, 3)
	if r.Chance(1, 2) {
		// params are an object or array on the wire
		params = r.Choose("{", "[") + "]"
		if params[0] == '{' {
			params = "{" + `"k":` + c19JSON(r, 3) + "}"
		} else {
			params = "[" + c19JSON(r, 3) + "]"
		}
	}
	method := r.Choose("tools/call", "m", "", "notifications/x", "Ünïcode/<&>", "a\"b")
	mb, _ := json.Marshal(method)
	kind := r.Intn(4)
	var wire string
	fields := []string{`"jsonrpc":"2.0"`}
	switch kind {
	case 0: // call
		fields = append(fields, `"id":`+idRaw, `"method":`+string(mb), `"params":`+params)
	case 1: // notification
		fields = append(fields, `"method":`+string(mb), `"params":`+params)
	case 2: // result
		fields = append(fields, `"id":`+idRaw, `"result":`+params)
	default: // error
		msgb, _ := json.Marshal(c19String(r))
		fields = append(fields, `"id":`+idRaw, fmt.Sprintf(`"error":{"code":%d,"message":%s,"data":%s}`, []int{-32601, -32000, 0, 1, 2147483648}[r.Intn(5)], msgb, params))
	}
	r.Shuffle(len(fields), func(i, j int) { fields[i], fields[j] = fields[j], fields[i] })
	sep := r.Choose(",", " , ", ",\t")
	wire = "{" + strings.Join(fields, sep) + "}"
	c.SetSpec(map[string]any{"gen": "message", "wire": wire})
	msg, err := jsonrpc.DecodeMessage([]byte(wire))
	if err != nil {
		c.Violate("valid-message-rejected", "DecodeMessage(%s) = %v", wire, err)
		return
	}
	out, err := jsonrpc.EncodeMessage(msg)
	if err != nil {
		c.Violate("reencode-failed", "EncodeMessage(DecodeMessage(%s)) = %v", wire, err)
		return
	}
	if !c19SameMessage([]byte(wire), out) {
		c.Violate("wire-roundtrip-altered", "decode+encode altered the message:\n in: %s\nout: %s", wire, out)
		return
	}
	// value round trip: decode(encode(x)) == x
	msg2, err := jsonrpc.DecodeMessage(out)
	if err != nil {
		c.Violate("own-encoding-rejected", "DecodeMessage(%s) = %v", out, err)
		return
	}
	out2, _ := jsonrpc.EncodeMessage(msg2)
	if !bytes.Equal(out, out2) {
		c.Violate("value-roundtrip-unstable", "encode(decode(encode(x))) differs:\n1: %s\n2: %s", out, out2)
		return
	}
	// the decoded id must be the very id that was sent (type and exact value)
	switch m := msg.(type) {
	case *jsonrpc.Request:
		if kind == 0 && m.ID.Raw() != id.Raw() {
			c.Violate("id-altered", "request id %s decoded as %#v", idRaw, m.ID.Raw())
		}
		if m.Method != method {
			c.Violate("method-altered", "method %q decoded as %q", method, m.Method)
		}
	case *jsonrpc.Response:
		if m.ID.Raw() != id.Raw() {
			c.Violate("id-altered", "response id %s decoded as %#v", idRaw, m.ID.Raw())
		}
	}
	// ndjson framing: the encoding must be a single line
	if bytes.ContainsAny(out, "\n\r") {
		c.Violate("encoding-not-single-line", "encoded message contains a raw newline: %q", out)
	}
	c.Nontrivial(wire)
}

// c19SameMessage compares two wire messages member by member.
func c19SameMessage(a, b []byte) bool {
	var x, y map[string]json.RawMessage
	if json.Unmarshal(a, &x) != nil || json.Unmarshal(b, &y) != nil {
		return false
	}
	for _, k := range []string{"jsonrpc", "id", "method", "params", "result", "error"} {
		xa, xok := x[k]
		ya, yok := y[k]
		if k == "id" && xok != yok {
			return false
		}
		if k == "id" && xok {
			// exact: same JSON type and same decimal text for integers
			if (xa[0] == '"') != (ya[0] == '"') {
				return false
			}
			if xa[0] != '"' && string(bytes.TrimSpace(xa)) != string(bytes.TrimSpace(ya)) {
				return false
			}
		}
		if xok != yok {
			// absent vs. null/empty is tolerated only for params of notifications? no: must match presence
			if k == "params" || k == "result" {
				if (xok && string(bytes.TrimSpace(xa)) == "null") || (yok && string(bytes.TrimSpace(ya)) == "null") {
					continue
				}
			}
			return false
		}
		if xok && !jsonEqual(xa, ya) {
			return false
		}
	}
	return true
}

// ------------------------------------------------------------ (B) hostile bytes

func c19Hostile(c *vh.Case) {
	r := c.R
	var in []byte
	kind := r.Intn(6)
	switch kind {
	case 0:
		in = make([]byte, r.Intn(64))
		for i := range in {
			in[i] = byte(r.Intn(256))
		}
	case 1, 2:
		base := []byte(`{"jsonrpc":"2.0","id":17,"method":"tools/call","params":{"name":"echo","arguments":{"a":[1,2,{"b":"c"}]}}}`)
		in = append([]byte(nil), base...)
		for k := r.Range(1, 4); k > 0 && len(in) > 0; k-- {
			p := r.Intn(len(in))
			switch r.Intn(3) {
			case 0:
				in[p] = byte(r.Intn(256))
			case 1:
				in = append(in[:p], in[p+1:]...)
			default:
				in = append(in[:p], append([]byte{byte(r.Intn(256))}, in[p:]...)...)
			}
		}
	case 3:
		d := []int{100, 1000, 10001, 100000}[r.Intn(4)]
		in = []byte(`{"jsonrpc":"2.0","id":1,"method":"m","params":` + strings.Repeat("[", d) + strings.Repeat("]", d) + `}`)
	case 4:
		// wrong-case member names must not be taken for the real ones
		k := r.Choose("Method", "METHOD", "Id", "ID", "Params", "JSONRPC", "Result", "Error")
		switch strings.ToLower(k) {
		case "method":
			in = []byte(`{"jsonrpc":"2.0","id":1,"` + k + `":"secret"}`)
		case "id":
			in = []byte(`{"jsonrpc":"2.0","` + k + `":1,"method":"m"}`)
		case "params":
			in = []byte(`{"jsonrpc":"2.0","id":1,"method":"m","` + k + `":{"x":1}}`)
		case "jsonrpc":
			in = []byte(`{"` + k + `":"2.0","id":1,"method":"m"}`)
		case "result":
			in = []byte(`{"jsonrpc":"2.0","id":1,"` + k + `":{"x":1}}`)
		default:
			in = []byte(`{"jsonrpc":"2.0","id":1,"` + k + `":{"code":1,"message":"m"}}`)
		}
		msg, err := jsonrpc.DecodeMessage(in)
		c.SetSpec(map[string]any{"gen": "case", "in": string(in)})
		if err == nil {
			switch m := msg.(type) {
			case *jsonrpc.Request:
				if m.Method == "secret" || (strings.ToLower(k) == "id" && m.ID.IsValid()) || (strings.ToLower(k) == "params" && len(m.Params) > 0) {
					c.Violate("case-insensitive-decoding", "member %q was accepted as its lower-case namesake in %s", k, in)
				}
			case *jsonrpc.Response:
				if (strings.ToLower(k) == "result" && len(m.Result) > 0) || (strings.ToLower(k) == "error" && m.Error != nil) {
					c.Violate("case-insensitive-decoding", "member %q was accepted as its lower-case namesake in %s", k, in)
				}
			}
			if strings.ToLower(k) == "jsonrpc" {
				c.Violate("case-insensitive-decoding", "version tag %q was accepted in %s", k, in)
			}
		}
		c.Nontrivial(string(in))
		return
	default:
		in = []byte(r.Choose(``, ` `, `null`, `[]`, `{}`, `"x"`, `{"jsonrpc":"2.0"}`, `{"jsonrpc":"2.0","id":{}}`, `{"jsonrpc":"2.0","id":1.5,"method":"m"}`, `{"jsonrpc":"2.0","id":1e30,"method":"m"}`,
			`{"jsonrpc":"2.0","id":true,"method":"m"}`, `{"jsonrpc":"2.0","method":7}`, `{"jsonrpc":"2.0","id":1,"error":"boom"}`, `{"jsonrpc":"2.0","id":1,"error":{"code":"x"}}`, "\xff\xfe", `{"jsonrpc":"2.0","id":1,"method":"m"}{"x":1}`))
	}
	spec := string(in)
	if len(spec) > 300 {
		spec = spec[:300] + "…"
	}
	c.SetSpec(map[string]any{"gen": "hostile", "kind": kind, "in": spec, "len": len(in)})
	msg, err := jsonrpc.DecodeMessage(in)      // a panic is caught by the runner and reported as an SDK panic
	if err == nil && msg != nil && kind != 3 { // beyond encoding/json's nesting limit only "no panic" is required
		if _, err := jsonrpc.EncodeMessage(msg); err != nil {
			c.Violate("accepted-but-unencodable", "DecodeMessage accepted %q but the message cannot be encoded: %v", spec, err)
		}
	}
	c.Count("hostile_inputs", 1)
	if err != nil {
		c.Count("hostile_rejected", 1)
	}
	c.Nontrivial(spec)
}

// ------------------------------------------------------------- (C) MCP values

func c19Meta(r *vh.Rand) mcp.Meta {
	if r.Chance(1, 2) {
		return nil
	}
	return mcp.Meta{"k": c19String(r), "n": float64(r.Intn(100)), "o": map[string]any{"x": []any{true, nil}}}
}

func c19Annot(r *vh.Rand) *mcp.Annotations {
	if r.Chance(2, 3) {
		return nil
	}
	return &mcp.Annotations{Audience: []mcp.Role{"user"}, Priority: 0.5, LastModified: "2025-01-01T00:00:00Z"}
}

func c19Content(r *vh.Rand, nested bool) mcp.Content {
	switch r.Intn(5) {
	case 0:
		return &mcp.TextContent{Text: c19String(r), Meta: c19Meta(r), Annotations: c19Annot(r)}
	case 1:
		var data []byte
		if r.Bool() {
			data = []byte(c19String(r))
		}
		return &mcp.ImageContent{Data: data, MIMEType: r.Choose("", "image/png"), Meta: c19Meta(r), Annotations: c19Annot(r)}
	case 2:
		var data []byte
		if r.Bool() {
			data = []byte{0, 1, 2, 255}
		}
		return &mcp.AudioContent{Data: data, MIMEType: r.Choose("", "audio/wav"), Meta: c19Meta(r)}
	case 3:
		var sz *int64
		if r.Bool() {
			n := int64(r.Intn(1 << 30))
			if r.Chance(1, 3) {
				n = 0 // a link to an empty file: present and zero is not absent
			}
			sz = &n
		}
		return &mcp.ResourceLink{URI: "file:///" + c19String(r), Name: c19String(r), Title: r.Choose("", "t"), MIMEType: r.Choose("", "text/plain"), Size: sz, Meta: c19Meta(r), Annotations: c19Annot(r)}
	default:
		rc := &mcp.ResourceContents{URI: "file:///x", MIMEType: r.Choose("", "text/plain"), Meta: c19Meta(r)}
		if r.Bool() {
			rc.Text = c19String(r)
		} else {
			rc.Blob = []byte(c19String(r))
		}
		return &mcp.EmbeddedResource{Resource: rc, Meta: c19Meta(r), Annotations: c19Annot(r)}
	}
}

// c19SamplingContent draws from the kinds valid in sampling messages, incl. tool_use and tool_result
// (whose nested blocks each carry their own optional members).
func c19SamplingContent(r *vh.Rand, depth int) mcp.Content {
	switch x := r.Intn(6); {
	case x == 0:
		var in map[string]any
		switch r.Intn(3) {
		case 0:
			in = map[string]any{}
		case 1:
			in = map[string]any{"q": c19String(r), "n": float64(r.Intn(100))}
		}
		return &mcp.ToolUseContent{ID: "call-" + c19String(r), Name: r.Choose("search", "", "t"), Input: in, Meta: c19Meta(r)}
	case x <= 2 && depth > 0:
		tr := &mcp.ToolResultContent{ToolUseID: "call-" + c19String(r), IsError: r.Chance(1, 3), Meta: c19Meta(r)}
		switch r.Intn(4) {
		case 0: // nil nested content
		case 1:
			tr.Content = []mcp.Content{}
		default:
			for i, n := 0, r.Range(1, 4); i < n; i++ {
				switch r.Intn(4) {
				case 0:
					tr.Content = append(tr.Content, &mcp.TextContent{Text: r.Choose("", c19String(r)), Meta: c19Meta(r), Annotations: c19Annot(r)})
				case 1:
					var data []byte
					if r.Bool() {
						data = []byte(c19String(r))
					}
					tr.Content = append(tr.Content, &mcp.ImageContent{Data: data, MIMEType: r.Choose("", "image/png"), Meta: c19Meta(r), Annotations: c19Annot(r)})
				default:
					tr.Content = append(tr.Content, c19Content(r, true))
				}
			}
		}
		if r.Chance(1, 3) {
			tr.StructuredContent = map[string]any{"k": []any{1.0, "x"}}
		}
		return tr
	case x <= 3:
		return &mcp.TextContent{Text: r.Choose("", c19String(r)), Meta: c19Meta(r), Annotations: c19Annot(r)}
	case x == 4:
		var data []byte
		if r.Bool() {
			data = []byte(c19String(r))
		}
		return &mcp.ImageContent{Data: data, MIMEType: r.Choose("", "image/png"), Meta: c19Meta(r)}
	default:
		return &mcp.AudioContent{Data: []byte{1, 2}, MIMEType: "audio/wav", Meta: c19Meta(r)}
	}
}

func c19SamplingContents(r *vh.Rand, toolResults bool) []mcp.Content {
	switch r.Intn(4) {
	case 0:
		return nil
	case 1:
		return []mcp.Content{}
	}
	var out []mcp.Content
	d := 0
	if toolResults {
		d = 1
	}
	for i, n := 0, r.Range(1, 4); i < n; i++ {
		out = append(out, c19SamplingContent(r, d))
	}
	return out
}

// requireContentDeep applies the per-kind rules to a content object and to every block nested in it.
func requireContentDeep(it map[string]json.RawMessage, path string) string {
	if s := requireContent(it); s != "" {
		return path + ": " + s
	}
	var typ string
	json.Unmarshal(it["type"], &typ)
	if typ == "tool_result" {
		v, ok := it["content"]
		if t := bytes.TrimSpace(v); !ok || len(t) == 0 || t[0] != '[' {
			return fmt.Sprintf("%s: required member \"content\" of a tool_result is %s, not an array", path, v)
		}
		var nested []map[string]json.RawMessage
		json.Unmarshal(v, &nested)
		for i, n := range nested {
			if s := requireContentDeep(n, fmt.Sprintf("%s.content[%d]", path, i)); s != "" {
				return s
			}
		}
	}
	return ""
}

// requireMembers checks "required member present and non-null" rules on an encoded result.
func requireMembers(method string, raw []byte) string {
	var m map[string]json.RawMessage
	if err := json.Unmarshal(raw, &m); err != nil {
		return "result is not a JSON object: " + string(raw)
	}
	isArr := func(k string, in map[string]json.RawMessage) string {
		v, ok := in[k]
		if !ok {
			return fmt.Sprintf("required member %q is absent", k)
		}
		if t := bytes.TrimSpace(v); len(t) == 0 || t[0] != '[' {
			return fmt.Sprintf("required member %q is %s, not an array", k, v)
		}
		return ""
	}
	switch method {
	case "tools/list":
		return isArr("tools", m)
	case "prompts/list":
		return isArr("prompts", m)
	case "resources/list":
		return isArr("resources", m)
	case "resources/templates/list":
		return isArr("resourceTemplates", m)
	case "roots/list":
		return isArr("roots", m)
	case "resources/read":
		return isArr("contents", m)
	case "prompts/get":
		return isArr("messages", m)
	case "completion/complete":
		var c struct {
			Completion map[string]json.RawMessage `json:"completion"`
		}
		json.Unmarshal(raw, &c)
		if c.Completion == nil {
			return `required member "completion" is absent`
		}
		return isArr("values", c.Completion)
	case "tools/call":
		if s := isArr("content", m); s != "" {
			return s
		}
		var items []map[string]json.RawMessage
		json.Unmarshal(m["content"], &items)
		for i, it := range items {
			if s := requireContent(it); s != "" {
				return fmt.Sprintf("content[%d]: %s", i, s)
			}
		}
	}
	return ""
}

func requireContent(it map[string]json.RawMessage) string {
	str := func(k string) string {
		v, ok := it[k]
		if !ok {
			return fmt.Sprintf("required member %q is absent", k)
		}
		if t := bytes.TrimSpace(v); len(t) == 0 || t[0] != '"' {
			return fmt.Sprintf("required member %q is %s, not a string", k, v)
		}
		return ""
	}
	var typ string
	json.Unmarshal(it["type"], &typ)
	switch typ {
	case "text":
		return str("text")
	case "image", "audio":
		if s := str("data"); s != "" {
			return s
		}
		return str("mimeType")
	case "resource_link":
		// uri/name are not among the members the statement lists; nothing to require here
	case "resource":
		var res map[string]json.RawMessage
		if json.Unmarshal(it["resource"], &res) != nil || res == nil {
			return `required member "resource" is absent or null`
		}
		if _, ok := res["uri"]; !ok {
			return `resource.uri is absent`
		}
	case "":
		return `required member "type" is absent`
	}
	return ""
}

func c19Values(c *vh.Case) {
	r := c.R
	type rt struct {
		method string
		v      any
		fresh  func() any
	}
	var contents []mcp.Content
	switch r.Intn(3) {
	case 0: // nil
	case 1:
		contents = []mcp.Content{}
	default:
		for i, n := 0, r.Range(1, 4); i < n; i++ {
			contents = append(contents, c19Content(r, true))
		}
	}
	cands := []rt{
		{"tools/call", &mcp.CallToolResult{Content: contents, IsError: r.Bool(), Meta: c19Meta(r)}, func() any { return new(mcp.CallToolResult) }},
		{"tools/list", &mcp.ListToolsResult{Tools: c19Pick(r, []*mcp.Tool{{Name: "t", InputSchema: map[string]any{"type": "object"}}})}, func() any { return new(mcp.ListToolsResult) }},
		{"prompts/list", &mcp.ListPromptsResult{Prompts: c19Pick(r, []*mcp.Prompt{{Name: "p"}})}, func() any { return new(mcp.ListPromptsResult) }},
		{"resources/list", &mcp.ListResourcesResult{Resources: c19Pick(r, []*mcp.Resource{{URI: "file:///r", Name: "r"}})}, func() any { return new(mcp.ListResourcesResult) }},
		{"resources/templates/list", &mcp.ListResourceTemplatesResult{ResourceTemplates: c19Pick(r, []*mcp.ResourceTemplate{{URITemplate: "file:///{x}", Name: "t"}})}, func() any { return new(mcp.ListResourceTemplatesResult) }},
		{"roots/list", &mcp.ListRootsResult{Roots: c19Pick(r, []*mcp.Root{{URI: "file:///r"}})}, func() any { return new(mcp.ListRootsResult) }},
		{"resources/read", &mcp.ReadResourceResult{Contents: c19Pick(r, []*mcp.ResourceContents{{URI: "file:///r", Text: c19String(r)}})}, func() any { return new(mcp.ReadResourceResult) }},
		{"prompts/get", &mcp.GetPromptResult{Messages: c19Pick(r, []*mcp.PromptMessage{{Role: "user", Content: &mcp.TextContent{Text: c19String(r)}}})}, func() any { return new(mcp.GetPromptResult) }},
		{"completion/complete", &mcp.CompleteResult{Completion: mcp.CompletionResultDetails{Values: c19Pick(r, []string{"a"})}}, func() any { return new(mcp.CompleteResult) }},
	}
	sres := &mcp.CreateMessageWithToolsResult{Content: c19SamplingContents(r, false), Model: "m", Role: "assistant", StopReason: r.Choose("", "toolUse"), Meta: c19Meta(r)}
	var smsgs []*mcp.SamplingMessageV2
	for i, n := 0, r.Range(1, 3); i < n; i++ {
		smsgs = append(smsgs, &mcp.SamplingMessageV2{Role: mcp.Role(r.Choose("user", "assistant")), Content: c19SamplingContents(r, true)})
	}
	cands = append(cands,
		rt{"sampling/createMessage:result", sres, func() any { return new(mcp.CreateMessageWithToolsResult) }},
		rt{"sampling/createMessage:params", &mcp.CreateMessageWithToolsParams{MaxTokens: 5, Messages: smsgs}, func() any { return new(mcp.CreateMessageWithToolsParams) }},
		rt{"sampling/createMessage:result", sres, func() any { return new(mcp.CreateMessageWithToolsResult) }},
		rt{"sampling/createMessage:params", &mcp.CreateMessageWithToolsParams{MaxTokens: 5, Messages: smsgs}, func() any { return new(mcp.CreateMessageWithToolsParams) }},
	)
	// results of multi-round-trip requests: no input requests (nil), the load-shedding signal (an empty, non-nil map:
	// "needs input, names none"), or one request
	irs := func() mcp.InputRequestMap {
		switch r.Intn(3) {
		case 0:
			return nil
		case 1:
			return mcp.InputRequestMap{}
		}
		return mcp.InputRequestMap{"roots": &mcp.ListRootsParams{}}
	}
	cands = append(cands,
		rt{"tools/call", &mcp.CallToolResult{Content: contents, InputRequests: irs()}, func() any { return new(mcp.CallToolResult) }},
		rt{"resources/read", &mcp.ReadResourceResult{InputRequests: irs()}, func() any { return new(mcp.ReadResourceResult) }},
		rt{"prompts/get", &mcp.GetPromptResult{InputRequests: irs()}, func() any { return new(mcp.GetPromptResult) }},
	)
	k := cands[r.Intn(len(cands))]
	enc, err := json.Marshal(k.v)
	if err != nil {
		c.Violate("value-unencodable", "%s: Marshal(%T) = %v", k.method, k.v, err)
		return
	}
	c.SetSpec(map[string]any{"gen": "value", "method": k.method, "encoded": string(enc)})
	// Required-member rules apply to what the SDK puts on the wire (checked by the live wire
	// monitor); a bare value is only subject to them where its own encoder promises it.
	if k.method == "tools/call" && contents != nil {
		if s := requireMembers(k.method, enc); s != "" { // per-item rules (text/data/mimeType/uri present)
			c.Violate("required-member-missing", "%s result encodes as %s: %s", k.method, enc, s)
			return
		}
	}
	if strings.HasPrefix(k.method, "sampling/") {
		// every content block the encoder emits, at any nesting depth, carries its kind's required members
		var blocks []json.RawMessage
		var top struct {
			Content  json.RawMessage `json:"content"`
			Messages []struct {
				Content json.RawMessage `json:"content"`
			} `json:"messages"`
		}
		json.Unmarshal(enc, &top)
		blocks = append(blocks, top.Content)
		for _, m := range top.Messages {
			blocks = append(blocks, m.Content)
		}
		emptyContent := false
		for _, b := range blocks {
			t := bytes.TrimSpace(b)
			if len(t) == 0 || string(t) == "null" || string(t) == "[]" {
				emptyContent = emptyContent || len(t) > 0
				continue
			}
			var items []map[string]json.RawMessage
			if t[0] == '{' {
				var one map[string]json.RawMessage
				json.Unmarshal(t, &one)
				items = append(items, one)
			} else {
				json.Unmarshal(t, &items)
			}
			for i, it := range items {
				if s := requireContentDeep(it, fmt.Sprintf("content[%d]", i)); s != "" {
					c.Violate("required-member-missing/nested", "%s encodes as %s: %s", k.method, enc, s)
					return
				}
			}
		}
		if emptyContent {
			// a message without any content block has no defined single-object/array form; nothing more to check
			c.Nontrivial(string(enc))
			return
		}
	}
	back := k.fresh()
	if err := json.Unmarshal(enc, back); err != nil {
		c.Violate("own-encoding-rejected", "%s: Unmarshal(%s) = %v", k.method, enc, err)
		return
	}
	enc2, err := json.Marshal(back)
	// a nil list and an empty list are the same value: compare with null lists normalised to []
	nn := func(b []byte) []byte {
		for _, k := range []string{"content", "tools", "prompts", "resources", "resourceTemplates", "roots", "contents", "messages", "values"} {
			b = bytes.ReplaceAll(b, []byte(`"`+k+`":null`), []byte(`"`+k+`":[]`))
		}
		return b
	}
	if err != nil || !jsonEqual(nn(enc), nn(enc2)) {
		c.Violate("value-roundtrip-altered", "%s: decode(encode(x)) re-encodes differently (%v):\n1: %s\n2: %s", k.method, err, enc, enc2)
		return
	}
	// ... likewise a map member that is present though empty (inputRequests: {} is a signal of its own, not "none")
	if av, bv := reflect.ValueOf(k.v).Elem(), reflect.ValueOf(back).Elem(); av.Kind() == reflect.Struct {
		for i := 0; i < av.NumField(); i++ {
			if f := av.Type().Field(i); f.IsExported() && f.Type.Kind() == reflect.Map && f.Name == "InputRequests" {
				if av.Field(i).IsNil() != bv.Field(i).IsNil() || av.Field(i).Len() != bv.Field(i).Len() {
					c.Violate("value-roundtrip-altered", "%s: %s held %d entries (nil: %v) and holds %d (nil: %v) after decode(encode(x)); encoding %s", k.method, f.Name, av.Field(i).Len(), av.Field(i).IsNil(), bv.Field(i).Len(), bv.Field(i).IsNil(), enc)
					return
				}
				c.Seen("input_requests_shapes", fmt.Sprintf("%s nil=%v len=%d", k.method, av.Field(i).IsNil(), av.Field(i).Len()))
			}
		}
	}
	// What the encoder itself drops never shows in a comparison of two encodings: an optional scalar that is
	// present (a non-nil pointer, e.g. a size of 0) must be present and equal in the decoded value too.
	if d := c19PresentScalars(reflect.ValueOf(k.v), reflect.ValueOf(back), k.method); d != "" {
		c.Violate("value-roundtrip-altered", "%s: decode(encode(x)) lost an optional member that was present: %s (encoding %s)", k.method, d, enc)
		return
	}
	c.Nontrivial(string(enc))
}

// c19PresentScalars walks two values of one type in parallel and reports the first pointer-to-scalar member that is
// set in a and unset or different in b.
func c19PresentScalars(a, b reflect.Value, path string) string {
	if !a.IsValid() || !b.IsValid() || a.Type() != b.Type() {
		return ""
	}
	switch a.Kind() {
	case reflect.Interface:
		if a.IsNil() || b.IsNil() {
			return ""
		}
		return c19PresentScalars(a.Elem(), b.Elem(), path)
	case reflect.Pointer:
		if a.IsNil() {
			return ""
		}
		switch a.Type().Elem().Kind() {
		case reflect.Bool, reflect.Int, reflect.Int64, reflect.Int32, reflect.Float64, reflect.String:
			if b.IsNil() {
				return fmt.Sprintf("%s = %v became absent", path, a.Elem().Interface())
			}
			if a.Elem().Interface() != b.Elem().Interface() {
				return fmt.Sprintf("%s = %v became %v", path, a.Elem().Interface(), b.Elem().Interface())
			}
			return ""
		}
		if b.IsNil() {
			return ""
		}
		return c19PresentScalars(a.Elem(), b.Elem(), path)
	case reflect.Struct:
		for i := 0; i < a.NumField(); i++ {
			if !a.Type().Field(i).IsExported() {
				continue
			}
			if d := c19PresentScalars(a.Field(i), b.Field(i), path+"."+a.Type().Field(i).Name); d != "" {
				return d
			}
		}
	case reflect.Slice:
		if a.Len() != b.Len() {
			return ""
		}
		for i := 0; i < a.Len(); i++ {
			if d := c19PresentScalars(a.Index(i), b.Index(i), fmt.Sprintf("%s[%d]", path, i)); d != "" {
				return d
			}
		}
	}
	return ""
}

func c19Pick[T any](r *vh.Rand, full []T) []T {
	switch r.Intn(3) {
	case 0:
		return nil
	case 1:
		return []T{}
	}
	return full
}

// ---------------------------------------------------------- (D) live sessions

func c19Live(c *vh.Case) {
	r := c.R
	log := c.Log
	ctx := context.Background()
	kind := vhm.PairKinds[r.Intn(len(vhm.PairKinds))]
	payloads := []string{}
	for i := 0; i < 6; i++ {
		payloads = append(payloads, c19String(r))
	}
	big := 0
	if (kind == "sse" || kind == "http") && r.Chance(1, vh.Pick(12, 8)) {
		// one payload far beyond any line buffer a framing layer might assume
		big = []int{70000, 1<<20 + 7, vh.Pick(1<<20+4096, 3<<20)}[r.Intn(3)]
		payloads = append(payloads, strings.Repeat("0123456789abcdef", big/16)+"é")
	}
	version := "2025-06-18"
	if r.Chance(1, 3) {
		version = "" // the client's default: 2026-07-28 where the transport can serve it
		if r.Chance(1, 3) {
			kind = "http-stateless"
		}
	}
	c.SetSpec(map[string]any{"gen": "live", "transport": kind, "version": version, "payloads": payloads[:6], "big_payload_bytes": big})
	paged := r.Chance(1, 3)
	sopts := &mcp.ServerOptions{
		CompletionHandler: func(context.Context, *mcp.CompleteRequest) (*mcp.CompleteResult, error) {
			return &mcp.CompleteResult{}, nil
		},
	}
	if paged {
		sopts.PageSize = 2
	}
	server := mcp.NewServer(&mcp.Implementation{Name: "s", Version: "1"}, sopts)
	server.AddTool(&mcp.Tool{Name: "echo", InputSchema: json.RawMessage(`{"type":"object"}`)}, func(ctx context.Context, req *mcp.CallToolRequest) (*mcp.CallToolResult, error) {
		var a struct{ Text string }
		json.Unmarshal(req.Params.Arguments, &a)
		return &mcp.CallToolResult{Content: []mcp.Content{&mcp.TextContent{Text: a.Text}, &mcp.ImageContent{}, &mcp.EmbeddedResource{Resource: &mcp.ResourceContents{URI: "file:///e", Text: a.Text}}}}, nil
	})
	// a handler that reports progress on its request and then fails with a protocol error carrying data
	server.AddTool(&mcp.Tool{Name: "fail-after-progress", InputSchema: json.RawMessage(`{"type":"object"}`)}, func(ctx context.Context, req *mcp.CallToolRequest) (*mcp.CallToolResult, error) {
		if tok := req.Params.GetProgressToken(); tok != nil {
			req.Session.NotifyProgress(ctx, &mcp.ProgressNotificationParams{ProgressToken: tok, Progress: 1, Message: "working"})
		}
		return nil, &jsonrpc.Error{Code: -32602, Message: "bad thing <&>", Data: json.RawMessage(`{"k":[1,"é"]}`)}
	})
	server.AddTool(&mcp.Tool{Name: "nil", InputSchema: json.RawMessage(`{"type":"object"}`)}, func(context.Context, *mcp.CallToolRequest) (*mcp.CallToolResult, error) {
		return &mcp.CallToolResult{}, nil
	})
	server.AddTool(&mcp.Tool{Name: "structured-nil", InputSchema: json.RawMessage(`{"type":"object"}`)}, func(context.Context, *mcp.CallToolRequest) (*mcp.CallToolResult, error) {
		return &mcp.CallToolResult{StructuredContent: map[string]any{"k": []any{1, "x"}}}, nil
	})
	server.AddTool(&mcp.Tool{Name: "error-nil", InputSchema: json.RawMessage(`{"type":"object"}`)}, func(context.Context, *mcp.CallToolRequest) (*mcp.CallToolResult, error) {
		return &mcp.CallToolResult{IsError: true}, nil
	})
	server.AddPrompt(&mcp.Prompt{Name: "p"}, func(context.Context, *mcp.GetPromptRequest) (*mcp.GetPromptResult, error) {
		return &mcp.GetPromptResult{}, nil
	})
	server.AddResource(&mcp.Resource{URI: "file:///r", Name: "r"}, func(context.Context, *mcp.ReadResourceRequest) (*mcp.ReadResourceResult, error) {
		return &mcp.ReadResourceResult{}, nil
	})
	sampleKind := r.Choose("text", "many", "nil", "empty", "tool-use")
	client := mcp.NewClient(&mcp.Implementation{Name: "c", Version: "1"}, &mcp.ClientOptions{
		CreateMessageWithToolsHandler: func(context.Context, *mcp.CreateMessageWithToolsRequest) (*mcp.CreateMessageWithToolsResult, error) {
			res := &mcp.CreateMessageWithToolsResult{Model: "m", Role: "assistant"}
			switch sampleKind {
			case "text":
				res.Content = []mcp.Content{&mcp.TextContent{}}
			case "many":
				res.Content = []mcp.Content{&mcp.TextContent{Text: "a"}, &mcp.ToolUseContent{ID: "1", Name: "t"}, &mcp.ImageContent{}}
			case "empty":
				res.Content = []mcp.Content{}
			case "tool-use":
				res.Content = []mcp.Content{&mcp.ToolUseContent{ID: "1", Name: "t"}}
			}
			return res, nil
		},
	})
	var mu sync.Mutex
	methodOf := map[string]string{}
	srvCalls := map[string]string{} // id -> method of requests the server sent to the client
	var problems []string
	wrap := func(inner mcp.Connection) mcp.Connection {
		fc := vhm.NewFaultConn(inner, log, "client")
		fc.BeforeWrite = func(_ context.Context, msg jsonrpc.Message, _ int) error {
			if req, ok := msg.(*jsonrpc.Request); ok && req.IsCall() {
				mu.Lock()
				methodOf[vhm.IDString(req.ID)] = req.Method
				mu.Unlock()
			}
			if resp, ok := msg.(*jsonrpc.Response); ok && resp.Error == nil {
				// responses the client sends (roots/list, sampling/createMessage)
				mu.Lock()
				m := srvCalls[vhm.IDString(resp.ID)]
				mu.Unlock()
				if s := requireMembers("roots/list", resp.Result); s != "" && bytes.Contains(resp.Result, []byte("roots")) {
					mu.Lock()
					problems = append(problems, "client response: "+s)
					mu.Unlock()
				}
				if m == "sampling/createMessage" {
					var o map[string]json.RawMessage
					json.Unmarshal(resp.Result, &o)
					v, ok := o["content"]
					if t := bytes.TrimSpace(v); !ok || len(t) == 0 || string(t) == "null" {
						mu.Lock()
						problems = append(problems, fmt.Sprintf("client response to sampling/createMessage %s: required member \"content\" is absent or null", resp.Result))
						mu.Unlock()
					} else {
						var items []map[string]json.RawMessage
						if t[0] == '{' {
							var one map[string]json.RawMessage
							json.Unmarshal(t, &one)
							items = append(items, one)
						} else {
							json.Unmarshal(t, &items)
						}
						for i, it := range items {
							if s := requireContentDeep(it, fmt.Sprintf("content[%d]", i)); s != "" {
								mu.Lock()
								problems = append(problems, fmt.Sprintf("client response to sampling/createMessage %s: %s", resp.Result, s))
								mu.Unlock()
							}
						}
					}
				}
			}
			return nil
		}
		fc.AfterRead = func(msg jsonrpc.Message, err error) (jsonrpc.Message, error) {
			if req, ok := msg.(*jsonrpc.Request); ok && req.IsCall() {
				mu.Lock()
				srvCalls[vhm.IDString(req.ID)] = req.Method
				mu.Unlock()
			}
			if resp, ok := msg.(*jsonrpc.Response); ok && resp.Error == nil {
				mu.Lock()
				m := methodOf[vhm.IDString(resp.ID)]
				if s := requireMembers(m, resp.Result); s != "" {
					problems = append(problems, fmt.Sprintf("%s response %s: %s", m, resp.Result, s))
				}
				mu.Unlock()
			}
			return msg, err
		}
		return fc
	}
	pair, err := vhm.Connect(ctx, vhm.PairOpts{Kind: kind, Server: server, Client: client, ClientVersion: version, WrapClient: wrap, AsyncDelete: true})
	if err != nil {
		c.Inconclusive("connect %s: %v", kind, err)
		return
	}
	cs := pair.CS
	for _, p := range payloads {
		res, err := cs.CallTool(ctx, &mcp.CallToolParams{Name: "echo", Arguments: map[string]any{"text": p}})
		if err != nil {
			c.Violate("payload-broke-call", "%s: CallTool with text %q (%d bytes) failed: %v", kind, trunc80(p), len(p), err)
			break
		}
		if got := res.Content[0].(*mcp.TextContent).Text; got != p {
			c.Violate("payload-altered-by-framing", "%s: text %q came back as %q", kind, trunc80(p), trunc80(got))
			break
		}
		if er, ok := res.Content[2].(*mcp.EmbeddedResource); !ok || er.Resource == nil || er.Resource.Text != p {
			c.Violate("payload-altered-by-framing", "%s: embedded resource text %q came back as %s", kind, p, vh.JSON(res.Content[2]))
			break
		}
	}
	// a burst of concurrent calls whose responses are large and are written at the same moment: every
	// caller must get its own text back intact (frames of concurrent messages must not interleave)
	if !c.Violated() && r.Chance(1, 3) {
		n := r.Range(4, 24)
		size := []int{300, 6000, 30000}[r.Intn(3)]
		errs := make([]string, n)
		var wg sync.WaitGroup
		for i := 0; i < n; i++ {
			i := i
			wg.Add(1)
			go func() {
				defer wg.Done()
				p := fmt.Sprintf("burst-%d-", i) + strings.Repeat(string(rune('a'+i%26)), size) + fmt.Sprintf("-%d-end", i)
				res, err := cs.CallTool(ctx, &mcp.CallToolParams{Name: "echo", Arguments: map[string]any{"text": p}})
				switch {
				case err != nil:
					errs[i] = fmt.Sprintf("call %d failed: %v", i, err)
				case len(res.Content) != 3:
					errs[i] = fmt.Sprintf("call %d: %d content blocks", i, len(res.Content))
				default:
					if got := res.Content[0].(*mcp.TextContent).Text; got != p {
						errs[i] = fmt.Sprintf("call %d: text of %d bytes came back as %d bytes %q", i, len(p), len(got), trunc80(got))
					}
				}
			}()
		}
		wg.Wait()
		c.Count("burst_calls", n)
		for _, e := range errs {
			if e != "" {
				c.Violate("concurrent-frames-corrupted", "%s, %d concurrent calls with %d-byte texts: %s", kind, n, size, e)
				break
			}
		}
	}
	if !c.Violated() {
		// an error response keeps its code, message and data on every transport, also when the request's
		// stream has carried a notification before it
		for _, withProgress := range []bool{false, true} {
			p := &mcp.CallToolParams{Name: "fail-after-progress", Arguments: map[string]any{}}
			if withProgress {
				p.Meta = mcp.Meta{"progressToken": "pt-1"}
			}
			_, err := cs.CallTool(ctx, p)
			var je *jsonrpc.Error
			if !errors.As(err, &je) || je.Code != -32602 || !strings.Contains(je.Message, "bad thing <&>") || !jsonEqual(je.Data, []byte(`{"k":[1,"é"]}`)) {
				c.Violate("error-response-altered", "%s (negotiated %s): a handler failed with code -32602, message \"bad thing <&>\" and data {\"k\":[1,\"é\"]} (after a progress notification on its request: %v); the caller got %v", kind, cs.InitializeResult().ProtocolVersion, withProgress, err)
				break
			}
		}
	}
	if !c.Violated() {
		cs.CallTool(ctx, &mcp.CallToolParams{Name: "nil"})
		cs.CallTool(ctx, &mcp.CallToolParams{Name: "structured-nil"})
		cs.CallTool(ctx, &mcp.CallToolParams{Name: "error-nil"})
		cs.ListTools(ctx, nil)
		cs.ListPrompts(ctx, nil)
		cs.ListResources(ctx, nil)
		cs.ListResourceTemplates(ctx, nil)
		cs.GetPrompt(ctx, &mcp.GetPromptParams{Name: "p"})
		cs.ReadResource(ctx, &mcp.ReadResourceParams{URI: "file:///r"})
		cs.Complete(ctx, &mcp.CompleteParams{Ref: &mcp.CompleteReference{Type: "ref/prompt", Name: "p"}, Argument: mcp.CompleteParamsArgument{Name: "a", Value: "v"}})
		if pair.SS != nil {
			pair.SS.ListRoots(ctx, nil)
			if version != "" {
				pair.SS.CreateMessageWithTools(ctx, &mcp.CreateMessageWithToolsParams{MaxTokens: 1, Messages: []*mcp.SamplingMessageV2{{Role: "user", Content: []mcp.Content{&mcp.TextContent{Text: "x"}}}}})
			}
		}
		if paged {
			// follow a cursor after everything behind it has been removed: the page is empty, its list member is not null
			for i := 0; i < 3; i++ {
				n := fmt.Sprintf("x%d", i)
				server.AddTool(&mcp.Tool{Name: n, InputSchema: json.RawMessage(`{"type":"object"}`)}, func(context.Context, *mcp.CallToolRequest) (*mcp.CallToolResult, error) {
					return &mcp.CallToolResult{}, nil
				})
				server.AddPrompt(&mcp.Prompt{Name: n}, func(context.Context, *mcp.GetPromptRequest) (*mcp.GetPromptResult, error) {
					return &mcp.GetPromptResult{}, nil
				})
				server.AddResource(&mcp.Resource{URI: "file:///" + n, Name: n}, func(context.Context, *mcp.ReadResourceRequest) (*mcp.ReadResourceResult, error) {
					return &mcp.ReadResourceResult{}, nil
				})
			}
			time.Sleep(50 * time.Millisecond)
			var tcur, pcur, rcur string
			if res, err := cs.ListTools(ctx, nil); err == nil {
				tcur = res.NextCursor
			}
			if res, err := cs.ListPrompts(ctx, nil); err == nil {
				pcur = res.NextCursor
			}
			if res, err := cs.ListResources(ctx, nil); err == nil {
				rcur = res.NextCursor
			}
			server.RemoveTools("x0", "x1", "x2", "structured-nil", "nil", "error-nil")
			server.RemovePrompts("x0", "x1", "x2", "p")
			server.RemoveResources("file:///x0", "file:///x1", "file:///x2", "file:///r")
			time.Sleep(50 * time.Millisecond)
			if tcur != "" {
				cs.ListTools(ctx, &mcp.ListToolsParams{Cursor: tcur})
			}
			if pcur != "" {
				cs.ListPrompts(ctx, &mcp.ListPromptsParams{Cursor: pcur})
			}
			if rcur != "" {
				cs.ListResources(ctx, &mcp.ListResourcesParams{Cursor: rcur})
			}
			c.Count("paged_sessions", 1)
		}
	}
	cs.Close()
	if pair.SS != nil {
		pair.SS.Wait()
	}
	if pair.InProc != nil {
		pair.InProc.Wait()
	}
	time.Sleep(11 * time.Second)
	mu.Lock()
	defer mu.Unlock()
	sort.Strings(problems)
	if len(problems) > 0 {
		c.Violate("required-member-missing-on-wire", "%s: %s", kind, strings.Join(problems, " || "))
	}
	c.Count("live_sessions", 1)
	c.Count("wire_responses_checked", len(methodOf))
	c.Seen("live-negotiated", kind+"/"+cs.InitializeResult().ProtocolVersion)
	c.Nontrivial("live:" + kind + version + strings.Join(payloads[:6], "|") + fmt.Sprint(big))
}

var _ = testing.Short

// c19PaddedBodies: JSON allows insignificant whitespace before and after a value. A POST body that is a valid message
// or (at protocol versions that have batches) a valid batch stays one when it is padded: it is answered exactly as the
// unpadded body is.
func c19PaddedBodies(c *vh.Case) {
	r := c.R
	ctx := context.Background()
	server := mcp.NewServer(&mcp.Implementation{Name: "s", Version: "1"}, nil)
	server.AddTool(&mcp.Tool{Name: "echo", InputSchema: json.RawMessage(`{"type":"object"}`)}, func(context.Context, *mcp.CallToolRequest) (*mcp.CallToolResult, error) {
		return &mcp.CallToolResult{Content: []mcp.Content{&mcp.TextContent{Text: "ok"}}}, nil
	})
	version := r.Choose("2025-03-26", "2025-03-26", "2025-06-18", "2025-11-25")
	jsonResp := r.Bool()
	h := mcp.NewStreamableHTTPHandler(func(*http.Request) *mcp.Server { return server }, &mcp.StreamableHTTPOptions{JSONResponse: jsonResp})
	ip := &vhm.InProc{Handler: h, AsyncDelete: true}
	hdr := map[string]string{"Content-Type": "application/json", "Accept": "application/json, text/event-stream"}
	st, rh, _, err := ip.Do(ctx, "POST", "http://example.test/mcp", hdr, []byte(fmt.Sprintf(`{"jsonrpc":"2.0","id":"i","method":"initialize","params":{"protocolVersion":%q,"capabilities":{},"clientInfo":{"name":"raw","version":"1"}}}`, version)))
	if err != nil || st != 200 || rh.Get("Mcp-Session-Id") == "" {
		c.Inconclusive("initialize: status %d err %v", st, err)
		return
	}
	hdr["Mcp-Session-Id"] = rh.Get("Mcp-Session-Id")
	hdr["Mcp-Protocol-Version"] = version
	defer func() {
		ip.Wait()
		for ss := range server.Sessions() {
			ss.Close()
		}
		time.Sleep(11 * time.Second)
	}()
	ip.Do(ctx, "POST", "http://example.test/mcp", hdr, []byte(`{"jsonrpc":"2.0","method":"notifications/initialized"}`))
	ids := func(status int, rh http.Header, body []byte) string {
		var docs [][]byte
		if strings.HasPrefix(rh.Get("Content-Type"), "text/event-stream") {
			for _, e := range vhm.ParseSSEBytes(body) {
				if len(e.Data) > 0 {
					docs = append(docs, []byte(e.Data))
				}
			}
		} else if len(bytes.TrimSpace(body)) > 0 {
			docs = append(docs, body)
		}
		var got []string
		for _, d := range docs {
			var many []struct {
				ID     json.RawMessage `json:"id"`
				Result json.RawMessage `json:"result"`
			}
			var one struct {
				ID     json.RawMessage `json:"id"`
				Result json.RawMessage `json:"result"`
			}
			if json.Unmarshal(d, &many) == nil {
				for _, m := range many {
					got = append(got, fmt.Sprintf("%s:%v", m.ID, m.Result != nil))
				}
			} else if json.Unmarshal(d, &one) == nil && one.ID != nil {
				got = append(got, fmt.Sprintf("%s:%v", one.ID, one.Result != nil))
			}
		}
		sort.Strings(got)
		return fmt.Sprintf("%d %v", status, got)
	}
	pads := []string{" ", "\n", "\t", "\r\n", " \n\t ", "\n\n"}
	n := 0
	bodies := []string{`{"jsonrpc":"2.0","id":%d,"method":"ping"}`, `{"jsonrpc":"2.0","id":%d,"method":"tools/call","params":{"name":"echo","arguments":{}}}`}
	if version <= "2025-03-26" {
		bodies = append(bodies, `[{"jsonrpc":"2.0","id":%d,"method":"ping"},{"jsonrpc":"2.0","id":1%[1]d,"method":"tools/list"}]`, `[{"jsonrpc":"2.0","id":%d,"method":"ping"}]`)
	}
	for _, tmpl := range bodies {
		n++
		plain := fmt.Sprintf(tmpl, 100+n)
		st0, rh0, b0, err := ip.Do(ctx, "POST", "http://example.test/mcp", hdr, []byte(plain))
		if err != nil {
			c.Inconclusive("POST: %v", err)
			return
		}
		want := ids(st0, rh0, b0)
		lead, trail := pads[r.Intn(len(pads))], r.Choose("", "", " ", "\n")
		st1, rh1, b1, err := ip.Do(ctx, "POST", "http://example.test/mcp", hdr, []byte(lead+plain+trail))
		if err != nil {
			c.Inconclusive("POST: %v", err)
			return
		}
		if got := ids(st1, rh1, b1); got != want {
			c.Violate("padded-body-answered-differently", "version %s: body %q is answered %s; the same body with leading %q and trailing %q whitespace (still the same JSON value) is answered %s (%s)", version, plain, want, lead, trail, got, trunc80(string(b1)))
			return
		}
		c.Count("padded_bodies", 1)
	}
	c.Nontrivial(fmt.Sprintf("padded/%s/%v/%d", version, jsonResp, c.Index))
}
