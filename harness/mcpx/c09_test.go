//go:build verif

// C09 — the streamable client survives stream cuts: exactly-once delivery, or a clean error.
//
// The SDK's streamable client talks to a scripted server (an http.RoundTripper
// that knows the complete SSE text of the call's response stream). The text is
// cut at an arbitrary byte offset, by a read error or by a clean end of
// stream; every reconnect draws its outcome from a script (serve the rest
// after the presented id - possibly cut again -, transport error, 5xx, 404,
// 400, 405). An independent strict SSE parser over the bytes actually served
// says which events the client has received completely. The same is done to
// the standalone stream when it has something to say; the transport may be
// told not to open that stream (resuming is another matter), and the session
// may have been negotiated through server/discover instead of initialize.
package mcpx

import (
	"bytes"
	"context"
	"encoding/json"
	"errors"
	"fmt"
	"io"
	"net/http"
	"strings"
	"sync"
	"testing"
	"time"

	"github.com/modelcontextprotocol/go-sdk/internal/verifharness/vh"
	"github.com/modelcontextprotocol/go-sdk/internal/verifharness/vhm"
	"github.com/modelcontextprotocol/go-sdk/mcp"
)

type c09Cut struct {
	At   int    `json:"at"`   // byte offset into the body served (-1: whole body)
	Kind string `json:"kind"` // error | eof
}

type c09Spec struct {
	K          int      `json:"k"`                    // progress notifications before the response
	Prime      bool     `json:"prime"`                // priming event (id only) first
	PrimeBare  bool     `json:"prime_bare,omitempty"` // the priming event has no event: name (id and empty data only)
	IDs        bool     `json:"ids"`                  // events carry ids
	RetryField bool     `json:"retry_field"`
	MaxRetries int      `json:"max_retries"`            // -1: reconnecting is disabled
	CType      string   `json:"content_type,omitempty"` // how the server labels its SSE responses (default text/event-stream)
	FirstCut   c09Cut   `json:"first_cut"`
	Reconnects []string `json:"reconnects"` // ok | neterr | 500 | 502 | 503 | 404 | 400 | 405
	Cuts       []c09Cut `json:"cuts"`       // cut applied to the i-th "ok" reconnect body
	// PausesS: the i-th "ok" reconnect is answered 200 at once, but the server has nothing to say on the resumed
	// stream for this many seconds (a slow tool); then the body is served as scripted
	PausesS []int `json:"pauses_s,omitempty"`
	// Standalone: the server also serves the standalone GET stream (it stays open and silent until the client
	// goes away); NoSID: it assigns no session id (the spec says MAY). Closing the session must end that stream.
	Standalone bool `json:"standalone,omitempty"`
	NoSID      bool `json:"no_session_id,omitempty"`
	// InitCut: the answer to initialize is itself an SSE stream that is cut after its priming event; the result is to
	// be had by resuming it (Last-Event-ID "init_0") like any other response
	InitCut bool `json:"init_cut,omitempty"`
	// NoGET: the transport is told not to open the standalone stream (DisableStandaloneSSE); a cut response
	// stream is still to be resumed
	NoGET bool `json:"disable_standalone_sse,omitempty"`
	// Modern: the client asks for its default version and the server answers server/discover: the session runs
	// 2026-07-28 (no initialize, no session id, no standalone stream); the server numbers its events all the same
	Modern bool `json:"modern,omitempty"`
	// SAMsgs: the standalone stream is not silent: the server has this many log notifications for it (SAIDs: its
	// events carry ids). The i-th body of that stream is cut as SACuts[i] (never more cuts than MaxRetries); what
	// has not been served completely follows on the stream the client opens next, the last one stays open.
	// LongOutage: a generous budget (MaxRetries 64) and an outage of 58..62 consecutive transient failures, after
	// which the server is back and serves the rest: the call completes (some two hours of back-off later)
	LongOutage bool     `json:"long_outage,omitempty"`
	SAMsgs     int      `json:"sa_msgs,omitempty"`
	SAIDs      bool     `json:"sa_ids,omitempty"`
	SACuts     []c09Cut `json:"sa_cuts,omitempty"`
}

func genC09(r *vh.Rand) c09Spec {
	s := c09Spec{K: r.Range(0, 4), Prime: r.Bool(), IDs: !r.Chance(1, 10), RetryField: r.Chance(1, 4), MaxRetries: []int{1, 2, 3, 5}[r.Intn(4)]}
	s.PrimeBare = s.Prime && r.Bool()
	if r.Chance(1, 10) {
		s.MaxRetries = -1
	}
	if r.Chance(1, 4) {
		s.CType = r.Choose("text/event-stream; charset=utf-8", "Text/Event-Stream", "text/event-stream;charset=UTF-8")
	}
	s.FirstCut = c09Cut{At: r.Intn(700), Kind: r.Choose("error", "eof")}
	if s.Prime && r.Chance(1, 4) {
		s.FirstCut.At = r.Range(20, 40) // right after the priming event: it is all the client has
	}
	if r.Chance(1, 8) {
		s.FirstCut.At = -1
	}
	for i, n := 0, r.Range(1, 8); i < n; i++ {
		s.Reconnects = append(s.Reconnects, []string{"ok", "ok", "ok", "ok", "ok", "neterr", "timeout", "503", "500", "502", "404", "400", "404-json", "404-json-null", "400-json"}[r.Intn(15)])
	}
	for range s.Reconnects {
		c := c09Cut{At: -1}
		if r.Chance(1, 2) {
			c = c09Cut{At: r.Intn(500), Kind: r.Choose("error", "eof")}
		}
		s.Cuts = append(s.Cuts, c)
	}
	if r.Chance(1, 8) {
		// Directed shape: resumed bodies that end before their first event alternate with bodies that
		// deliver one more event. No run of fruitless attempts reaches the budget, their total exceeds it.
		s.K, s.Prime, s.IDs, s.MaxRetries = 4, true, true, r.Range(2, 3)
		s.FirstCut = c09Cut{At: r.Range(36, 60), Kind: r.Choose("error", "eof")}
		s.Reconnects, s.Cuts = nil, nil
		for i := 0; i < 4; i++ {
			for j := 0; j < s.MaxRetries-1; j++ { // the longest fruitless run the budget tolerates
				s.Reconnects = append(s.Reconnects, "ok")
				s.Cuts = append(s.Cuts, c09Cut{At: r.Intn(8), Kind: r.Choose("error", "eof")})
			}
			s.Reconnects = append(s.Reconnects, "ok")
			s.Cuts = append(s.Cuts, c09Cut{At: r.Range(190, 250), Kind: r.Choose("error", "eof")})
		}
		s.Reconnects = append(s.Reconnects, "ok")
		s.Cuts = append(s.Cuts, c09Cut{At: -1})
	}
	if r.Chance(1, 4) {
		s.Standalone, s.NoSID = true, r.Bool()
	}
	if r.Chance(1, 5) {
		s.PausesS = make([]int, len(s.Reconnects))
		for i, n := 0, r.Range(1, 2); i < n; i++ {
			s.PausesS[r.Intn(len(s.PausesS))] = []int{45, 100, 400}[r.Intn(3)]
		}
	}
	s.InitCut = r.Chance(1, 6)
	if r.Chance(1, 40) {
		s.LongOutage, s.MaxRetries, s.IDs, s.PausesS = true, 64, true, nil
		s.Reconnects, s.Cuts = nil, nil
		for i, n := 0, r.Range(58, 62); i < n; i++ {
			s.Reconnects = append(s.Reconnects, r.Choose("503", "neterr", "timeout", "502"))
		}
		s.Reconnects = append(s.Reconnects, "ok")
		s.Cuts = append(s.Cuts, c09Cut{At: -1})
		s.InitCut = false
	}
	s.NoGET = r.Chance(1, 5)
	s.Modern = r.Chance(1, 5)
	if s.Standalone && r.Chance(2, 3) {
		s.SAMsgs, s.SAIDs = r.Range(1, 4), r.Chance(1, 3)
		for i, n := 0, r.Range(0, min(s.MaxRetries, 3)); i < n; i++ {
			s.SACuts = append(s.SACuts, c09Cut{At: r.Intn(140 * s.SAMsgs), Kind: r.Choose("error", "eof")})
		}
	}
	return s
}

func TestVerifC09(t *testing.T) {
	cfg := vh.Config{
		Property: "C09",
		Cases:    vh.Pick(2500, 150000),
		Rule: "each case: the SDK streamable client calls a tool on a scripted server whose SSE response (optional priming event, K in 0..4 progress notifications, the response; ids on 9/10) is cut at a random byte offset by a read error or a clean EOF; up to 8 scripted reconnect outcomes {serve the rest after the presented id (cut again with p=1/2), transport error, 500, 502, 503, 404, 400}; MaxRetries in {1,2,3,5}; DisableStandaloneSSE on 1/5; on 1/5 the session is negotiated through server/discover (2026-07-28) and the server numbers its events all the same; on 1/6 the standalone stream carries 1..4 log notifications (with ids on 1/3), is cut up to min(MaxRetries,3) times and continued on the stream the client opens next. " +
			"In the thorough tier every byte offset of the first body is enumerated. non-trivial: the first body was cut and >=1 reconnect was attempted. distinct = distinct (stream shape, cut offsets/kinds, reconnect outcomes)",
		MinNontrivial: 100,
		Assumptions: []string{"the scripted server replays exactly the events after the presented Last-Event-ID (unknown id: 400)", "success is demanded only when every run of consecutive no-progress attempts is shorter than MaxRetries and no fatal status (404/400) is drawn before the stream completes",
			"the call must return within 30 virtual minutes in every case",
			"a session that answers a ping 3 virtual minutes after the call returned has had time to re-open a cut standalone stream (the scripted server accepts every such request at once) and to receive all the server had for it"},
	}
	vh.Run(t, cfg, func(c *vh.Case) {
		spec := genC09(c.R)
		if vh.Thorough() && c.Index < 2400 {
			// systematic sweep of the first cut over every offset (the text is < 1200 bytes), both kinds
			spec.FirstCut = c09Cut{At: c.Index / 2, Kind: []string{"error", "eof"}[c.Index%2]}
			spec.IDs = true
		}
		c.SetSpec(spec)
		c.Bubble("", func() { runC09(c, spec) })
	})
}

// c09Body serves text[:cut] and then ends with an error or a clean EOF.
type c09Body struct {
	r      *bytes.Reader
	kind   string
	done   bool
	pause  time.Duration   // nothing arrives for this long
	ctx    context.Context // the request's context: a read it ends reports its error, as net/http does
	closed chan struct{}
	once   sync.Once
	onRead func([]byte) // bytes actually handed to the client
	hold   bool         // after the last byte the stream stays open and silent until the client goes away
}

func (b *c09Body) Read(p []byte) (int, error) {
	if b.pause > 0 {
		d := b.pause
		b.pause = 0
		t := time.NewTimer(d)
		select {
		case <-t.C:
		case <-b.ctx.Done():
			t.Stop()
			return 0, b.ctx.Err()
		case <-b.closed:
			t.Stop()
			return 0, errors.New("verif: read on closed body")
		}
	}
	n, err := b.r.Read(p)
	if n > 0 && b.onRead != nil {
		b.onRead(p[:n])
	}
	if err == io.EOF && n == 0 && b.hold {
		select {
		case <-b.ctx.Done():
			return 0, b.ctx.Err()
		case <-b.closed:
			return 0, errors.New("verif: read on closed body")
		}
	}
	if err == io.EOF {
		if b.kind == "error" {
			return n, errors.New("verif: connection reset by peer")
		}
		return n, io.EOF
	}
	return n, err
}
func (b *c09Body) Close() error {
	if b.closed != nil {
		b.once.Do(func() { close(b.closed) })
	}
	return nil
}

type c09Server struct {
	c       *vh.Case
	spec    c09Spec
	mu      sync.Mutex
	events  []vhm.SSEvent // the logical stream of the call
	text    []string      // wire text per event
	nRec    int
	nOK     int
	served  [][]byte // bytes actually served per body
	leids   []string
	fatal   bool
	runaway bool
	callID  string
	// the response to initialize, once asked for (InitCut)
	initResp string
	tok      any
	// the standalone stream (SAMsgs > 0): wire text per event, the number of events served completely so far,
	// bytes actually served per body, the Last-Event-ID presented for each body
	saText   []string
	saNext   int
	saServed [][]byte
	saLeids  []string
}

func (s *c09Server) ctype() string {
	if s.spec.CType != "" {
		return s.spec.CType
	}
	return "text/event-stream"
}

func (s *c09Server) resp(req *http.Request, status int, ctype string, body io.ReadCloser, hdr map[string]string) *http.Response {
	h := http.Header{}
	if ctype != "" {
		h.Set("Content-Type", ctype)
	}
	for k, v := range hdr {
		h.Set(k, v)
	}
	return &http.Response{Status: fmt.Sprintf("%d %s", status, http.StatusText(status)), StatusCode: status, Proto: "HTTP/1.1", ProtoMajor: 1, ProtoMinor: 1, Header: h, Body: body, Request: req, ContentLength: -1}
}

func (s *c09Server) build(id json.RawMessage, tok any) {
	s.callID = string(id)
	n := 0
	add := func(name, data string) {
		e := vhm.SSEvent{Name: name, Data: data}
		if s.spec.IDs {
			e.ID = fmt.Sprintf("strm_%d", n)
		}
		if s.spec.RetryField && n == 1 {
			e.Retry = "7"
		}
		n++
		s.events = append(s.events, e)
		t := ""
		if e.Name != "" {
			t += "event: " + e.Name + "\n"
		}
		if e.ID != "" {
			t += "id: " + e.ID + "\n"
		}
		if e.Retry != "" {
			t += "retry: " + e.Retry + "\n"
		}
		t += "data: " + e.Data + "\n\n"
		s.text = append(s.text, t)
	}
	if s.spec.Prime {
		if s.spec.PrimeBare {
			add("", "")
		} else {
			add("prime", "")
		}
	}
	tb, _ := json.Marshal(tok)
	for j := 1; j <= s.spec.K; j++ {
		add("message", fmt.Sprintf(`{"jsonrpc":"2.0","method":"notifications/progress","params":{"progressToken":%s,"progress":%d,"message":"n%d-%s"}}`, tb, j, j, strings.Repeat("x", 20+j)))
	}
	add("message", fmt.Sprintf(`{"jsonrpc":"2.0","id":%s,"result":{"content":[{"type":"text","text":"the-real-response"}]}}`, id))
}

func (s *c09Server) serve(ctx context.Context, from int, cut c09Cut, pause time.Duration) io.ReadCloser {
	full := strings.Join(s.text[from:], "")
	b := []byte(full)
	kind := "eof"
	if cut.At >= 0 && cut.At < len(b) {
		b = b[:cut.At]
		kind = cut.Kind
	}
	// served[bi] grows as the client actually reads (a body abandoned during a pause was not received)
	bi := len(s.served)
	s.served = append(s.served, []byte{})
	s.c.Log.Add("body-served", "from", from, "bytes", len(b), "of", len(full), "end", kind, "pause_s", int(pause/time.Second))
	return &c09Body{r: bytes.NewReader(b), kind: kind, pause: pause, ctx: ctx, closed: make(chan struct{}), onRead: func(p []byte) {
		s.mu.Lock()
		s.served[bi] = append(s.served[bi], p...)
		s.mu.Unlock()
	}}
}

// serveStandalone serves the next body of a standalone stream that has something to say: the events after the
// presented id (without ids: those not yet served completely), cut as scripted or else held open.
func (s *c09Server) serveStandalone(ctx context.Context, leid string) io.ReadCloser {
	if s.saText == nil {
		for j := 1; j <= s.spec.SAMsgs; j++ {
			t := "event: message\n"
			if s.spec.SAIDs {
				t += fmt.Sprintf("id: sa_%d\n", j)
			}
			s.saText = append(s.saText, t+fmt.Sprintf(`data: {"jsonrpc":"2.0","method":"notifications/message","params":{"level":"info","logger":"standalone","data":"sa%d-%s"}}`, j, strings.Repeat("y", 10+j))+"\n\n")
		}
	}
	from := s.saNext
	if leid != "" {
		fmt.Sscanf(leid, "sa_%d", &from)
		from = min(max(from, 0), len(s.saText))
	}
	b := []byte(strings.Join(s.saText[from:], ""))
	kind, hold := "eof", true
	if bi := len(s.saServed); bi < len(s.spec.SACuts) && s.spec.SACuts[bi].At < len(b) {
		b, kind, hold = b[:s.spec.SACuts[bi].At], s.spec.SACuts[bi].Kind, false
	}
	for n := 0; from < len(s.saText) && n+len(s.saText[from]) <= len(b); from++ {
		n += len(s.saText[from])
	}
	s.saNext = max(s.saNext, from)
	bi := len(s.saServed)
	s.saServed = append(s.saServed, []byte{})
	s.saLeids = append(s.saLeids, leid)
	s.c.Log.Add("standalone-body-served", "leid", leid, "bytes", len(b), "end", kind, "held_open", hold, "t", s.c.Log.Now().String())
	return &c09Body{r: bytes.NewReader(b), kind: kind, hold: hold, ctx: ctx, closed: make(chan struct{}), onRead: func(p []byte) {
		s.mu.Lock()
		s.saServed[bi] = append(s.saServed[bi], p...)
		s.mu.Unlock()
	}}
}

func (s *c09Server) RoundTrip(req *http.Request) (*http.Response, error) {
	if err := req.Context().Err(); err != nil {
		return nil, err
	}
	s.mu.Lock()
	defer s.mu.Unlock()
	switch req.Method {
	case "DELETE":
		return s.resp(req, 204, "", http.NoBody, nil), nil
	case "GET":
		leid := req.Header.Get("Last-Event-ID")
		if s.spec.Standalone && s.spec.SAMsgs > 0 && (leid == "" || strings.HasPrefix(leid, "sa_")) {
			return s.resp(req, 200, "text/event-stream", s.serveStandalone(req.Context(), leid), nil), nil
		}
		if leid == "" {
			if s.spec.Standalone {
				// a standalone stream that stays open and silent; it ends when the client's request does
				pr, pw := io.Pipe()
				context.AfterFunc(req.Context(), func() { pw.CloseWithError(req.Context().Err()) })
				s.c.Log.Add("standalone-opened")
				return s.resp(req, 200, "text/event-stream", pr, nil), nil
			}
			return s.resp(req, 405, "", http.NoBody, nil), nil // no standalone stream
		}
		if strings.HasPrefix(leid, "init_") {
			s.c.Log.Add("initialize-resumed", "leid", leid)
			return s.resp(req, 200, "text/event-stream", io.NopCloser(strings.NewReader("id: init_1\ndata: "+s.initResp+"\n\n")), nil), nil
		}
		s.leids = append(s.leids, leid)
		outcome := "stall"
		if s.nRec < len(s.spec.Reconnects) {
			outcome = s.spec.Reconnects[s.nRec]
		}
		s.nRec++
		s.c.Log.Add("reconnect", "leid", leid, "outcome", outcome, "t", s.c.Log.Now().String())
		switch outcome {
		case "neterr":
			return nil, errors.New("verif: dial tcp: connection refused")
		case "timeout":
			// what net/http reports when Client.Timeout / ResponseHeaderTimeout fires
			return nil, fmt.Errorf("verif: net/http: timeout awaiting response headers: %w", context.DeadlineExceeded)
		case "stall":
			if s.nRec > 60 {
				// far beyond any retry budget (MaxRetries <= 5): stop feeding a runaway retry loop
				s.runaway = true
				s.fatal = true
				return s.resp(req, 404, "text/plain", io.NopCloser(strings.NewReader("gone")), nil), nil
			}
			// the script is exhausted: the server keeps answering 200 with an empty stream (no progress, for ever)
			s.served = append(s.served, nil)
			return s.resp(req, 200, s.ctype(), &c09Body{r: bytes.NewReader(nil), kind: "eof"}, nil), nil
		case "404-json", "404-json-null", "400-json":
			// the status with a JSON-RPC error as its body, as MCP servers answer an unknown session
			s.fatal = true
			st, id := 404, s.callID
			if outcome == "400-json" {
				st = 400
			}
			if outcome == "404-json-null" {
				id = "null"
			}
			return s.resp(req, st, "application/json", io.NopCloser(strings.NewReader(fmt.Sprintf(`{"jsonrpc":"2.0","id":%s,"error":{"code":-32001,"message":"session not found"}}`, id))), nil), nil
		case "500", "502", "503", "404", "400", "405":
			var st int
			fmt.Sscan(outcome, &st)
			if st == 404 || st == 400 || st == 405 {
				s.fatal = true
			}
			return s.resp(req, st, "text/plain", io.NopCloser(strings.NewReader(http.StatusText(st))), nil), nil
		}
		from := -1
		for i, e := range s.events {
			if e.ID == leid {
				from = i + 1
			}
		}
		if from < 0 {
			s.fatal = true
			s.c.Log.Add("unknown-last-event-id", "leid", leid)
			return s.resp(req, 400, "text/plain", io.NopCloser(strings.NewReader("unknown Last-Event-ID")), nil), nil
		}
		cut := c09Cut{At: -1}
		if s.nOK < len(s.spec.Cuts) {
			cut = s.spec.Cuts[s.nOK]
		}
		var pause time.Duration
		if s.nOK < len(s.spec.PausesS) {
			pause = time.Duration(s.spec.PausesS[s.nOK]) * time.Second
		}
		s.nOK++
		return s.resp(req, 200, s.ctype(), s.serve(req.Context(), from, cut, pause), nil), nil
	}
	body, _ := io.ReadAll(req.Body)
	var m struct {
		ID     json.RawMessage `json:"id"`
		Method string          `json:"method"`
		Params struct {
			Meta map[string]any `json:"_meta"`
		} `json:"params"`
	}
	json.Unmarshal(body, &m)
	switch {
	case m.Method == "server/discover" && s.spec.Modern:
		s.c.Log.Add("discovered")
		return s.resp(req, 200, "application/json", io.NopCloser(strings.NewReader(fmt.Sprintf(`{"jsonrpc":"2.0","id":%s,"result":{"resultType":"complete","supportedVersions":["2026-07-28"],"capabilities":{"tools":{"listChanged":true},"logging":{}},"_meta":{"io.modelcontextprotocol/serverInfo":{"name":"scripted","version":"0"}}}}`, m.ID))), nil), nil
	case m.Method == "server/discover":
		return s.resp(req, 200, "application/json", io.NopCloser(strings.NewReader(fmt.Sprintf(`{"jsonrpc":"2.0","id":%s,"error":{"code":-32601,"message":"method not found"}}`, m.ID))), nil), nil
	case m.Method == "initialize":
		hdr := map[string]string{"Mcp-Session-Id": "sess-1"}
		if s.spec.NoSID {
			hdr = nil
		}
		if s.spec.InitCut {
			s.initResp = fmt.Sprintf(`{"jsonrpc":"2.0","id":%s,"result":%s}`, m.ID, vhm.InitializeResultJSON("2025-11-25"))
			return s.resp(req, 200, "text/event-stream", io.NopCloser(strings.NewReader("id: init_0\ndata: \n\n")), hdr), nil
		}
		return s.resp(req, 200, "application/json", io.NopCloser(strings.NewReader(fmt.Sprintf(`{"jsonrpc":"2.0","id":%s,"result":%s}`, m.ID, vhm.InitializeResultJSON("2025-11-25")))), hdr), nil
	case m.Method == "tools/call":
		s.build(m.ID, m.Params.Meta["progressToken"])
		return s.resp(req, 200, s.ctype(), s.serve(req.Context(), 0, s.spec.FirstCut, 0), nil), nil
	case len(m.ID) == 0:
		return s.resp(req, 202, "", http.NoBody, nil), nil
	}
	return s.resp(req, 200, "application/json", io.NopCloser(strings.NewReader(fmt.Sprintf(`{"jsonrpc":"2.0","id":%s,"result":{}}`, m.ID))), nil), nil
}

func runC09(c *vh.Case, spec c09Spec) {
	log := c.Log
	ctx := context.Background()
	srv := &c09Server{c: c, spec: spec}
	var pmu sync.Mutex
	var progress, logs []string
	client := mcp.NewClient(&mcp.Implementation{Name: "c", Version: "1"}, &mcp.ClientOptions{
		ProgressNotificationHandler: func(_ context.Context, req *mcp.ProgressNotificationClientRequest) {
			pmu.Lock()
			progress = append(progress, req.Params.Message)
			pmu.Unlock()
			log.Add("delivered", "msg", req.Params.Message[:2])
		},
		LoggingMessageHandler: func(_ context.Context, req *mcp.LoggingMessageRequest) {
			pmu.Lock()
			logs = append(logs, fmt.Sprint(req.Params.Data))
			pmu.Unlock()
			log.Add("delivered-standalone", "msg", fmt.Sprint(req.Params.Data))
		},
	})
	version := "2025-11-25"
	if spec.Modern {
		version = "" // the client's default: server/discover first
	}
	cs, err := client.Connect(ctx, &mcp.StreamableClientTransport{Endpoint: "http://example.test/mcp", HTTPClient: &http.Client{Transport: srv}, MaxRetries: spec.MaxRetries, DisableStandaloneSSE: spec.NoGET}, &mcp.ClientSessionOptions{ProtocolVersion: version})
	initCut := spec.InitCut && !spec.Modern // a 2026-07-28 session is not initialized
	if err != nil {
		if initCut && spec.MaxRetries >= 0 {
			c.Violate("initialize-not-resumed", "the answer to initialize was an SSE stream cut after its priming event (id init_0); Connect failed with %v instead of resuming it (resume requests seen: %v)", err, srv.leids)
			return
		}
		if initCut {
			c.Count("initialize_cut_with_reconnecting_disabled", 1) // nothing may be resumed then: failing is right
			return
		}
		c.Inconclusive("connect: %v", err)
		return
	}
	if initCut {
		c.Count("initialize_answers_resumed", 1)
	}
	if v := cs.InitializeResult().ProtocolVersion; spec.Modern && v != "2026-07-28" {
		c.Inconclusive("the server answered server/discover with 2026-07-28, the session runs %q", v)
		cs.Close()
		return
	}
	type outcome struct {
		text string
		err  error
	}
	done := make(chan outcome, 1)
	go func() {
		defer c.Guard("")
		p := &mcp.CallToolParams{Name: "t", Arguments: map[string]any{}}
		p.SetProgressToken("tok")
		res, err := cs.CallTool(ctx, p)
		done <- outcome{textOf(res), err}
	}()
	var out outcome
	hung := false
	select {
	case out = <-done:
	case <-time.After(map[bool]time.Duration{false: 30 * time.Minute, true: 3 * time.Hour}[spec.LongOutage]):
		hung = true
	}
	log.Add("call-returned", "hung", hung, "err", errText(out.err), "text", out.text, "t", log.Now().String())
	srv.mu.Lock()
	recAtReturn := srv.nRec
	srv.mu.Unlock()
	var pingErr error
	pinged := false
	if !hung && (out.err == nil || spec.SAMsgs > 0) {
		// the stream is complete: nothing may try to resume it any more, and the session stays usable
		// (with a talking standalone stream, whatever became of the call: is the session still in working order?)
		time.Sleep(3 * time.Minute)
		pingErr = cs.Ping(ctx, nil)
		pinged = true
	}
	cs.Close()
	time.Sleep(40 * time.Second)

	// ------------------------------------------------------------ oracle
	srv.mu.Lock()
	defer srv.mu.Unlock()
	pmu.Lock()
	defer pmu.Unlock()
	if srv.runaway {
		c.Violate("unbounded-retries", "the client reconnected more than 60 times without ever making progress (MaxRetries %d)", spec.MaxRetries)
		return
	}
	if hung {
		c.Violate("call-hangs", "the call had not returned 30 virtual minutes after it was made (reconnects seen: %d)", srv.nRec)
		return
	}
	// what has the client received completely, according to an independent strict parser?
	cursor := ""          // id of the last event received completely
	var complete []string // data of complete message events, in order of receipt
	li := 0
	consecutive, maxConsecutive := 0, 0
	for bi, b := range srv.served {
		evs := vhm.ParseSSEBytes(b)
		// the Last-Event-ID presented to obtain body bi (bi>=1) must be the cursor at that time
		progressed := false
		for _, e := range evs {
			if e.ID != "" {
				cursor = e.ID
				progressed = true
			}
			if e.Data != "" && (e.Name == "" || e.Name == "message") {
				complete = append(complete, e.Data)
			}
		}
		_ = bi
		if progressed {
			consecutive = 0
		} else {
			consecutive++
		}
		if consecutive > maxConsecutive {
			maxConsecutive = consecutive
		}
	}
	// (b) every Last-Event-ID presented is the id of the last completely received event at that time
	{
		cur := ""
		bi := 0
		advance := func() { // account for body bi
			if bi < len(srv.served) {
				for _, e := range vhm.ParseSSEBytes(srv.served[bi]) {
					if e.ID != "" {
						cur = e.ID
					}
				}
				bi++
			}
		}
		advance() // first body (POST)
		okSeen := 0
		for i, leid := range srv.leids {
			if leid != cur {
				c.Violate("wrong-last-event-id", "reconnect %d presented Last-Event-ID %q, but the last event the client had received completely was %q", i, leid, cur)
				return
			}
			if i < len(spec.Reconnects) && spec.Reconnects[i] == "ok" {
				okSeen++
				advance()
			}
		}
		li = okSeen
	}
	_ = li
	// (d) nothing but complete, genuine messages is ever surfaced, (a) in order, no duplicates
	var wantProgress []string
	for _, e := range srv.events {
		var m struct {
			Params struct {
				Message string `json:"message"`
			} `json:"params"`
		}
		if json.Unmarshal([]byte(e.Data), &m) == nil && m.Params.Message != "" {
			wantProgress = append(wantProgress, m.Params.Message)
		}
	}
	j := 0
	for _, p := range progress {
		found := false
		for ; j < len(wantProgress); j++ {
			if wantProgress[j] == p {
				found = true
				j++
				break
			}
		}
		if !found {
			c.Violate("delivery-duplicated-reordered-or-truncated", "client delivered progress %v; the server's stream is %v (a message was delivered twice, out of order, or is not a message of the stream)", shorten(progress), shorten(wantProgress))
			return
		}
	}
	// every completely received notification must have been delivered
	nCompleteNotes := 0
	for _, d := range complete {
		if strings.Contains(d, `"notifications/progress"`) {
			nCompleteNotes++
		}
	}
	receivedResponse := false
	for _, d := range complete {
		if strings.Contains(d, `"the-real-response"`) {
			receivedResponse = true
		}
	}
	if out.err == nil {
		if srv.nRec != recAtReturn {
			c.Violate("resumed-a-completed-stream", "the call had completed with the server's response, yet the client reconnected %d more time(s) with Last-Event-ID %v", srv.nRec-recAtReturn, srv.leids[recAtReturn:])
			return
		}
		if pingErr != nil {
			c.Violate("session-broken-after-recovered-call", "the call completed, but a ping 3 minutes later failed: %v", pingErr)
			return
		}
		if out.text != "the-real-response" {
			c.Violate("wrong-response", "call completed with %q, not the server's real response", out.text)
			return
		}
		if len(progress) != spec.K {
			c.Violate("message-lost", "call succeeded but only %d of %d notifications were delivered: %v", len(progress), spec.K, shorten(progress))
			return
		}
	} else if receivedResponse {
		c.Violate("response-received-but-call-failed", "the response event was received completely, yet the call failed: %v", out.err)
		return
	}
	// when must the call have succeeded?
	firstCutEffective := spec.FirstCut.At >= 0 && spec.FirstCut.At < len(strings.Join(srv.text, ""))
	mustSucceed := !firstCutEffective
	if firstCutEffective && spec.IDs && !srv.fatal {
		// every reconnect outcome consumed was ok / transient and no run of no-progress attempts reached the budget
		run, worst, consumed := 0, 0, 0
		bodies := 1
		prog := func(b []byte) bool {
			for _, e := range vhm.ParseSSEBytes(b) {
				if e.ID != "" {
					return true
				}
			}
			return false
		}
		if !prog(srv.served[0]) {
			mustSucceed = false // no id received at all: not resumable
		} else {
			mustSucceed = true
			for i := 0; i < srv.nRec && i < len(spec.Reconnects); i++ {
				consumed++
				if spec.Reconnects[i] == "ok" {
					if bodies < len(srv.served) && prog(srv.served[bodies]) {
						run = 0
					} else {
						run++
					}
					bodies++
				} else {
					run++
				}
				if run > worst {
					worst = run
				}
			}
			if spec.MaxRetries < 0 && srv.nRec > 0 {
				c.Violate("reconnect-although-disabled", "MaxRetries is negative (reconnecting disabled) but the client issued %d resume request(s)", srv.nRec)
				return
			}
			if worst >= spec.MaxRetries || srv.nRec > len(spec.Reconnects) {
				mustSucceed = false
			}
			for i := 0; i < srv.nRec && i < len(spec.Reconnects); i++ {
				if spec.Reconnects[i] == "404" || spec.Reconnects[i] == "400" {
					mustSucceed = false
				}
			}
		}
		_ = consumed
	} else if firstCutEffective {
		mustSucceed = false
	}
	if mustSucceed && out.err != nil {
		key := "resumable-call-failed"
		c.Violate(key, "the stream was resumable within the retry budget (MaxRetries %d, reconnect outcomes consumed %v, no run of failures reached the budget) but the call failed: %v", spec.MaxRetries, spec.Reconnects[:min(srv.nRec, len(spec.Reconnects))], out.err)
		return
	}
	// the standalone stream: (b) resumed with the id of the last event received completely, (a)/(d) exactly once, in
	// order, nothing but the server's messages; and a session that still works has re-opened the stream after every
	// cut and got everything the server had for it
	if len(srv.saServed) > 0 {
		var want, got []string
		for j := 1; j <= spec.SAMsgs; j++ {
			want = append(want, fmt.Sprintf("sa%d-%s", j, strings.Repeat("y", 10+j)))
		}
		cur := ""
		for bi, b := range srv.saServed {
			if srv.saLeids[bi] != cur {
				c.Violate("wrong-last-event-id/standalone", "standalone stream %d was opened with Last-Event-ID %q, but the last event the client had received completely on that stream was %q", bi, srv.saLeids[bi], cur)
				return
			}
			for _, e := range vhm.ParseSSEBytes(b) {
				if e.ID != "" {
					cur = e.ID
				}
				var m struct {
					Params struct {
						Data string `json:"data"`
					} `json:"params"`
				}
				if json.Unmarshal([]byte(e.Data), &m) == nil && m.Params.Data != "" {
					got = append(got, m.Params.Data)
				}
			}
		}
		j := 0
		for _, l := range logs {
			for j < len(want) && want[j] != l {
				j++
			}
			if j == len(want) {
				c.Violate("delivery-duplicated-reordered-or-truncated/standalone", "client delivered %v from the standalone stream; the server's messages are %v (one was delivered twice, out of order, or is not a message of the stream)", logs, want)
				return
			}
			j++
		}
		if pinged && pingErr == nil && len(logs) < len(want) {
			last := srv.saServed[len(srv.saServed)-1]
			if len(got) < len(want) {
				c.Violate("standalone-stream-abandoned", "the standalone stream was cut %d time(s) (MaxRetries %d), the last body ended after %d bytes at least 3 minutes ago and the client has not opened the stream again; the session answers a ping as if nothing had happened, so %d message(s) the server still has for it are neither delivered nor is any error reported (delivered: %v)", len(srv.saServed), spec.MaxRetries, len(last), len(want)-len(got), logs)
				return
			}
			c.Violate("message-lost/standalone", "the client received %v completely on the standalone stream and the session still works, but it delivered only %v", got, logs)
			return
		}
		c.Count("standalone_bodies_served", len(srv.saServed))
		c.Count("standalone_messages_delivered", len(logs))
	}
	_ = maxConsecutive
	_ = cursor
	_ = nCompleteNotes
	c.Count("bodies_served", len(srv.served))
	c.Count("reconnects", srv.nRec)
	if out.err == nil {
		c.Count("calls_succeeded", 1)
	} else {
		c.Count("calls_failed_cleanly", 1)
	}
	if firstCutEffective && srv.nRec >= 1 {
		c.Nontrivial(vh.JSON(spec))
	}
}

var _ = testing.Short
