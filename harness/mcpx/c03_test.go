//go:build verif

// C03 — in-order dispatch: a notification completes before later messages start.
//
// One sender goroutine issues notifications and (asynchronous) calls in a fixed
// order; receiving middleware on the peer gives every handler an injected
// duration and records start/finish. Under virtual time there is no latency,
// so a tiny reference model of the dispatcher (a notification occupies it
// until its handler returns, a call releases it at once) predicts the exact
// start instant of every handler; both halves of the property follow: the
// notification barrier and the concurrency of calls.
package mcpx

import (
	"bufio"
	"bytes"
	"context"
	"encoding/json"
	"fmt"
	"github.com/modelcontextprotocol/go-sdk/jsonrpc"
	"io"
	"log/slog"
	"net/http"
	"reflect"
	"strings"
	"sync"
	"testing"
	"time"

	"github.com/modelcontextprotocol/go-sdk/internal/verifharness/vh"
	"github.com/modelcontextprotocol/go-sdk/internal/verifharness/vhm"
	"github.com/modelcontextprotocol/go-sdk/mcp"
)

type c03Op struct {
	N        int    `json:"n"`
	Kind     string `json:"kind"` // notify | call | roots (client.AddRoots: notifications/roots/list_changed) | log (s2c: one record through the session's slog LoggingHandler, rate limit configured: notifications/message)
	Dur      int    `json:"dur_ms"`
	Gap      int    `json:"gap_ms"`                 // sender pause before issuing this op
	Callback bool   `json:"callback,omitempty"`     // notify: the handler calls back into the peer with its own context before it goes on working
	WriteMs  int    `json:"write_ms,omitempty"`     // roots: the transport takes this long to accept the notification
	Fault503 bool   `json:"fault_503,omitempty"`    // notify over HTTP: the POST is answered with a transient gateway status once
	FaultSt  int    `json:"fault_status,omitempty"` // that status: 503 (default), 500, 502, 504 or 429
	Elicit   bool   `json:"elicit,omitempty"`       // s2c call: elicitation/create instead of roots/list
	CancelMs int    `json:"cancel_ms,omitempty"`    // call: > 0: the caller's context ends this long after the call was issued (possibly while it is still queued at the peer)
	Ping     bool   `json:"ping,omitempty"`         // call: a ping (legacy sessions), which no feature handler serves but which is a call like any other
	FullMeta bool   `json:"full_meta,omitempty"`    // notify on a 2026-07-28 session: its _meta also carries the per-request protocol metadata (version, capabilities, client info)
}

type c03Spec struct {
	Mode      string  `json:"mode"` // c2s | s2c | raw-init
	Transport string  `json:"transport"`
	Ops       []c03Op `json:"ops"`
	InitDur   int     `json:"init_dur_ms,omitempty"`
	Batch     bool    `json:"batch,omitempty"`   // raw-init: 2025-03-26 and all operations travel as one JSON-RPC batch array
	Version   string  `json:"version,omitempty"` // requested protocol version ("" = the client's default, 2026-07-28 on persistent connections)
	OAuth     bool    `json:"oauth,omitempty"`   // streamable client transport configured with an OAuthHandler (the server requires nothing)
	// Bystanders: the same Client is also connected to this many other servers, so that Client.AddRoots notifies
	// several sessions; it must still have handed the notification to this session's transport when it returns.
	Bystanders int `json:"bystanders,omitempty"`
	// CancelInit (raw-init): the peer withdraws its initialize request (notifications/cancelled) while the slow
	// initialize is still being handled; what it sent after it must still wait for initialize to finish
	CancelInit bool `json:"cancel_init,omitempty"`
	// EarlyClose (mem | pipe): as soon as the last operation has been issued - handlers still running, messages still
	// queued behind them - the receiving side closes its session ("receiver") or the sending side closes its own
	// ("sender", the receiver sees the end of its input). Whether what is queued then still runs is not fixed; the order
	// among the handlers that do run is.
	EarlyClose string `json:"early_close,omitempty"`
	// InitdDur (c2s, legacy handshake): the server's InitializedHandler takes this long; notifications/initialized is a
	// notification like any other: what the client sends once Connect has returned waits for it
	InitdDur int `json:"initd_dur_ms,omitempty"`
}

func genC03(r *vh.Rand) c03Spec {
	s := c03Spec{Mode: []string{"c2s", "c2s", "s2c", "raw-init"}[r.Intn(4)]}
	s.Transport = vhm.PairKinds[r.Intn(len(vhm.PairKinds))]
	s.Version = "2025-06-18"
	if s.Mode == "raw-init" {
		s.Transport = "pipe"
		s.InitDur = r.Range(1, 6)
		s.Batch = r.Chance(1, 3)
	} else if s.Mode == "c2s" && r.Chance(1, 3) {
		s.Version = ""
		s.Transport = r.Choose("mem", "pipe")
	}
	s.OAuth = s.Mode == "c2s" && (s.Transport == "http" || s.Transport == "http-json") && r.Chance(1, 3)
	// (the ops below depend on mode, transport and version)
	for i, k := 0, r.Range(3, 12); i < k; i++ {
		op := c03Op{N: i + 1, Kind: "notify", Dur: r.Intn(6), Gap: []int{0, 0, 0, 1, 2, 3}[r.Intn(6)]}
		if r.Chance(2, 5) {
			op.Kind = "call"
		}
		if r.Chance(1, 12) {
			op.Dur = []int{9000, 11000, 30000, 61000, 600000}[r.Intn(5)] // very slow handlers cost nothing in virtual time
		}
		persistent := s.Transport == "mem" || s.Transport == "pipe"
		switch {
		case op.Kind == "notify" && persistent && s.Mode != "raw-init" && r.Chance(1, 4):
			op.Callback = true
		case op.Kind == "notify" && s.Mode == "c2s" && persistent && s.Version != "" && r.Chance(1, 5):
			op.Kind, op.WriteMs = "roots", []int{0, 1, 1500, 2500}[r.Intn(4)]
		case op.Kind == "notify" && s.Mode == "c2s" && (s.Transport == "http" || s.Transport == "http-json" || s.Transport == "sse") && r.Chance(1, 5):
			op.Fault503 = true
			op.FaultSt = []int{503, 503, 500, 502, 504, 429}[r.Intn(6)]
		case op.Kind == "call" && s.Mode == "s2c" && r.Chance(1, 3):
			op.Elicit = true
		case op.Kind == "call" && persistent && s.Mode != "raw-init" && r.Chance(1, 5):
			op.CancelMs = r.Range(1, 4)
		case op.Kind == "call" && s.Mode != "raw-init" && s.Version != "" && r.Chance(1, 4):
			op.Ping = true
		case op.Kind == "notify" && s.Mode == "c2s" && s.Version == "" && r.Chance(1, 3):
			op.FullMeta = true
		}
		s.Ops = append(s.Ops, op)
	}
	if s.Mode == "raw-init" && !s.Batch && r.Bool() {
		s.CancelInit = true
	}
	if s.Mode != "raw-init" && (s.Transport == "mem" || s.Transport == "pipe") && r.Chance(1, 6) {
		s.EarlyClose = r.Choose("receiver", "sender")
	}
	if s.Mode == "c2s" && s.Version != "" && (s.Transport == "mem" || s.Transport == "pipe") && r.Chance(1, 4) {
		s.InitdDur = r.Range(1, 6)
	}
	if s.Mode == "s2c" && s.EarlyClose == "" && r.Chance(1, 3) {
		// one of the notifications is a log record instead (one only: the handler's rate limit drops records that
		// follow one another within its interval)
		var cand []int
		for i, op := range s.Ops {
			if op.Kind == "notify" && !op.Callback && !op.Fault503 {
				cand = append(cand, i)
			}
		}
		if len(cand) > 0 {
			s.Ops[cand[r.Intn(len(cand))]].Kind = "log"
		}
	}
	for _, op := range s.Ops {
		if op.Kind == "roots" && s.Bystanders == 0 && r.Bool() {
			s.Bystanders = r.Range(1, 3)
		}
	}
	return s
}

func TestVerifC03(t *testing.T) {
	cfg := vh.Config{
		Property: "C03",
		Cases:    vh.Pick(2000, 60000),
		Rule: "each case: one sender goroutine issues 3..12 notifications/asynchronous calls (gaps 0..3 ms) to a peer whose handlers take 0..5 ms (receiving middleware): client->server over mem|pipe|sse|http|http-json, " +
			"server->client over the same (background context, i.e. one stream), or a raw wire peer that pipelines initialize (slow), notifications/initialized and feature calls without waiting. " +
			"non-trivial: >=1 notification with duration >0 followed by another message sent before it finishes, and >=1 call with duration >0 overlapped by a later message. distinct = distinct (mode, transport, kind/duration/gap pattern)",
		MinNontrivial: 100,
		Assumptions:   []string{"zero transport latency under virtual time, so handler start instants are exactly predictable", "handler start order among concurrent calls is not fixed by the statement; only instants and the notification barrier are checked"},
	}
	vh.Run(t, cfg, func(c *vh.Case) {
		spec := genC03(c.R)
		c.SetSpec(spec)
		ok := c.Bubble("", func() {
			if spec.Mode == "raw-init" {
				runC03Raw(c, spec)
			} else {
				runC03(c, spec)
			}
		})
		if ok {
			decideC03(c, spec)
		}
	})
}

func c03Nonce(req mcp.Request) int {
	p := req.GetParams()
	if p == nil || reflect.ValueOf(p).IsNil() {
		return 0
	}
	if v, ok := any(p).(*mcp.LoggingMessageParams); ok {
		if m, ok := v.Data.(map[string]any); ok {
			if f, ok := m["nonce"].(float64); ok {
				return int(f)
			}
		}
		return 0
	}
	if v, ok := any(p).(*mcp.CallToolParamsRaw); ok {
		var a struct{ Nonce int }
		json.Unmarshal(v.Arguments, &a)
		if a.Nonce != 0 {
			return a.Nonce
		}
	}
	if m := p.GetMeta(); m != nil {
		switch f := m["nonce"].(type) {
		case float64:
			return int(f)
		case int:
			return f
		}
	}
	return 0
}

// c03Extra carries the per-case attributes the receiving middleware needs besides durations.
type c03Extra struct {
	mu       sync.Mutex
	callback map[int]bool // notification nonces whose handler calls back into the peer
	roots    []int        // op numbers of the roots/list_changed notifications, in sending order
}

func (x *c03Extra) nextRoots() int {
	x.mu.Lock()
	defer x.mu.Unlock()
	if len(x.roots) == 0 {
		return 0
	}
	n := x.roots[0]
	x.roots = x.roots[1:]
	return n
}

func c03MW(log *vh.Log, dur map[int]time.Duration, initDur time.Duration, extra ...*c03Extra) mcp.Middleware {
	var x *c03Extra
	if len(extra) > 0 {
		x = extra[0]
	}
	return func(next mcp.MethodHandler) mcp.MethodHandler {
		return func(ctx context.Context, method string, req mcp.Request) (mcp.Result, error) {
			n := c03Nonce(req)
			if method == "notifications/roots/list_changed" && x != nil {
				n = x.nextRoots()
			}
			d := dur[n]
			if method == "initialize" {
				n, d = -1, initDur
			}
			if method == "notifications/initialized" {
				n = -2
			}
			if n == 0 {
				return next(ctx, method, req)
			}
			log.Add("handler-start", "n", n, "method", method)
			if x != nil && x.callback[n] {
				// the handler asks its peer something, with its own context, and then goes on working
				var err error
				switch sess := req.GetSession().(type) {
				case *mcp.ServerSession:
					_, err = sess.ListRoots(ctx, nil)
				case *mcp.ClientSession:
					_, err = sess.ListTools(ctx, nil)
				}
				log.Add("callback-returned", "n", n, "err", fmt.Sprint(err))
			}
			if d > 0 {
				time.Sleep(d)
			}
			res, err := next(ctx, method, req)
			log.Add("handler-finish", "n", n, "method", method)
			return res, err
		}
	}
}

func runC03(c *vh.Case, spec c03Spec) {
	log := c.Log
	ctx := context.Background()
	dur := map[int]time.Duration{}
	for _, op := range spec.Ops {
		dur[op.N] = ms(op.Dur)
	}
	var sopts *mcp.ServerOptions
	if spec.InitdDur > 0 {
		sopts = &mcp.ServerOptions{InitializedHandler: func(context.Context, *mcp.InitializedRequest) {
			log.Add("initd-handler-start")
			time.Sleep(ms(spec.InitdDur))
			log.Add("initd-handler-finish")
		}}
	}
	server := mcp.NewServer(&mcp.Implementation{Name: "s", Version: "1"}, sopts)
	server.AddTool(&mcp.Tool{Name: "work", InputSchema: json.RawMessage(`{"type":"object"}`)}, func(ctx context.Context, req *mcp.CallToolRequest) (*mcp.CallToolResult, error) {
		return &mcp.CallToolResult{Content: []mcp.Content{&mcp.TextContent{Text: "ok"}}}, nil
	})
	client := mcp.NewClient(&mcp.Implementation{Name: "c", Version: "1"}, &mcp.ClientOptions{
		ElicitationHandler: func(context.Context, *mcp.ElicitRequest) (*mcp.ElicitResult, error) {
			return &mcp.ElicitResult{Action: "decline"}, nil
		},
	})
	client.AddRoots(&mcp.Root{URI: "file:///r"})
	extra := &c03Extra{callback: map[int]bool{}}
	writeMs := map[int]int{}
	fault503 := map[int]bool{}
	faultSt := map[int]int{}
	for _, op := range spec.Ops {
		if op.Callback {
			extra.callback[op.N] = true
		}
		if op.Kind == "roots" {
			extra.roots = append(extra.roots, op.N)
			writeMs[op.N] = op.WriteMs
		}
		if op.Fault503 {
			fault503[op.N] = true
			faultSt[op.N] = op.FaultSt
		}
	}
	if spec.Mode == "c2s" {
		server.AddReceivingMiddleware(c03MW(log, dur, 0, extra))
	} else {
		client.AddReceivingMiddleware(c03MW(log, dur, 0, extra))
	}
	po := vhm.PairOpts{Kind: spec.Transport, Server: server, Client: client, ClientVersion: spec.Version, AsyncDelete: true}
	if spec.OAuth {
		po.OAuth = &rotatingAuth{every: 1 << 30}
	}
	var rootsPending []int // roots ops whose notification is about to be written, in order
	var rpmu sync.Mutex
	if spec.Transport == "mem" || spec.Transport == "pipe" {
		po.WrapClient = func(inner mcp.Connection) mcp.Connection {
			fc := vhm.NewFaultConn(inner, vh.NewLog(), "client") // its own log: the wire events are not needed here
			fc.BeforeWrite = func(_ context.Context, msg jsonrpc.Message, _ int) error {
				if req, ok := msg.(*jsonrpc.Request); ok && req.Method == "notifications/roots/list_changed" {
					rpmu.Lock()
					d := 0
					if len(rootsPending) > 0 {
						d = writeMs[rootsPending[0]]
						rootsPending = rootsPending[1:]
					}
					rpmu.Unlock()
					if d > 0 {
						time.Sleep(ms(d)) // a slow hop: the transport accepts the message only now
					}
				}
				return nil
			}
			return fc
		}
	}
	pair, err := vhm.Connect(ctx, po)
	if err == nil && pair.InProc != nil && len(fault503) > 0 {
		var fmu sync.Mutex
		pair.InProc.Before = func(req *http.Request, _ int64) (*http.Response, error) {
			if req.Method != "POST" || req.Body == nil {
				return nil, nil
			}
			b, _ := io.ReadAll(req.Body)
			req.Body = io.NopCloser(bytes.NewReader(b))
			if !bytes.Contains(b, []byte(`"notifications/progress"`)) {
				return nil, nil
			}
			var m struct {
				Params struct {
					Meta map[string]any `json:"_meta"`
				} `json:"params"`
			}
			json.Unmarshal(b, &m)
			n, _ := m.Params.Meta["nonce"].(float64)
			fmu.Lock()
			defer fmu.Unlock()
			if fault503[int(n)] {
				delete(fault503, int(n))
				log.Add("gateway-503", "n", int(n))
				st := faultSt[int(n)]
				if st == 0 {
					st = 503
				}
				return &http.Response{StatusCode: st, Status: fmt.Sprintf("%d %s", st, http.StatusText(st)), Proto: "HTTP/1.1", ProtoMajor: 1, ProtoMinor: 1,
					Header: http.Header{"Content-Type": []string{"text/plain"}}, Body: io.NopCloser(strings.NewReader("try later")), Request: req}, nil
			}
			return nil, nil
		}
	}
	if err != nil || pair.SS == nil {
		c.Inconclusive("connect %s: %v", spec.Transport, err)
		return
	}
	cs, ss := pair.CS, pair.SS
	c.Seen("negotiated", spec.Transport+"/"+cs.InitializeResult().ProtocolVersion)
	for i := 0; i < spec.Bystanders; i++ {
		other := mcp.NewServer(&mcp.Implementation{Name: fmt.Sprintf("bystander-%d", i), Version: "1"}, nil)
		t1, t2 := mcp.NewInMemoryTransports()
		oss, err1 := other.Connect(ctx, t1, nil)
		ocs, err2 := client.Connect(ctx, t2, &mcp.ClientSessionOptions{ProtocolVersion: "2025-06-18"})
		if err1 != nil || err2 != nil {
			c.Inconclusive("bystander connect: %v %v", err1, err2)
			return
		}
		defer oss.Close()
		defer ocs.Close()
		c.Count("bystander_sessions", 1)
	}
	var slogger *slog.Logger
	for _, op := range spec.Ops {
		if op.Kind == "log" && slogger == nil {
			if err := cs.SetLoggingLevel(ctx, &mcp.SetLoggingLevelParams{Level: "debug"}); err != nil {
				c.Inconclusive("logging/setLevel: %v", err)
				return
			}
			slogger = slog.New(mcp.NewLoggingHandler(ss, &mcp.LoggingHandlerOptions{MinInterval: time.Microsecond}))
		}
	}
	synctestWait()
	var calls sync.WaitGroup
	for _, op := range spec.Ops {
		op := op
		if op.Gap > 0 {
			time.Sleep(ms(op.Gap))
		}
		log.Add("send", "n", op.N, "kind", op.Kind)
		if op.Kind == "log" {
			slogger.Info("op", "nonce", op.N)
			log.Add("api-return", "n", op.N)
			c.Count("log_records_among_the_notifications", 1)
			continue
		}
		if op.Kind == "roots" {
			rpmu.Lock()
			rootsPending = append(rootsPending, op.N)
			rpmu.Unlock()
			client.AddRoots(&mcp.Root{URI: fmt.Sprintf("file:///root-%d", op.N)})
			log.Add("api-return", "n", op.N)
			continue
		}
		if op.Kind == "notify" {
			p := &mcp.ProgressNotificationParams{Meta: mcp.Meta{"nonce": op.N}, ProgressToken: "t", Progress: float64(op.N)}
			if op.FullMeta {
				p.Meta[mcp.MetaKeyProtocolVersion] = cs.InitializeResult().ProtocolVersion
				p.Meta[mcp.MetaKeyClientCapabilities] = map[string]any{}
				p.Meta[mcp.MetaKeyClientInfo] = map[string]any{"name": "c", "version": "1"}
				c.Count("notifications_with_per_request_metadata", 1)
			}
			var err error
			if spec.Mode == "c2s" {
				err = cs.NotifyProgress(ctx, p)
			} else {
				err = ss.NotifyProgress(ctx, p)
			}
			if err != nil && op.Fault503 {
				// the gateway refused it and the sender was told so: the message does not exist
				log.Add("notify-refused", "n", op.N, "err", err.Error())
				continue
			}
			if err != nil {
				c.Inconclusive("notify %d failed: %v", op.N, err)
				return
			}
			log.Add("api-return", "n", op.N)
			continue
		}
		calls.Add(1)
		go func() {
			defer calls.Done()
			defer c.Guard("")
			var err error
			cctx := ctx
			if op.CancelMs > 0 {
				var cancel context.CancelFunc
				cctx, cancel = context.WithTimeout(ctx, ms(op.CancelMs))
				defer cancel()
			}
			switch {
			case op.Ping && spec.Mode == "c2s":
				err = cs.Ping(cctx, &mcp.PingParams{Meta: mcp.Meta{"nonce": op.N}})
			case op.Ping:
				err = ss.Ping(cctx, &mcp.PingParams{Meta: mcp.Meta{"nonce": op.N}})
			case spec.Mode == "c2s":
				_, err = cs.CallTool(cctx, &mcp.CallToolParams{Name: "work", Arguments: map[string]any{"nonce": op.N}})
			case op.Elicit:
				_, err = ss.Elicit(cctx, &mcp.ElicitParams{Meta: mcp.Meta{"nonce": op.N}, Message: "m", RequestedSchema: map[string]any{"type": "object", "properties": map[string]any{}}})
			default:
				_, err = ss.ListRoots(cctx, &mcp.ListRootsParams{Meta: mcp.Meta{"nonce": op.N}})
			}
			if err != nil && op.CancelMs > 0 && cctx.Err() != nil {
				log.Add("call-cancelled", "n", op.N)
			} else if err != nil {
				log.Add("call-failed", "n", op.N, "err", err.Error())
			}
			log.Add("call-return", "n", op.N)
		}()
		// the call has been written (and is in flight or finished) once everything else is blocked
		synctestWait()
		log.Add("api-return", "n", op.N)
	}
	if spec.EarlyClose != "" {
		closer := func() {
			log.Add("early-close", "by", spec.EarlyClose)
			if (spec.EarlyClose == "receiver") == (spec.Mode == "c2s") {
				ss.Close()
			} else {
				cs.Close()
			}
		}
		closed := make(chan struct{})
		go func() { defer close(closed); defer c.Guard(""); closer() }()
		calls.Wait()
		<-closed
		c.Count("early_close_cases", 1)
	}
	calls.Wait()
	total := 20
	for _, op := range spec.Ops {
		total += op.Dur
	}
	time.Sleep(ms(total))
	cs.Close()
	ss.Wait()
	if pair.InProc != nil {
		pair.InProc.Wait()
	}
	time.Sleep(11 * time.Second)
}

// runC03Raw pipelines initialize (slow), initialized and the ops on a raw ndjson pipe.
func runC03Raw(c *vh.Case, spec c03Spec) {
	log := c.Log
	ctx := context.Background()
	dur := map[int]time.Duration{}
	for _, op := range spec.Ops {
		dur[op.N] = ms(op.Dur)
	}
	server := mcp.NewServer(&mcp.Implementation{Name: "s", Version: "1"}, nil)
	server.AddTool(&mcp.Tool{Name: "work", InputSchema: json.RawMessage(`{"type":"object"}`)}, func(ctx context.Context, req *mcp.CallToolRequest) (*mcp.CallToolResult, error) {
		return &mcp.CallToolResult{Content: []mcp.Content{&mcp.TextContent{Text: "ok"}}}, nil
	})
	server.AddReceivingMiddleware(c03MW(log, dur, ms(spec.InitDur)))
	cr, sw := io.Pipe()
	sr, cw := io.Pipe()
	ss, err := server.Connect(ctx, &mcp.IOTransport{Reader: sr, Writer: sw}, nil)
	if err != nil {
		c.Inconclusive("connect: %v", err)
		return
	}
	done := make(chan struct{})
	go func() {
		defer close(done)
		sc := bufio.NewScanner(cr)
		sc.Buffer(make([]byte, 1<<20), 1<<20)
		for sc.Scan() {
			var m struct {
				ID    any `json:"id"`
				Error *struct {
					Code    int    `json:"code"`
					Message string `json:"message"`
				} `json:"error"`
			}
			json.Unmarshal(sc.Bytes(), &m)
			if m.ID != nil {
				log.Add("response", "id", fmt.Sprint(m.ID))
			}
			if m.Error != nil {
				log.Add("error-response", "id", fmt.Sprint(m.ID), "code", m.Error.Code, "msg", m.Error.Message)
			}
		}
	}()
	send := func(s string) { cw.Write([]byte(s + "\n")) }
	pv := "2025-06-18"
	if spec.Batch {
		pv = "2025-03-26" // the last protocol version with JSON-RPC batches
	}
	log.Add("send", "n", -1, "kind", "call")
	send(fmt.Sprintf(`{"jsonrpc":"2.0","id":"init","method":"initialize","params":{"protocolVersion":%q,"capabilities":{},"clientInfo":{"name":"raw","version":"0"}}}`, pv))
	if spec.CancelInit {
		if spec.InitDur > 1 {
			time.Sleep(ms(1)) // initialize is being handled by now
		}
		send(`{"jsonrpc":"2.0","method":"notifications/cancelled","params":{"requestId":"init","reason":"changed my mind"}}`)
	}
	log.Add("send", "n", -2, "kind", "notify")
	send(`{"jsonrpc":"2.0","method":"notifications/initialized"}`)
	if spec.Batch {
		// one array carrying every operation: its members are dispatched in array order
		time.Sleep(ms(spec.InitDur + 1))
		var parts []string
		for _, op := range spec.Ops {
			log.Add("send", "n", op.N, "kind", op.Kind)
			if op.Kind == "notify" {
				parts = append(parts, fmt.Sprintf(`{"jsonrpc":"2.0","method":"notifications/progress","params":{"_meta":{"nonce":%d},"progressToken":"t","progress":1}}`, op.N))
			} else {
				parts = append(parts, fmt.Sprintf(`{"jsonrpc":"2.0","id":%d,"method":"tools/call","params":{"name":"work","arguments":{"nonce":%d}}}`, op.N, op.N))
			}
		}
		send("[" + strings.Join(parts, ",") + "]")
		synctestWait()
		for _, op := range spec.Ops {
			log.Add("api-return", "n", op.N)
		}
	}
	for _, op := range spec.Ops {
		if spec.Batch {
			break
		}
		if op.Gap > 0 {
			time.Sleep(ms(op.Gap))
		}
		log.Add("send", "n", op.N, "kind", op.Kind)
		if op.Kind == "notify" {
			send(fmt.Sprintf(`{"jsonrpc":"2.0","method":"notifications/progress","params":{"_meta":{"nonce":%d},"progressToken":"t","progress":1}}`, op.N))
		} else {
			send(fmt.Sprintf(`{"jsonrpc":"2.0","id":%d,"method":"tools/call","params":{"name":"work","arguments":{"nonce":%d}}}`, op.N, op.N))
		}
		synctestWait()
		log.Add("api-return", "n", op.N)
	}
	total := 60
	for _, op := range spec.Ops {
		total += op.Dur
	}
	time.Sleep(ms(total))
	cw.Close()
	ss.Wait()
	sw.Close()
	<-done
	time.Sleep(11 * time.Second)
}

func decideC03(c *vh.Case, spec c03Spec) {
	if c.Violated() {
		return
	}
	evs := c.Log.Events()
	send, start, finish := map[int]vh.Event{}, map[int]vh.Event{}, map[int]vh.Event{}
	var initAnswered int64 = -1
	var early []string
	for _, e := range evs {
		n := fint(e, "n")
		switch e.Kind {
		case "send":
			send[n] = e
		case "handler-start":
			if _, dup := start[n]; dup {
				c.Violate("handler-ran-twice", "message %d was dispatched twice", n)
				return
			}
			start[n] = e
		case "handler-finish":
			finish[n] = e
		case "response":
			// raw-init: nothing sent after initialize is handled, let alone answered, before initialize is
			if id := fstr(e, "id"); id == "init" {
				initAnswered = e.T
			} else if initAnswered < 0 || e.T < initAnswered {
				early = append(early, id)
			}
		case "error-response":
			if spec.CancelInit {
				break // a withdrawn initialize fails, and what follows it is refused: expected
			}
			c.Violate("pipelined-message-rejected", "pipelined message id=%s was answered with error %d %q (later messages overtook initialize?)", fstr(e, "id"), fint(e, "code"), fstr(e, "msg"))
			return
		case "call-failed":
			if spec.EarlyClose != "" {
				break // the session was closed under the call
			}
			c.Violate("call-failed", "call %d failed: %s", n, fstr(e, "err"))
			return
		}
	}
	if spec.EarlyClose != "" {
		// the session was closed with handlers running and messages queued: which of the queued ones still run is not
		// fixed, but no message may start while an earlier notification of the same sender is still being handled
		var prevNotes []int
		ran := 0
		for _, op := range spec.Ops {
			st, started := start[op.N]
			if started {
				ran++
				for _, pn := range prevNotes {
					pf, fin := finish[pn]
					if _, pst := start[pn]; !pst {
						continue
					}
					if !fin || pf.Seq > st.Seq {
						c.Violate("overtook-notification", "session closed early (%s): message %d started (seq %d, %dus) before the handler of earlier notification %d had finished (finished: %v, seq %d, %dus)", spec.EarlyClose, op.N, st.Seq, st.T, pn, fin, pf.Seq, pf.T)
						return
					}
				}
			}
			if op.Kind != "call" {
				prevNotes = append(prevNotes, op.N)
			}
		}
		if ran >= 2 {
			c.Nontrivial(fmt.Sprintf("early-close:%s:%s:%s:%d/%d", spec.EarlyClose, spec.Mode, spec.Transport, ran, len(spec.Ops)))
		}
		return
	}
	if spec.Mode == "raw-init" && len(early) > 0 {
		c.Violate("overtook-initialize", "requests %v, sent after initialize, were answered before initialize was (answered at %dus): they were handled while it was still in progress", early, initAnswered)
		return
	}
	if spec.CancelInit {
		// a withdrawn initialize may fail, and what was sent after it is then refused: only the order above is decided
		c.Count("cancelled_initialize_cases", 1)
		c.Nontrivial(fmt.Sprintf("cancel-init:%d:%d", spec.InitDur, len(spec.Ops)))
		return
	}
	type item struct {
		n    int
		kind string
		dur  int64
	}
	var seq []item
	if spec.Mode == "raw-init" {
		seq = append(seq, item{-1, "init", int64(spec.InitDur) * 1000}, item{-2, "notify", 0})
	}
	refused := map[int]bool{}
	for _, e := range evs {
		if e.Kind == "notify-refused" {
			refused[fint(e, "n")] = true
		}
	}
	arriveAfter := map[int]int64{}
	for _, op := range spec.Ops {
		if refused[op.N] {
			if _, ran := start[op.N]; ran {
				c.Violate("refused-notification-dispatched", "notification %d: the sender was told it failed (HTTP 503), yet it was dispatched", op.N)
				return
			}
			continue
		}
		if op.CancelMs > 0 {
			// a call whose caller gives up: whether and when its handler runs is not fixed by the statement;
			// calls never hold up later messages, so the reference dispatcher simply leaves it out
			continue
		}
		kind := op.Kind
		if kind == "log" {
			kind = "notify"
		}
		if kind == "roots" {
			kind = "notify"
			arriveAfter[op.N] = int64(op.WriteMs) * 1000
		}
		seq = append(seq, item{op.N, kind, int64(op.Dur) * 1000})
	}
	// reference dispatcher
	var free int64
	if spec.InitdDur > 0 {
		// the dispatcher is taken until the InitializedHandler has returned
		fin := c.Log.Find("initd-handler-finish")
		if len(fin) != 1 {
			c.Violate("message-not-dispatched", "the server's InitializedHandler ran %d time(s) after a legacy handshake", len(fin))
			return
		}
		free = fin[0].T
		c.Count("slow_initialized_handlers", 1)
	}
	barrier, overlap := false, false
	for i, it := range seq {
		sv, ok := send[it.n]
		if !ok {
			c.Inconclusive("message %d was never sent", it.n)
			return
		}
		st, ok1 := start[it.n]
		fi, ok2 := finish[it.n]
		if !ok1 || !ok2 {
			c.Violate("message-not-dispatched", "message %d (%s) sent at %dus was never dispatched to its handler (start seen %v, finish seen %v)", it.n, it.kind, sv.T, ok1, ok2)
			return
		}
		want := sv.T + arriveAfter[it.n]
		if free > want {
			want = free
			barrier = true
		}
		if st.T < want {
			c.Violate("overtook-notification", "message %d (%s, sent %dus) started at %dus although an earlier notification (or initialize) from the same sender was still being handled until %dus", it.n, it.kind, sv.T, st.T, free)
			return
		}
		if st.T > want {
			c.Violate("calls-serialised", "message %d (%s, sent %dus) started only at %dus; with calls handled asynchronously and notifications in order it must start at %dus", it.n, it.kind, sv.T, st.T, want)
			return
		}
		// logical order: every earlier notification finished before this handler started
		for _, prev := range seq[:i] {
			if prev.kind != "call" {
				if pf := finish[prev.n]; pf.Seq > st.Seq {
					c.Violate("overtook-notification", "message %d started (seq %d) before the handler of earlier notification %d had finished (seq %d)", it.n, st.Seq, prev.n, pf.Seq)
					return
				}
			} else if it.dur >= 0 && prev.dur > 0 && finish[prev.n].T > st.T {
				overlap = true
			}
		}
		if it.kind == "call" {
			free = want // released at once
		} else {
			free = want + it.dur
		}
		_ = fi
	}
	c.Count("messages", len(seq))
	if barrier && overlap {
		var sb strings.Builder
		sb.WriteString(spec.Mode + spec.Transport)
		for _, op := range spec.Ops {
			fmt.Fprintf(&sb, "%c%d.%d", op.Kind[0], op.Dur, op.Gap)
		}
		c.Nontrivial(sb.String())
	}
}

var _ = testing.Short
