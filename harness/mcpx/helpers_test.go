//go:build verif

package mcpx

import (
	"runtime"
	"testing/synctest"
)

// synctestWait blocks until every other goroutine of the bubble is durably blocked.
func synctestWait() { synctest.Wait() }

// synctestWaitSafe yields so that every goroutine runnable at this virtual
// instant has run (several goroutines may call it; synctest.Wait may not be
// called concurrently, so this is a plain cooperative yield).
func synctestWaitSafe() {
	for i := 0; i < 50; i++ {
		runtime.Gosched()
	}
}
