//go:build verif

package mcpx

import "testing/synctest"

// synctestWait blocks until every other goroutine of the bubble is durably blocked.
func synctestWait() { synctest.Wait() }
