//go:build verif

// C01 outside the bubble: a real mcp.Client over StreamableClientTransport and net/http, against a real
// StreamableHTTPHandler behind an httptest server on a loopback socket. Wall-clock milliseconds, so only what does not
// depend on time is decided: every call returns exactly once (a caller that never returns is left to the per-case
// watchdog, which decides nothing by itself), an answer is the caller's own, a call on an undisturbed session does not
// fail, and once Close/Wait have returned a further call fails at once as closed. The point of the mode is the race
// detector on the real net/http paths (request contexts cancelled by dropped TCP connections, flushes, response
// controllers) that the in-process round tripper of the other modes only models.
package mcpx

import (
	"context"
	"errors"
	"fmt"
	"net/http"
	"net/http/httptest"
	"sync"
	"sync/atomic"
	"time"

	"github.com/modelcontextprotocol/go-sdk/internal/verifharness/vh"
	"github.com/modelcontextprotocol/go-sdk/mcp"
)

type c01RealSpec struct {
	Side      string `json:"side"` // "real"
	JSON      bool   `json:"json_response"`
	Stateless bool   `json:"stateless"`
	Store     bool   `json:"event_store"`
	Version   string `json:"version"` // "" = the client's default
	Callers   int    `json:"callers"`
	PerCaller int    `json:"calls_per_caller"`
	WorkMs    int    `json:"work_ms"`    // handlers take 0..WorkMs
	CancelPct int    `json:"cancel_pct"` // share of calls whose caller gives up after 0..3 ms
	Nested    bool   `json:"nested"`     // handlers ask the client for its roots (stateful only)
	Fault     string `json:"fault"`      // none | drop (every TCP connection of the server is closed) | server-close | client-close
	FaultMs   int    `json:"fault_ms"`
}

func genC01Real(r *vh.Rand) c01RealSpec {
	s := c01RealSpec{Side: "real", JSON: r.Chance(1, 3), Stateless: r.Chance(1, 4), Callers: r.Range(2, 8), PerCaller: r.Range(1, 4), WorkMs: r.Intn(4), CancelPct: []int{0, 0, 20, 50}[r.Intn(4)],
		Fault: r.Choose("none", "none", "drop", "drop", "server-close", "client-close"), FaultMs: r.Intn(8)}
	if s.Stateless {
		s.Version = r.Choose("", "2025-06-18", "2025-11-25")
		if s.Fault == "server-close" {
			s.Fault = "drop"
		}
	} else {
		s.Version = r.Choose("2025-03-26", "2025-06-18", "2025-11-25")
		s.Store = r.Bool()
		s.Nested = r.Chance(1, 3)
	}
	return s
}

func runC01Real(c *vh.Case, spec c01RealSpec) {
	defer c.Guard("")
	ctx := context.Background()
	server := mcp.NewServer(&mcp.Implementation{Name: "s", Version: "1"}, nil)
	type args struct {
		Nonce int `json:"nonce"`
		Work  int `json:"work"`
	}
	mcp.AddTool(server, &mcp.Tool{Name: "work"}, func(ctx context.Context, req *mcp.CallToolRequest, a args) (*mcp.CallToolResult, any, error) {
		if spec.Nested && a.Nonce%3 == 0 {
			nctx, cancel := context.WithTimeout(ctx, 2*time.Second)
			req.Session.ListRoots(nctx, nil)
			cancel()
		}
		select {
		case <-time.After(ms(a.Work)):
		case <-ctx.Done():
		}
		return &mcp.CallToolResult{Content: []mcp.Content{&mcp.TextContent{Text: fmt.Sprintf("nonce-%d", a.Nonce)}}}, nil, nil
	})
	opts := &mcp.StreamableHTTPOptions{JSONResponse: spec.JSON, Stateless: spec.Stateless}
	if spec.Store {
		opts.EventStore = mcp.NewMemoryEventStore(nil)
	}
	// A sandbox without loopback sockets, or a machine too loaded to finish a wall-clock case, decides nothing about
	// the SDK and must not make the run inconclusive either: such a case is counted and skipped.
	var srv *httptest.Server
	func() {
		defer func() {
			if r := recover(); r != nil {
				c.Count("real_socket_cases_skipped_no_listener", 1)
			}
		}()
		srv = httptest.NewServer(mcp.NewStreamableHTTPHandler(func(*http.Request) *mcp.Server { return server }, opts))
	}()
	if srv == nil {
		return
	}
	tr := &http.Transport{MaxIdleConnsPerHost: 32}
	defer func() {
		tr.CloseIdleConnections()
		srv.CloseClientConnections()
		srv.Close()
	}()
	client := mcp.NewClient(&mcp.Implementation{Name: "c", Version: "1"}, nil)
	client.AddRoots(&mcp.Root{URI: "file:///r", Name: "r"})
	cs, err := client.Connect(ctx, &mcp.StreamableClientTransport{Endpoint: srv.URL, HTTPClient: &http.Client{Transport: tr}}, &mcp.ClientSessionOptions{ProtocolVersion: spec.Version})
	if err != nil {
		c.Count("real_socket_cases_skipped_connect_failed", 1)
		return
	}
	c.Seen("real_socket_setups", fmt.Sprintf("json=%v stateless=%v store=%v %s -> %s", spec.JSON, spec.Stateless, spec.Store, spec.Version, cs.InitializeResult().ProtocolVersion))
	var disturbed atomic.Bool // set just before the fault is injected
	var ok, failed, gaveUp atomic.Int64
	var wg sync.WaitGroup
	for k := 0; k < spec.Callers; k++ {
		wg.Add(1)
		go func() {
			defer wg.Done()
			defer c.Guard("")
			r := vh.NewRand(uint64(c.Index), uint64(k)+77)
			for j := 0; j < spec.PerCaller; j++ {
				n := k*100 + j + 1
				cctx, cancel := context.WithCancel(ctx)
				gives := r.Intn(100) < spec.CancelPct
				if gives {
					d := ms(r.Intn(4))
					go func() { time.Sleep(d); cancel() }()
				}
				before := disturbed.Load()
				res, err := cs.CallTool(cctx, &mcp.CallToolParams{Name: "work", Arguments: args{n, r.Intn(spec.WorkMs + 1)}})
				cancel()
				switch {
				case err == nil:
					text := ""
					if len(res.Content) == 1 {
						if tc, isText := res.Content[0].(*mcp.TextContent); isText {
							text = tc.Text
						}
					}
					if text != fmt.Sprintf("nonce-%d", n) {
						c.Violate("foreign-response", "real sockets: call %d completed with %q", n, text)
						return
					}
					ok.Add(1)
				case gives && errors.Is(err, context.Canceled):
					gaveUp.Add(1)
				case !before && !disturbed.Load() && spec.Fault != "client-close":
					// nothing had disturbed the session when the call returned
					c.Violate("unexpected-error", "real sockets: call %d failed with %v although nothing had disturbed the session (%+v)", n, err, spec)
					return
				default:
					failed.Add(1)
				}
			}
		}()
	}
	if spec.Fault != "none" {
		time.Sleep(ms(spec.FaultMs))
		disturbed.Store(true)
		switch spec.Fault {
		case "drop":
			srv.CloseClientConnections()
		case "server-close":
			for ss := range server.Sessions() {
				ss.Close()
			}
		case "client-close":
			cs.Close()
		}
	}
	wg.Wait()
	cs.Close()
	cs.Wait()
	// once the session has terminated a further call fails at once and names the connection as closed
	pctx, cancel := context.WithTimeout(ctx, 20*time.Second)
	_, err = cs.CallTool(pctx, &mcp.CallToolParams{Name: "work", Arguments: args{9999, 0}})
	cancel()
	if err == nil || !errors.Is(err, mcp.ErrConnectionClosed) {
		if pctx.Err() != nil {
			c.Count("real_socket_post_termination_call_not_back_within_20s", 1) // wall clock: counted, never judged
		} else {
			c.Violate("not-identified-as-closed", "real sockets: a call made after Close and Wait had returned came back with %v", err)
		}
		return
	}
	for ss := range server.Sessions() {
		ss.Close()
	}
	c.Count("real_socket_calls_ok", int(ok.Load()))
	c.Count("real_socket_calls_failed_after_fault", int(failed.Load()))
	c.Count("real_socket_calls_given_up", int(gaveUp.Load()))
	c.Count("post_termination_calls", 1)
	c.Seen("real_socket_faults", spec.Fault)
	if ok.Load()+failed.Load() >= 2 {
		c.Nontrivial(fmt.Sprintf("real:%v", spec))
	}
}
