//go:build verif

// C02 — every incoming call is answered exactly once, with its id echoed exactly.
//
// A hostile wire peer (raw bytes; nothing of the SDK on the sending side) talks
// to a real Server over ndjson pipes (IOTransport), the SSE handler and the
// streamable HTTP handler. Every byte the server emits is parsed by an
// independent decoder; the oracle counts responses per exact id (JSON type and
// decimal value) and checks the error class of each.
package mcpx

import (
	"bufio"
	"bytes"
	"context"
	"encoding/json"
	"errors"
	"fmt"
	"io"
	"math"
	"net/http"
	"runtime"
	"slices"
	"sort"
	"strings"
	"sync"
	"sync/atomic"
	"testing"
	"time"

	"github.com/modelcontextprotocol/go-sdk/internal/verifharness/vh"
	"github.com/modelcontextprotocol/go-sdk/internal/verifharness/vhm"
	"github.com/modelcontextprotocol/go-sdk/jsonrpc"
	"github.com/modelcontextprotocol/go-sdk/mcp"
)

type c02Msg struct {
	Raw   string `json:"raw"`
	ID    string `json:"id,omitempty"` // raw JSON of the id, "" for notifications
	Class string `json:"class"`
	Want  int    `json:"want"` // expected JSON-RPC error code, 0 = success
}

type c02Payload struct {
	Msgs  []c02Msg `json:"msgs"`
	Batch bool     `json:"batch,omitempty"`
	GapMs int      `json:"gap_ms"`           // virtual pause before sending
	DupOf string   `json:"dup_of,omitempty"` // deliberately reuses an id that is still in flight
	Pre   bool     `json:"pre,omitempty"`    // sent before the initialize handshake (stdio only)
}

type c02Spec struct {
	Transport string       `json:"transport"` // stdio | sse | http-sse | http-json
	Version   string       `json:"version"`
	Payloads  []c02Payload `json:"payloads"`
	// FlakyStore: the streamable handler has an event store whose Append fails every third time. Storing for
	// later replay is a service on top: a connected client still gets its answer.
	FlakyStore bool `json:"flaky_store,omitempty"`
}

type c02Resp struct {
	ID   string `json:"id"`
	Code int    `json:"code"`
	OK   bool   `json:"ok"`
	Via  int    `json:"via"` // payload index whose HTTP exchange carried it (-1: shared stream)
	Text string `json:"text,omitempty"`
}

var c02BigIDs = []string{"9007199254740993", "9007199254740992", "9007199254740991", "-9007199254740993", "9223372036854775807", "-9223372036854775808", "1152921504606846977"}

type c02Gen struct {
	r        *vh.Rand
	used     map[string]bool
	n        int
	noModern bool // the session batches (pre-2025-06-18): a request that moved it to 2026-07-28 would outlaw its later batches
}

func (g *c02Gen) freshID() string {
	for {
		var id string
		switch x := g.r.Intn(20); {
		case x < 8:
			id = fmt.Sprint(g.r.Range(1, 400))
		case x < 9:
			id = "0"
		case x < 10:
			id = fmt.Sprint(-g.r.Range(1, 50))
		case x < 13:
			id = c02BigIDs[g.r.Intn(len(c02BigIDs))]
		case x < 14:
			id = `""`
		case x < 16:
			id = fmt.Sprintf(`"%d"`, g.r.Range(1, 400)) // numeric-looking string
		case x < 18:
			id = fmt.Sprintf(`"req-%d-é✓"`, g.r.Range(1, 999))
		default:
			id = fmt.Sprintf(`"a\"b\\c%d<&>"`, g.r.Range(1, 99))
		}
		if !g.used[id] {
			g.used[id] = true
			return id
		}
	}
}

// c02AnyError: the response must be an error; which code is not checked here (C06 does).
const c02AnyError = -1

// c02AnyOutcome: exactly one response, result or error.
const c02AnyOutcome = -2

// c02ReqOrParams: the response must be the error -32600 or -32602 (params that are required are missing:
// the statement names both codes for structurally invalid requests).
const c02ReqOrParams = -3

// clientCall is call() for the other direction: requests a server may send to a client.
func (g *c02Gen) clientCall(id string) c02Msg {
	g.n++
	r := g.r
	mk := func(class string, want int, method, params string) c02Msg {
		raw := fmt.Sprintf(`{"jsonrpc":"2.0","id":%s,"method":%q`, id, method)
		if params != "-" {
			raw += `,"params":` + params
		}
		return c02Msg{Raw: raw + "}", ID: id, Class: class, Want: want}
	}
	sampling := func() string {
		return fmt.Sprintf(`{"messages":[{"role":"user","content":{"type":"text","text":"n%d"}}],"maxTokens":%d}`, g.n, 100+r.Intn(6))
	}
	switch x := r.Intn(24); {
	case x < 4:
		return mk("call-ok", 0, "sampling/createMessage", sampling())
	case x < 6:
		return mk("call-ok", 0, "elicitation/create", r.Choose(`{"message":"m","requestedSchema":{"type":"object","properties":{"a":{"type":"string"}}}}`, `{"mode":"form","message":"m","requestedSchema":{"type":"object","properties":{}}}`))
	case x < 8:
		return mk("call-ok", 0, "ping", r.Choose("-", "{}", "null"))
	case x < 10:
		return mk("call-ok", 0, "roots/list", r.Choose("-", "{}", "null"))
	case x < 13:
		return mk("unknown-method", -32601, r.Choose("foo/bar", "tools/list", "", "SAMPLING/CREATEMESSAGE", "initialize", "notifications/nope"), r.Choose("-", "{}", "[1,2]"))
	case x < 16:
		if r.Bool() {
			return mk("bad-params", -32602, "sampling/createMessage", r.Choose(`{"messages":5}`, `[1,2]`, `"str"`, `17`, `{"messages":[{"role":"user","content":{"type":"nope"}}],"maxTokens":1}`))
		}
		return mk("bad-params", -32602, "elicitation/create", r.Choose(`{"message":["m"]}`, `[1,2]`, `"str"`, `17`, `{"message":5}`))
	case x == 18:
		// null where an object is expected, inside otherwise well-formed params: answered once (a result or an error,
		// the statement does not say which), and the client survives it
		if r.Bool() {
			return mk("null-elements", c02AnyOutcome, "sampling/createMessage", r.Choose(`{"messages":[null],"maxTokens":1}`, `{"messages":[{"role":"user","content":null}],"maxTokens":1}`,
				`{"messages":[null,{"role":"user","content":{"type":"text","text":"x"}}],"maxTokens":1}`, `{"messages":[{"role":"user","content":[null]}],"maxTokens":1}`, `{"messages":null,"maxTokens":1}`))
		}
		return mk("null-elements", c02AnyOutcome, "elicitation/create", r.Choose(`{"message":"m","requestedSchema":null}`, `{"message":"m","requestedSchema":{"type":"object","properties":{"a":null}}}`,
			`{"mode":"url","message":"m","url":null,"elicitationId":null}`, `{"mode":null,"message":"m"}`))
	case x < 19:
		return mk("missing-params", c02ReqOrParams, r.Choose("sampling/createMessage", "elicitation/create", "elicitation/create"), r.Choose("-", "null"))
	default:
		return mk("id-on-notification", -32600, r.Choose("notifications/message", "notifications/progress", "notifications/cancelled", "notifications/tools/list_changed", "notifications/resources/updated", "notifications/elicitation/complete"), r.Choose("-", "{}", `{"requestId":12345}`))
	}
}

func (g *c02Gen) clientNotif() c02Msg {
	r := g.r
	switch x := r.Intn(12); {
	case x < 3:
		return c02Msg{Raw: fmt.Sprintf(`{"jsonrpc":"2.0","method":"notifications/progress","params":{"progressToken":"t%d","progress":%d}}`, r.Intn(9), r.Intn(9)), Class: "notif"}
	case x < 5:
		return c02Msg{Raw: fmt.Sprintf(`{"jsonrpc":"2.0","method":"notifications/message","params":{"level":"info","data":%d}}`, r.Intn(9)), Class: "notif"}
	case x < 7:
		return c02Msg{Raw: fmt.Sprintf(`{"jsonrpc":"2.0","method":%q}`, r.Choose("notifications/tools/list_changed", "notifications/prompts/list_changed", "notifications/resources/list_changed")), Class: "notif"}
	case x < 9:
		// notifications whose params are absent or null: nothing to answer, nothing may break
		return c02Msg{Raw: fmt.Sprintf(`{"jsonrpc":"2.0","method":%q%s}`, r.Choose("notifications/message", "notifications/progress", "notifications/resources/updated", "notifications/elicitation/complete", "notifications/cancelled"), r.Choose("", `,"params":null`)), Class: "notif"}
	case x < 10:
		return c02Msg{Raw: `{"jsonrpc":"2.0","method":"notifications/cancelled","params":{"requestId":987654}}`, Class: "notif"}
	case x < 11:
		return c02Msg{Raw: `{"jsonrpc":"2.0","method":"notifications/unknown-thing","params":{}}`, Class: "unknown-notif"}
	default:
		return c02Msg{Raw: fmt.Sprintf(`{"jsonrpc":"2.0","method":%q,"params":{}}`, r.Choose("roots/list", "ping", "foo/bar")), Class: "call-without-id"}
	}
}

// genC02Client: the raw peer plays the server of a real Client (every handler installed) over ndjson pipes.
func genC02Client(r *vh.Rand) c02Spec {
	s := c02Spec{Transport: "stdio-client"}
	s.Version = r.Choose("2025-03-26", "2024-11-05", "2025-06-18", "2025-11-25")
	batchOK := s.Version <= "2025-03-26"
	g := &c02Gen{r: r, used: map[string]bool{`"init"`: true, `"final-ping"`: true}}
	n := r.Range(2, 10)
	for i := 0; i < n; i++ {
		p := c02Payload{GapMs: r.Intn(4)}
		if batchOK && r.Chance(2, 5) {
			p.Batch = true
			k := r.Range(1, 5)
			for j := 0; j < k; j++ {
				if r.Chance(1, 3) {
					p.Msgs = append(p.Msgs, g.clientNotif())
				} else {
					p.Msgs = append(p.Msgs, g.clientCall(g.freshID()))
				}
			}
		} else if r.Chance(1, 4) {
			p.Msgs = []c02Msg{g.clientNotif()}
		} else {
			p.Msgs = []c02Msg{g.clientCall(g.freshID())}
		}
		s.Payloads = append(s.Payloads, p)
	}
	return s
}

func (g *c02Gen) call(id string) c02Msg {
	g.n++
	r := g.r
	mk := func(class string, want int, method, params string) c02Msg {
		raw := fmt.Sprintf(`{"jsonrpc":"2.0","id":%s,"method":%q`, id, method)
		if params != "-" {
			raw += `,"params":` + params
		}
		return c02Msg{Raw: raw + "}", ID: id, Class: class, Want: want}
	}
	x0 := r.Intn(28)
	if g.noModern && x0 >= 26 {
		x0 = r.Intn(24)
	}
	switch x := x0; {
	case x >= 26:
		// complete per-request metadata (clientInfo is optional): answered exactly once, whatever the transport makes of it
		meta := r.Choose(`"io.modelcontextprotocol/clientCapabilities":{}`, `"io.modelcontextprotocol/clientCapabilities":{},"io.modelcontextprotocol/clientInfo":{"name":"m","version":"1"}`)
		return mk("meta-ok", c02AnyOutcome, r.Choose("tools/list", "server/discover", "server/discover", "prompts/list"), `{"_meta":{"io.modelcontextprotocol/protocolVersion":"2026-07-28",`+meta+`}}`)
	case x >= 24:
		// per-request metadata that cannot be accepted: some error, exactly once, never a crash
		meta := r.Choose(`"io.modelcontextprotocol/clientCapabilities":null`, `"io.modelcontextprotocol/clientCapabilities":"yes"`,
			`"io.modelcontextprotocol/clientCapabilities":{},"io.modelcontextprotocol/clientInfo":17`, `"io.modelcontextprotocol/clientInfo":null`,
			`"io.modelcontextprotocol/clientCapabilities":[],"io.modelcontextprotocol/clientInfo":null`)
		return mk("bad-meta", c02AnyError, r.Choose("tools/list", "tools/call", "server/discover", "ping"), `{"_meta":{"io.modelcontextprotocol/protocolVersion":"2026-07-28",`+meta+`},"name":"echo","arguments":{}}`)
	case x == 7 && r.Bool():
		// a handler whose error carries data that is not JSON: the request is still owed its one response, an error
		return mk("unencodable-error-data", c02AnyError, "prompts/get", `{"name":"baderr"}`)
	case x == 7:
		// a handler whose result cannot be put on the wire (NaN): the request is still owed its one response, an error
		return mk("unencodable-result", c02AnyError, "tools/call", `{"name":"nan","arguments":{}}`)
	case x < 8:
		return mk("call-ok", 0, "tools/call", fmt.Sprintf(`{"name":"echo","arguments":{"nonce":%d,"delay":%d}}`, g.n, r.Intn(6)))
	case x < 10:
		return mk("call-ok", 0, "ping", r.Choose("-", "{}", "null"))
	case x < 12:
		return mk("call-ok", 0, r.Choose("tools/list", "prompts/list", "resources/list", "resources/templates/list"), r.Choose("-", "{}", `{"cursor":""}`))
	case x == 14:
		// reading a resource that does not exist, under URIs a JSON string may legally hold (control bytes, quotes,
		// non-ASCII): an error, exactly once, and the session goes on
		return mk("no-such-resource", c02AnyError, "resources/read", `{"uri":`+r.Choose(`"file:///nope"`, `"file:///a\u007fb\u0001"`, `"file:///caf\u00e9"`, `"file:///q\"uote"`, `"file:///tab\there"`, `"file:///\ud83d\ude00"`, `"file:///back\\slash"`, `""`)+`}`)
	case x < 15:
		return mk("unknown-method", -32601, r.Choose("foo/bar", "tools/call2", "", "TOOLS/LIST", "notifications/nope"), r.Choose("-", "{}", "[1,2]"))
	case x < 18:
		// incl. member names that differ from the protocol's only in letter case: they are not the real ones
		return mk("bad-params", -32602, "tools/call", r.Choose(`{"name":5}`, `[1,2]`, `"str"`, `{"name":["echo"]}`, `17`, `{"Name":"echo","arguments":{}}`, `{"NAME":"echo"}`, `{"name":"no-such-tool","Name":"echo","arguments":{}}`))
	case x < 20:
		return mk("missing-params", -32600, r.Choose("tools/call", "prompts/get", "resources/read"), r.Choose("-", "null"))
	default:
		return mk("id-on-notification", -32600, r.Choose("notifications/initialized", "notifications/progress", "notifications/cancelled", "notifications/roots/list_changed"), r.Choose("-", "{}", `{"requestId":12345}`))
	}
}

func (g *c02Gen) notif() c02Msg {
	r := g.r
	switch x := r.Intn(10); {
	case x < 4:
		return c02Msg{Raw: fmt.Sprintf(`{"jsonrpc":"2.0","method":"notifications/progress","params":{"progressToken":"t%d","progress":%d}}`, r.Intn(9), r.Intn(9)), Class: "notif"}
	case x < 6:
		return c02Msg{Raw: `{"jsonrpc":"2.0","method":"notifications/roots/list_changed"}`, Class: "notif"}
	case x < 7:
		return c02Msg{Raw: `{"jsonrpc":"2.0","method":"notifications/cancelled","params":{"requestId":987654}}`, Class: "notif"}
	case x < 8:
		return c02Msg{Raw: `{"jsonrpc":"2.0","method":"notifications/unknown-thing","params":{}}`, Class: "unknown-notif"}
	default:
		return c02Msg{Raw: fmt.Sprintf(`{"jsonrpc":"2.0","method":%q,"params":{}}`, r.Choose("tools/list", "ping", "foo/bar")), Class: "call-without-id"}
	}
}

func genC02(r *vh.Rand, idx int) c02Spec {
	s := c02Spec{Transport: []string{"stdio", "stdio", "sse", "http-sse", "http-json"}[r.Intn(5)]}
	s.Version = r.Choose("2025-03-26", "2025-03-26", "2024-11-05", "2025-06-18", "2025-11-25")
	if idx%7 == 3 && strings.HasPrefix(s.Transport, "http-") {
		// a stateless endpoint: every POST is served by a session of its own, there is no handshake and no session id
		s.Transport = strings.Replace(s.Transport, "http-", "http-stateless-", 1)
	}
	batchOK := s.Version <= "2025-03-26" && s.Transport != "sse"
	g := &c02Gen{r: r, used: map[string]bool{`"init"`: true, `"final-ping"`: true}, noModern: batchOK}
	n := r.Range(2, 10)
	for i := 0; i < n; i++ {
		p := c02Payload{GapMs: r.Intn(4)}
		if batchOK && r.Chance(2, 5) {
			p.Batch = true
			k := r.Range(1, 5)
			for j := 0; j < k; j++ {
				if r.Chance(1, 3) {
					p.Msgs = append(p.Msgs, g.notif())
				} else {
					p.Msgs = append(p.Msgs, g.call(g.freshID()))
				}
			}
		} else if r.Chance(1, 4) {
			p.Msgs = []c02Msg{g.notif()}
		} else {
			p.Msgs = []c02Msg{g.call(g.freshID())}
		}
		s.Payloads = append(s.Payloads, p)
	}
	// id reuse after completion
	if r.Chance(1, 3) {
		var done []string
		for _, p := range s.Payloads {
			for _, m := range p.Msgs {
				if m.ID != "" {
					done = append(done, m.ID)
				}
			}
		}
		if len(done) > 0 {
			s.Payloads = append(s.Payloads, c02Payload{GapMs: 40, Msgs: []c02Msg{g.call(done[r.Intn(len(done))])}})
		}
	}
	// duplicate id while still in flight (separate finding class)
	if r.Chance(1, 25) {
		id := g.freshID()
		slow := c02Msg{Raw: fmt.Sprintf(`{"jsonrpc":"2.0","id":%s,"method":"tools/call","params":{"name":"echo","arguments":{"nonce":77777,"delay":30}}}`, id), ID: id, Class: "call-ok"}
		dup := c02Msg{Raw: fmt.Sprintf(`{"jsonrpc":"2.0","id":%s,"method":"ping"}`, id), ID: id, Class: "dup-inflight"}
		s.Payloads = append(s.Payloads, c02Payload{GapMs: 1, Msgs: []c02Msg{slow}}, c02Payload{GapMs: 2, Msgs: []c02Msg{dup}, DupOf: id})
	}
	// a batch of fresh ids plus a duplicate of an in-flight id; afterwards the fresh ids are used on their own:
	// whatever happened to the batch, ids that were never accepted must still be usable
	if batchOK && r.Chance(1, 20) {
		x, a, b := g.freshID(), g.freshID(), g.freshID()
		slow := c02Msg{Raw: fmt.Sprintf(`{"jsonrpc":"2.0","id":%s,"method":"tools/call","params":{"name":"echo","arguments":{"nonce":88888,"delay":30}}}`, x), ID: x, Class: "call-ok"}
		ping := func(id, class string) c02Msg {
			return c02Msg{Raw: fmt.Sprintf(`{"jsonrpc":"2.0","id":%s,"method":"ping"}`, id), ID: id, Class: class}
		}
		members := []c02Msg{ping(a, "call-ok"), ping(b, "call-ok"), ping(x, "dup-inflight")}
		if r.Bool() {
			members[0], members[2] = members[2], members[0]
		}
		s.Payloads = append(s.Payloads,
			c02Payload{GapMs: 1, Msgs: []c02Msg{slow}},
			c02Payload{GapMs: 2, Batch: true, Msgs: members, DupOf: x},
			c02Payload{GapMs: 60, Msgs: []c02Msg{ping(a, "call-ok")}},
			c02Payload{GapMs: 1, Msgs: []c02Msg{ping(b, "call-ok")}})
	}
	// a call that is cancelled while it still waits in the queue behind a slow notification handler: it is
	// answered exactly once all the same (with a result or an error)
	if r.Chance(1, 6) {
		id := g.freshID()
		s.Payloads = append(s.Payloads,
			c02Payload{GapMs: 30, Msgs: []c02Msg{{Raw: `{"jsonrpc":"2.0","method":"notifications/progress","params":{"progressToken":"slow","progress":99}}`, Class: "notif"}}},
			c02Payload{GapMs: 0, Msgs: []c02Msg{{Raw: fmt.Sprintf(`{"jsonrpc":"2.0","id":%s,"method":%s}`, id, r.Choose(`"ping"`, `"tools/list"`, `"tools/call","params":{"name":"echo","arguments":{"nonce":4242,"delay":1}}`)), ID: id, Class: "cancelled-while-queued", Want: c02AnyOutcome}}},
			c02Payload{GapMs: 0, Msgs: []c02Msg{{Raw: fmt.Sprintf(`{"jsonrpc":"2.0","method":"notifications/cancelled","params":{"requestId":%s,"reason":"gave up"}}`, id), Class: "notif"}}})
	}
	// requests that arrive before the handshake: a broken initialize must be rejected with the standard
	// code and must not spoil the real one that follows
	if s.Transport == "stdio" && r.Chance(1, 5) {
		var pre []c02Payload
		for k := r.Range(1, 3); k > 0; k-- {
			id := g.freshID()
			var m c02Msg
			switch r.Intn(4) {
			case 0:
				m = c02Msg{Raw: fmt.Sprintf(`{"jsonrpc":"2.0","id":%s,"method":"initialize","params":%s}`, id, r.Choose(`[1,2]`, `"str"`, `{"protocolVersion":5}`, `{"capabilities":[]}`, `17`)), ID: id, Class: "bad-params", Want: -32602}
			case 1:
				m = c02Msg{Raw: fmt.Sprintf(`{"jsonrpc":"2.0","id":%s,"method":"initialize"%s}`, id, r.Choose("", `,"params":null`)), ID: id, Class: "missing-params", Want: c02ReqOrParams}
			case 2:
				m = c02Msg{Raw: fmt.Sprintf(`{"jsonrpc":"2.0","id":%s,"method":"ping"}`, id), ID: id, Class: "call-ok"}
			default:
				m = c02Msg{Raw: fmt.Sprintf(`{"jsonrpc":"2.0","id":%s,"method":"foo/bar"}`, id), ID: id, Class: "unknown-method", Want: c02AnyError} // rejected for the lifecycle's sake (C06 decides the code)
			}
			pre = append(pre, c02Payload{Pre: true, Msgs: []c02Msg{m}})
		}
		s.Payloads = append(pre, s.Payloads...)
	}
	if s.Transport == "http-sse" && r.Chance(1, 3) {
		s.FlakyStore = true
	}
	return s
}

func TestVerifC02(t *testing.T) {
	cfg := vh.Config{
		Property: "C02",
		Cases:    vh.Pick(2500, 80000),
		Rule: "each case: a raw wire peer sends 2..12 payloads (single messages or, under protocol <= 2025-03-26, batches of 1..5 mixed calls/notifications) to a real Server over ndjson pipes, the SSE handler or the streamable handler (SSE or JSON responses); " +
			"messages: known calls (echo tool with 0..5 ms delay so completion order permutes), unknown methods, undecodable params, missing params, ids on notification-only methods, notifications (known/unknown), call methods without id; " +
			"ids: small, 0, negative, +-2^53+-1, int64 min/max, empty/unicode/escaped/numeric-looking strings, reuse after completion, (1/25) reuse while in flight; ends with a fresh-id ping. " +
			"non-trivial: >=2 calls in flight together or a batch, and >=1 rejected message. distinct = distinct (transport, class sequence, batch shape) signatures",
		MinNontrivial: 100,
		Assumptions:   []string{"envelopes are well-formed JSON-RPC 2.0", "an HTTP POST answered 4xx rejects all of its members (pre-validation)", "batch responses need not be grouped into one array"},
	}
	vh.Run(t, cfg, func(c *vh.Case) {
		var spec c02Spec
		if c.Index%6 == 5 {
			spec = genC02Client(c.R)
		} else {
			spec = genC02(c.R, c.Index)
		}
		c.SetSpec(spec)
		var resps []c02Resp
		var statuses map[int]int
		ok := c.Bubble("", func() { resps, statuses = runC02(c, spec) })
		if ok {
			decideC02(c, spec, resps, statuses)
		}
	})
}

func c02Server() *mcp.Server {
	s := mcp.NewServer(&mcp.Implementation{Name: "verif", Version: "1"}, &mcp.ServerOptions{
		// progress value 99 marks a notification whose (synchronous) handler takes a while: later messages queue behind it
		ProgressNotificationHandler: func(_ context.Context, req *mcp.ProgressNotificationServerRequest) {
			if req.Params != nil && req.Params.Progress == 99 {
				time.Sleep(ms(5))
			}
		},
	})
	s.AddTool(&mcp.Tool{Name: "echo", InputSchema: json.RawMessage(`{"type":"object"}`)}, func(ctx context.Context, req *mcp.CallToolRequest) (*mcp.CallToolResult, error) {
		var a struct {
			Nonce int `json:"nonce"`
			Delay int `json:"delay"`
		}
		json.Unmarshal(req.Params.Arguments, &a)
		if a.Nonce%3 == 0 {
			// a handler that reports on its request before it answers: wherever that notification goes, the request
			// still gets its one response, in the shape of a response
			req.Session.NotifyProgress(ctx, &mcp.ProgressNotificationParams{ProgressToken: "echo", Progress: 1, Message: "working"})
		}
		if a.Delay > 0 {
			select {
			case <-time.After(ms(a.Delay)):
			case <-ctx.Done():
			}
		}
		return &mcp.CallToolResult{Content: []mcp.Content{&mcp.TextContent{Text: fmt.Sprintf("nonce-%d", a.Nonce)}}}, nil
	})
	s.AddTool(&mcp.Tool{Name: "nan", InputSchema: json.RawMessage(`{"type":"object"}`)}, func(ctx context.Context, req *mcp.CallToolRequest) (*mcp.CallToolResult, error) {
		return &mcp.CallToolResult{Content: []mcp.Content{&mcp.TextContent{Text: "x"}}, StructuredContent: map[string]any{"x": math.NaN()}}, nil
	})
	s.AddResource(&mcp.Resource{URI: "file:///r", Name: "r"}, func(context.Context, *mcp.ReadResourceRequest) (*mcp.ReadResourceResult, error) {
		return &mcp.ReadResourceResult{Contents: []*mcp.ResourceContents{{URI: "file:///r", Text: "x"}}}, nil
	})
	s.AddPrompt(&mcp.Prompt{Name: "baderr"}, func(context.Context, *mcp.GetPromptRequest) (*mcp.GetPromptResult, error) {
		return nil, &jsonrpc.Error{Code: 5, Message: "x", Data: json.RawMessage("{bad")}
	})
	s.AddPrompt(&mcp.Prompt{Name: "p"}, func(context.Context, *mcp.GetPromptRequest) (*mcp.GetPromptResult, error) {
		return &mcp.GetPromptResult{}, nil
	})
	return s
}

// chunkWriter forwards each Write as several smaller writes and yields in
// between. It has no state of its own, so it is safe for concurrent use, but
// it does not make concurrent writes atomic.
type chunkWriter struct {
	w io.WriteCloser
	n int
}

func (cw *chunkWriter) Write(p []byte) (int, error) {
	total := 0
	for len(p) > 0 {
		k := min(cw.n, len(p))
		n, err := cw.w.Write(p[:k])
		total += n
		if err != nil {
			return total, err
		}
		p = p[k:]
		runtime.Gosched()
	}
	return total, nil
}

func (cw *chunkWriter) Close() error { return cw.w.Close() }

type c02Collector struct {
	mu    sync.Mutex
	resps []c02Resp
	stat  map[int]int
	junk  []string
}

// absorb parses one JSON text emitted by the server (object or array of objects).
func (k *c02Collector) absorb(data []byte, via int) {
	data = bytes.TrimSpace(data)
	if len(data) == 0 {
		return
	}
	var items []json.RawMessage
	if data[0] == '[' {
		if err := json.Unmarshal(data, &items); err != nil {
			k.mu.Lock()
			k.junk = append(k.junk, string(data))
			k.mu.Unlock()
			return
		}
	} else {
		items = []json.RawMessage{data}
	}
	for _, it := range items {
		var m struct {
			ID     json.RawMessage `json:"id"`
			Method *string         `json:"method"`
			Result json.RawMessage `json:"result"`
			Error  *struct {
				Code int `json:"code"`
			} `json:"error"`
		}
		dec := json.NewDecoder(bytes.NewReader(it))
		dec.UseNumber()
		if err := dec.Decode(&m); err != nil {
			k.mu.Lock()
			k.junk = append(k.junk, string(it))
			k.mu.Unlock()
			continue
		}
		if m.Method != nil {
			continue // server->client request or notification
		}
		r := c02Resp{ID: canonID(m.ID), Via: via}
		if m.Error != nil {
			r.Code = m.Error.Code
		} else {
			r.OK = true
			if len(m.Result) < 200 {
				r.Text = string(m.Result)
			}
		}
		k.mu.Lock()
		k.resps = append(k.resps, r)
		k.mu.Unlock()
	}
}

// canonID keeps integers as their exact decimal text and strings as `s:<decoded>`.
func canonID(raw json.RawMessage) string {
	raw = bytes.TrimSpace(raw)
	if len(raw) == 0 {
		return "absent"
	}
	if raw[0] == '"' {
		var s string
		json.Unmarshal(raw, &s)
		return "s:" + s
	}
	return "n:" + string(raw)
}

func runC02(c *vh.Case, spec c02Spec) ([]c02Resp, map[int]int) {
	ctx := context.Background()
	server := c02Server()
	// an application that registers further methods of its own while the server is already serving
	if c.R.Chance(1, 4) {
		stopReg := make(chan struct{})
		regDone := make(chan struct{})
		go func() {
			defer close(regDone)
			for i := 0; i < 12; i++ {
				select {
				case <-stopReg:
					return
				case <-time.After(ms(1 + i%3)):
				}
				mcp.AddReceivingCustomMethod(server, fmt.Sprintf("acme/dynamic-%d", i), func(context.Context, *mcp.ServerSession, *c02DynParams) (*c02DynResult, error) {
					return &c02DynResult{}, nil
				})
			}
		}()
		defer func() { close(stopReg); <-regDone }()
		c.Count("cases_registering_methods_while_serving", 1)
	}
	col := &c02Collector{stat: map[int]int{}}
	initMsg := fmt.Sprintf(`{"jsonrpc":"2.0","id":"init","method":"initialize","params":{"protocolVersion":%q,"capabilities":{},"clientInfo":{"name":"raw","version":"0"}}}`, spec.Version)
	initdMsg := `{"jsonrpc":"2.0","method":"notifications/initialized"}`
	finalPing := `{"jsonrpc":"2.0","id":"final-ping","method":"ping"}`
	encode := func(p c02Payload) string {
		if !p.Batch {
			return p.Msgs[0].Raw
		}
		var parts []string
		for _, m := range p.Msgs {
			parts = append(parts, m.Raw)
		}
		return "[" + strings.Join(parts, ",") + "]"
	}
	var wg sync.WaitGroup
	switch spec.Transport {
	case "stdio-client":
		client := mcp.NewClient(&mcp.Implementation{Name: "verif", Version: "1"}, &mcp.ClientOptions{
			CreateMessageHandler: func(ctx context.Context, req *mcp.CreateMessageRequest) (*mcp.CreateMessageResult, error) {
				if d := req.Params.MaxTokens - 100; d > 0 {
					select {
					case <-time.After(ms(int(d))):
					case <-ctx.Done():
					}
				}
				return &mcp.CreateMessageResult{Model: "m", Role: "assistant", Content: &mcp.TextContent{Text: "ok"}}, nil
			},
			ElicitationHandler: func(ctx context.Context, req *mcp.ElicitRequest) (*mcp.ElicitResult, error) {
				return &mcp.ElicitResult{Action: "decline"}, nil
			},
			LoggingMessageHandler:       func(context.Context, *mcp.LoggingMessageRequest) {},
			ProgressNotificationHandler: func(context.Context, *mcp.ProgressNotificationClientRequest) {},
			ToolListChangedHandler:      func(context.Context, *mcp.ToolListChangedRequest) {},
			PromptListChangedHandler:    func(context.Context, *mcp.PromptListChangedRequest) {},
			ResourceListChangedHandler:  func(context.Context, *mcp.ResourceListChangedRequest) {},
			ResourceUpdatedHandler:      func(context.Context, *mcp.ResourceUpdatedNotificationRequest) {},
			ElicitationCompleteHandler:  func(context.Context, *mcp.ElicitationCompleteNotificationRequest) {},
		})
		client.AddRoots(&mcp.Root{URI: "file:///r", Name: "r"})
		sr, cw := io.Pipe() // client -> harness
		cr, sw := io.Pipe() // harness -> client
		send := func(s string) bool {
			_, err := sw.Write([]byte(s + "\n"))
			return err == nil
		}
		initSeen := make(chan struct{})
		readerDone := make(chan struct{})
		go func() {
			defer close(readerDone)
			sc := bufio.NewScanner(sr)
			sc.Buffer(make([]byte, 1<<20), 1<<20)
			for sc.Scan() {
				line := append([]byte(nil), sc.Bytes()...)
				var m struct {
					ID     json.RawMessage `json:"id"`
					Method string          `json:"method"`
				}
				if json.Unmarshal(line, &m) == nil && m.Method == "initialize" {
					go send(fmt.Sprintf(`{"jsonrpc":"2.0","id":%s,"result":{"protocolVersion":%q,"capabilities":{},"serverInfo":{"name":"raw","version":"0"}}}`, m.ID, spec.Version))
					continue
				}
				if m.Method == "notifications/initialized" {
					close(initSeen)
				}
				col.absorb(line, -1)
			}
		}()
		cs, err := client.Connect(ctx, &mcp.IOTransport{Reader: cr, Writer: &chunkWriter{w: cw, n: 1 + c.Index%13}}, &mcp.ClientSessionOptions{ProtocolVersion: spec.Version})
		if err != nil {
			c.Inconclusive("client connect: %v", err)
			sw.Close()
			cw.Close()
			return nil, nil
		}
		<-initSeen
		time.Sleep(ms(1))
		for i, p := range spec.Payloads {
			time.Sleep(ms(p.GapMs))
			if !send(encode(p)) {
				c.Log.Add("send-failed", "payload", i)
			}
			c.Log.Add("sent", "payload", i)
		}
		time.Sleep(ms(100))
		send(finalPing)
		time.Sleep(ms(50))
		sw.Close()
		cs.Wait()
		cw.Close()
		<-readerDone
		c.Log.Add("session-ended")
	case "stdio":
		cr, sw := io.Pipe() // server -> harness
		sr, cw := io.Pipe() // harness -> server
		// The server's writer splits every Write into small chunks (as a framing or
		// compressing wrapper would): messages stay intact only if the SDK serialises
		// whole-message writes itself.
		ss, err := server.Connect(ctx, &mcp.IOTransport{Reader: sr, Writer: &chunkWriter{w: sw, n: 1 + c.Index%13}}, nil)
		if err != nil {
			c.Inconclusive("connect: %v", err)
			return nil, nil
		}
		readerDone := make(chan struct{})
		go func() {
			defer close(readerDone)
			sc := bufio.NewScanner(cr)
			sc.Buffer(make([]byte, 1<<20), 1<<20)
			for sc.Scan() {
				col.absorb(append([]byte(nil), sc.Bytes()...), -1)
			}
		}()
		// how this peer ends its lines: blanks before the newline are insignificant whitespace to JSON, and the message
		// in front of them is as well-formed as without them
		eol := []string{"\n", "\n", "\n", " \n", "\r\n", " \r\n", "\t\n"}[c.Index%7]
		c.Seen("line_endings", fmt.Sprintf("%q", eol))
		send := func(s string) bool {
			_, err := cw.Write([]byte(strings.ReplaceAll(s, "\n", eol) + eol))
			return err == nil
		}
		for i, p := range spec.Payloads {
			if p.Pre {
				send(encode(p))
				c.Log.Add("sent", "payload", i, "pre", true)
			}
		}
		send(initMsg)
		send(initdMsg)
		time.Sleep(ms(1))
		for i, p := range spec.Payloads {
			if p.Pre {
				continue
			}
			time.Sleep(ms(p.GapMs))
			if !send(encode(p)) {
				c.Log.Add("send-failed", "payload", i)
			}
			c.Log.Add("sent", "payload", i)
		}
		time.Sleep(ms(100))
		send(finalPing)
		time.Sleep(ms(50))
		if c.Index%4 == 1 {
			// a line that is JSON but no message at all: whatever the session makes of it, the process survives
			send([]string{"[]", "[ ]", "null", "[null]", "{}", "[[]]"}[(c.Index/4)%6])
			time.Sleep(ms(5))
		}
		cw.Close()
		ss.Wait()
		sw.Close()
		<-readerDone
		c.Log.Add("session-ended")
	case "sse":
		h := mcp.NewSSEHandler(func(*http.Request) *mcp.Server { return server }, nil)
		ip := &vhm.InProc{Handler: h}
		gctx, gcancel := context.WithCancel(ctx)
		req, _ := http.NewRequestWithContext(gctx, "GET", "http://example.test/sse", nil)
		resp, err := ip.RoundTrip(req)
		if err != nil || resp.StatusCode != 200 {
			c.Inconclusive("sse GET failed: %v", err)
			gcancel()
			return nil, nil
		}
		endpoint := make(chan string, 1)
		wg.Add(1)
		go func() {
			defer wg.Done()
			vhm.ReadSSE(resp.Body, func(e vhm.SSEvent) {
				if e.Name == "endpoint" {
					endpoint <- e.Data
					return
				}
				col.absorb([]byte(e.Data), -1)
			})
		}()
		ep := <-endpoint
		post := func(i int, body string) {
			st, _, _, err := ip.Do(ctx, "POST", "http://example.test"+ep, map[string]string{"Content-Type": "application/json"}, []byte(body))
			if err != nil {
				st = -1
			}
			if i >= 0 {
				col.mu.Lock()
				col.stat[i] = st
				col.mu.Unlock()
			}
		}
		post(-1, initMsg)
		post(-1, initdMsg)
		time.Sleep(ms(1))
		for i, p := range spec.Payloads {
			time.Sleep(ms(p.GapMs))
			post(i, encode(p))
			c.Log.Add("sent", "payload", i)
		}
		time.Sleep(ms(100))
		post(-2, finalPing)
		time.Sleep(ms(50))
		gcancel()
		resp.Body.Close()
		wg.Wait()
		ip.Wait()
	default: // streamable
		stateless := strings.Contains(spec.Transport, "stateless")
		ho := &mcp.StreamableHTTPOptions{JSONResponse: strings.HasSuffix(spec.Transport, "json"), Stateless: stateless}
		if spec.FlakyStore {
			ho.EventStore = &c02FlakyStore{EventStore: mcp.NewMemoryEventStore(nil)}
		}
		h := mcp.NewStreamableHTTPHandler(func(*http.Request) *mcp.Server { return server }, ho)
		ip := &vhm.InProc{Handler: h}
		hdr := map[string]string{"Content-Type": "application/json", "Accept": "application/json, text/event-stream"}
		var st int
		var rh http.Header
		var body []byte
		var err error
		if !stateless {
			st, rh, body, err = ip.Do(ctx, "POST", "http://example.test/mcp", hdr, []byte(initMsg))
			if err != nil || st != 200 {
				c.Inconclusive("initialize POST: %d %v %s", st, err, body)
				return nil, nil
			}
			sid := rh.Get("Mcp-Session-Id")
			hdr["Mcp-Session-Id"] = sid
		}
		if c.R.Bool() || spec.Version >= "2025-06-18" {
			hdr["Mcp-Protocol-Version"] = spec.Version
		}
		absorbHTTP := func(i int, st int, rh http.Header, body []byte) {
			if i >= 0 {
				col.mu.Lock()
				col.stat[i] = st
				col.mu.Unlock()
			}
			ct := rh.Get("Content-Type")
			switch {
			case strings.HasPrefix(ct, "text/event-stream"):
				for _, e := range vhm.ParseSSEBytes(body) {
					if e.Name == "message" || e.Name == "" {
						col.absorb([]byte(e.Data), i)
					}
				}
			case strings.HasPrefix(ct, "application/json"):
				if t := bytes.TrimSpace(body); i >= 0 && !spec.Payloads[i].Batch && len(t) > 0 && t[0] == '[' {
					c.Violate("response-shape", "payload %d is one message, not a batch, yet its POST (HTTP %d, %s) is answered with a JSON array: %s", i, st, spec.Transport, trunc80(string(t)))
				}
				// one JSON value and nothing after it (a second answer appended to a refusal would hide there)
				if dec := json.NewDecoder(bytes.NewReader(body)); len(bytes.TrimSpace(body)) > 0 {
					var first json.RawMessage
					if dec.Decode(&first) == nil {
						if rest, _ := io.ReadAll(io.MultiReader(dec.Buffered(), bytes.NewReader(nil))); len(bytes.TrimSpace(rest)) > 0 || dec.More() {
							c.Violate("response-shape", "payload %d (HTTP %d, %s): the application/json body holds more than one JSON value: %s", i, st, spec.Transport, trunc80(string(body)))
						}
					}
				}
				col.absorb(body, i)
			}
		}
		if !stateless {
			ip.Do(ctx, "POST", "http://example.test/mcp", hdr, []byte(initdMsg))
		}
		for i, p := range spec.Payloads {
			time.Sleep(ms(p.GapMs))
			i, body := i, encode(p)
			wg.Add(1)
			go func() {
				defer wg.Done()
				st, rh, b, err := ip.Do(ctx, "POST", "http://example.test/mcp", hdr, []byte(body))
				if err != nil {
					st = -1
				}
				absorbHTTP(i, st, rh, b)
			}()
			c.Log.Add("sent", "payload", i)
		}
		time.Sleep(ms(100))
		st, rh, body, err = ip.Do(ctx, "POST", "http://example.test/mcp", hdr, []byte(finalPing))
		if err == nil {
			absorbHTTP(-2, st, rh, body)
		}
		wg.Wait()
		if !stateless {
			ip.Do(ctx, "DELETE", "http://example.test/mcp", hdr, nil)
		}
		ip.Wait()
	}
	time.Sleep(11 * time.Second)
	col.mu.Lock()
	defer col.mu.Unlock()
	if len(col.junk) > 0 {
		c.Violate("undecodable-output", "server emitted undecodable output %q", col.junk[0])
	}
	for _, r := range col.resps {
		c.Log.Add("resp", "id", r.ID, "code", r.Code, "ok", r.OK, "via", r.Via)
	}
	return col.resps, col.stat
}

func decideC02(c *vh.Case, spec c02Spec, resps []c02Resp, stat map[int]int) {
	if c.Violated() {
		return
	}
	isHTTP := strings.HasPrefix(spec.Transport, "http") || spec.Transport == "sse"
	c.Seen("transports", spec.Transport+"/"+spec.Version)
	type want struct {
		class   string
		code    int
		payload int
	}
	wants := map[string][]want{}
	rejectedPayload := map[int]bool{}
	var sig strings.Builder
	sig.WriteString(spec.Transport + ":")
	rejects, calls, batches := 0, 0, 0
	dupKeys := map[string]bool{}
	for i, p := range spec.Payloads {
		if st, ok := stat[i]; ok && isHTTP {
			if st >= 500 || st < 0 {
				c.Violate("http-5xx", "payload %d answered with HTTP status %d", i, st)
				return
			}
			if st >= 400 {
				rejectedPayload[i] = true
			}
		}
		if p.Batch {
			batches++
			sig.WriteString("[")
		}
		for _, m := range p.Msgs {
			sig.WriteString(m.Class[:2] + m.Class[len(m.Class)-1:])
			if m.Want != 0 {
				rejects++
			}
			if m.ID == "" {
				continue
			}
			calls++
			id := canonID(json.RawMessage(m.ID))
			wants[id] = append(wants[id], want{m.Class, m.Want, i})
			if p.DupOf != "" && m.ID == p.DupOf {
				dupKeys[id] = true
			}
		}
		if p.Batch {
			sig.WriteString("]")
		}
	}
	got := map[string][]c02Resp{}
	for _, r := range resps {
		got[r.ID] = append(got[r.ID], r)
	}
	// bookkeeping ids of the harness itself
	delete(got, "s:init")
	fp := got["s:final-ping"]
	delete(got, "s:final-ping")
	if len(fp) != 1 || !fp[0].OK {
		key := "connection-unusable"
		if len(dupKeys) > 0 {
			key = "dup-inflight-id/" + spec.Transport + "/connection-unusable"
		}
		c.Violate(key, "final ping (fresh id) got %d response(s) %v: the connection did not stay usable", len(fp), fp)
		return
	}
	ids := make([]string, 0, len(wants))
	for id := range wants {
		ids = append(ids, id)
	}
	sort.Strings(ids)
	for _, id := range ids {
		ws := wants[id]
		rs := got[id]
		delete(got, id)
		// members of HTTP-rejected payloads expect no response
		var expect []want
		for _, w := range ws {
			if rejectedPayload[w.payload] {
				// pre-validation: acceptable only if the payload really contained something rejectable
				okReject := false
				for _, m := range spec.Payloads[w.payload].Msgs {
					if m.Want != 0 || m.Class == "call-without-id" || m.Class == "unknown-notif" || m.Class == "dup-inflight" {
						okReject = true
					}
				}
				if !okReject {
					c.Violate("valid-post-rejected", "payload %d contains only valid messages but was answered HTTP %d", w.payload, stat[w.payload])
					return
				}
				// the HTTP error may carry a JSON-RPC error bearing the id (at most one, and an error)
				for k, r := range rs {
					if !dupKeys[id] && !r.OK && r.Via == w.payload {
						rs = append(rs[:k:k], rs[k+1:]...)
						break
					}
				}
				// ... and nothing else: a request refused at the HTTP level is not executed and answered again
				for _, r := range rs {
					if !dupKeys[id] && r.Via == w.payload {
						c.Violate("response-duplicated", "id %s: payload %d was refused with HTTP %d, yet its exchange carries a further response to it (ok: %v, code %d)", id, w.payload, stat[w.payload], r.OK, r.Code)
						return
					}
				}
				continue
			}
			expect = append(expect, w)
		}
		if dupKeys[id] {
			if len(rs) != len(ws) {
				c.Violate("dup-inflight-id/"+spec.Transport, "id %s was carried by %d requests (second one sent while the first was in flight) but %d response(s) bear it", id, len(ws), len(rs))
				return
			}
			continue
		}
		if len(rs) != len(expect) {
			near := ""
			for gid := range got {
				near += " " + gid
			}
			key := "response-count"
			if len(rs) < len(expect) {
				key = "response-missing"
			} else {
				key = "response-duplicated"
			}
			c.Violate(key, "id %s: %d request(s) carried it (classes %v) but %d response(s) bear exactly that id (type and value); unmatched response ids:%s", id, len(expect), expect, len(rs), near)
			return
		}
		// codes: compare as multisets
		var wc, gc []int
		for _, w := range expect {
			wc = append(wc, w.code)
		}
		for _, r := range rs {
			if !r.OK && r.Code == 0 {
				gc = append(gc, 1) // an error object whose code is 0: an error, but never the expected success
				continue
			}
			gc = append(gc, r.Code)
		}
		// "-32600 or -32602": bind to whichever of the two is among the responses
		{
			left := append([]int(nil), gc...)
			for i, w := range wc {
				if w != c02ReqOrParams {
					continue
				}
				for _, cand := range []int{-32600, -32602} {
					if k := slices.Index(left, cand); k >= 0 {
						left = slices.Delete(left, k, k+1)
						wc[i] = cand
						break
					}
				}
			}
		}
		// sentinels: "any error" needs a non-zero code, "any outcome" any code, among the responses that
		// no exact expectation claims
		{
			left := append([]int(nil), gc...)
			var exact []int
			anyErr, anyOut := 0, 0
			for _, w := range wc {
				switch w {
				case c02AnyError:
					anyErr++
				case c02AnyOutcome:
					anyOut++
				default:
					exact = append(exact, w)
					if k := slices.Index(left, w); k >= 0 {
						left = slices.Delete(left, k, k+1)
					}
				}
			}
			if anyErr+anyOut > 0 && len(left) == anyErr+anyOut {
				nz := 0
				for _, g := range left {
					if g != 0 {
						nz++
					}
				}
				if nz >= anyErr {
					wc = append(exact, left...) // satisfied: compare as given
				}
			}
		}
		sort.Ints(wc)
		sort.Ints(gc)
		if fmt.Sprint(wc) != fmt.Sprint(gc) {
			c.Violate("wrong-error-code", "id %s (classes %v): expected codes %v, got %v", id, expect, wc, gc)
			return
		}
		// on request-scoped HTTP exchanges the response must travel on its own request's exchange
		for _, r := range rs {
			if r.Via >= 0 {
				found := false
				for _, w := range expect {
					if w.payload == r.Via {
						found = true
					}
				}
				if !found {
					c.Violate("response-on-foreign-exchange", "id %s answered on the HTTP exchange of payload %d", id, r.Via)
					return
				}
			}
		}
	}
	for id, rs := range got {
		c.Violate("spurious-response", "%d response(s) bear id %s which no request carried (a notification was answered, or an id was altered)", len(rs), id)
		return
	}
	c.Count("calls", calls)
	c.Count("batches", batches)
	c.Count("responses_checked", len(resps))
	if (calls >= 2 || batches > 0) && rejects >= 1 {
		c.Nontrivial(sig.String())
	}
}

// c02FlakyStore is an event store whose Append fails every third time.
type c02FlakyStore struct {
	mcp.EventStore
	n atomic.Int64
}

func (f *c02FlakyStore) Append(ctx context.Context, sid, stream string, data []byte) error {
	if f.n.Add(1)%3 == 0 {
		return errors.New("verif: event store unavailable")
	}
	return f.EventStore.Append(ctx, sid, stream, data)
}

type c02DynParams struct{ mcp.ParamsBase }

type c02DynResult struct{ mcp.ResultBase }
