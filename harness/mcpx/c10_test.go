//go:build verif

// C10 — the streamable server routes messages to the right stream, never across sessions.
//
// A raw HTTP client runs M sessions with R concurrent requests each, reusing
// the SAME JSON-RPC ids in every session. Every message the server emits
// carries an owner tag (session index, request, sequence, kind) in its
// payload; every byte received is tagged with the HTTP exchange that carried
// it (session, opened-by request | standalone | resume-of request). The oracle
// compares the two.
package mcpx

import (
	"bytes"
	"context"
	"encoding/json"
	"fmt"
	"io"
	"log/slog"
	"net/http"
	"net/http/httptest"
	"runtime"
	"strings"
	"sync"
	"sync/atomic"
	"testing"
	"time"

	"github.com/modelcontextprotocol/go-sdk/internal/verifharness/vh"
	"github.com/modelcontextprotocol/go-sdk/internal/verifharness/vhm"
	"github.com/modelcontextprotocol/go-sdk/mcp"
)

type c10Req struct {
	Sess       int  `json:"sess"`
	ID         int  `json:"id"`
	StartMs    int  `json:"start_ms"`
	Pre        int  `json:"pre"`                   // notifications sent while handling
	GapMs      int  `json:"gap_ms"`                // pause between them
	S2C        bool `json:"s2c"`                   // a server->client request (roots/list) issued while handling
	CutMs      int  `json:"cut_ms"`                // -1: never; else the exchange is cut and resumed (needs the event store)
	Inst       int  `json:"inst"`                  // distinguishes requests that (deliberately) share session and id
	Late       bool `json:"late,omitempty"`        // one more notification with the request's context after the handler returned
	S2CTimeout bool `json:"s2c_timeout,omitempty"` // the nested request is not answered in time: the server cancels it
	Drop       bool `json:"drop,omitempty"`        // cut and never resumed (no event store): the id is re-used by a later request
	Upd        bool `json:"upd,omitempty"`         // the handler calls Server.ResourceUpdated with its own context (every session is subscribed)
	Logs       int  `json:"logs,omitempty"`        // log records emitted through the session's slog LoggingHandler with the request's context
	MRTR       bool `json:"mrtr,omitempty"`        // the handler first returns InputRequests (roots/list); the server asks the legacy client itself, then re-invokes it
	StrID      bool `json:"str_id,omitempty"`      // the JSON-RPC id travels as the string "<id>", which is a different id from the number <id>
	After      int  `json:"after,omitempty"`       // Inst of an earlier request of the session with the same JSON-RPC id: this one is POSTed start_ms after that exchange has completed (a legal re-use of the id)
	Batch      int  `json:"batch,omitempty"`       // >0: travels in one POST (a JSON-RPC batch, protocol 2025-03-26) with the session's other requests of the same batch number, at the first member's start_ms
}

// wire is the JSON-RPC id as it travels.
func (q c10Req) wire() string {
	if q.StrID {
		return fmt.Sprintf(`"%d"`, q.ID)
	}
	return fmt.Sprint(q.ID)
}

// idKey identifies a JSON-RPC id within its session.
func (q c10Req) idKey() string { return fmt.Sprintf("%d/%s", q.Sess, q.wire()) }

type c10Spec struct {
	Mode     string   `json:"mode"` // stateful-sse | stateful-json | stateless-sse | stateless-json
	Store    bool     `json:"store"`
	Sessions int      `json:"sessions"`
	Reqs     []c10Req `json:"reqs"`
	BgNotes  []int    `json:"bg_notes_ms"`        // instants at which every session gets an out-of-band notification
	CaseIDs  bool     `json:"case_ids,omitempty"` // ServerOptions.GetSessionID issues ids that differ from one another only in letter case
	Proto    string   `json:"proto,omitempty"`    // protocol version every session negotiates and names in Mcp-Protocol-Version ("": 2025-06-18)
	// ReuseSID (stateful, event store): the application's GetSessionID hands the first session's id out again once
	// every session has been terminated (one stable id per user, one live session at a time); the successor opens a
	// fresh standalone stream: nothing of its predecessor's may arrive there
	ReuseSID bool `json:"reuse_sid,omitempty"`
	InitNote bool `json:"init_note,omitempty"` // a receiving middleware reports progress with the context of the initialize request (stateless: one initialize POST per session index)
	Real     bool `json:"real,omitempty"`      // outside the bubble: a real net/http server on a loopback socket and a real http.Client (wall-clock milliseconds; only the rules that do not depend on time are decided)
}

func genC10(r *vh.Rand) c10Spec {
	s := c10Spec{Mode: r.Choose("stateful-sse", "stateful-sse", "stateful-json", "stateless-sse", "stateless-json"), Sessions: r.Range(1, 5)}
	s.Store = strings.HasPrefix(s.Mode, "stateful") && r.Bool()
	s.CaseIDs = strings.HasPrefix(s.Mode, "stateful") && r.Chance(1, 5)
	for i := 0; i < s.Sessions; i++ {
		for j, n := 0, r.Range(1, 5); j < n; j++ {
			q := c10Req{Sess: i, ID: j + 1, StartMs: r.Intn(6), Pre: r.Intn(4), GapMs: r.Intn(4), CutMs: -1}
			if strings.HasPrefix(s.Mode, "stateful") && r.Chance(1, 4) {
				q.S2C = true
			}
			if s.Store && s.Mode == "stateful-sse" && r.Chance(1, 4) {
				q.CutMs = r.Intn(8)
				q.S2C = false // a raw client that cuts the stream may never see (and answer) the nested request
			}
			q.Late = r.Chance(1, 5)
			if strings.HasPrefix(s.Mode, "stateful") && q.CutMs < 0 {
				q.Upd = r.Chance(1, 5)
				if r.Chance(1, 4) {
					q.Logs = r.Range(1, 3)
				}
				if !q.S2C && r.Chance(1, 6) {
					q.MRTR = true
				}
			}
			if q.S2C && r.Chance(1, 3) {
				q.S2CTimeout = true
			}
			s.Reqs = append(s.Reqs, q)
			if strings.HasPrefix(s.Mode, "stateful") && r.Chance(1, 8) {
				// the same id used twice in one session: concurrently, or again after the first exchange was dropped
				d := q
				d.S2C, d.S2CTimeout, d.CutMs, d.Upd, d.Logs, d.MRTR = false, false, -1, false, 0, false
				if r.Bool() {
					d.StartMs = q.StartMs // concurrent duplicate
				} else if !s.Store {
					s.Reqs[len(s.Reqs)-1].Drop, s.Reqs[len(s.Reqs)-1].CutMs = true, r.Intn(3)
					s.Reqs[len(s.Reqs)-1].S2C, s.Reqs[len(s.Reqs)-1].S2CTimeout = false, false
					s.Reqs[len(s.Reqs)-1].MRTR = false // (nor the nested request the server sends for a multi-round-trip tool: unanswered, it would keep the handler, and the session's Close, waiting forever)
					d.StartMs = q.StartMs + s.Reqs[len(s.Reqs)-1].CutMs + r.Intn(3)
				}
				s.Reqs = append(s.Reqs, d)
			}
		}
	}
	for i := range s.Reqs {
		s.Reqs[i].Inst = i + 1
	}
	if strings.HasPrefix(s.Mode, "stateful") {
		for i, n := 0, r.Intn(4); i < n; i++ {
			s.BgNotes = append(s.BgNotes, r.Intn(14))
		}
	}
	s.Real = r.Chance(1, 8) // drawn after the scenario: the other members of a case do not depend on it
	// Later dimensions, drawn after everything above so that the older members of a case stay what they were.
	s.Proto = r.Choose("", "", "2025-11-25", "2025-03-26", "2025-03-26")
	s.InitNote = r.Chance(1, 4)
	s.ReuseSID = strings.HasPrefix(s.Mode, "stateful") && s.Store && !s.CaseIDs && !s.Real && r.Chance(1, 3)
	for i := range s.Reqs {
		s.Reqs[i].StrID = r.Chance(1, 5) // of two requests sharing a number, one may now carry it as a string: no longer the same id
	}
	uses := map[string]int{}
	for _, q := range s.Reqs {
		uses[q.idKey()]++
	}
	if strings.HasPrefix(s.Mode, "stateful") {
		// an id used again once its first request has been answered; with a store the second exchange is often cut and resumed
		for _, q := range s.Reqs {
			if q.CutMs >= 0 || q.Late || q.S2CTimeout || uses[q.idKey()] > 1 || !r.Chance(1, 8) {
				continue
			}
			a := c10Req{Sess: q.Sess, ID: q.ID, StrID: q.StrID, StartMs: r.Intn(3), Pre: r.Range(1, 3), GapMs: r.Intn(3), CutMs: -1, After: q.Inst, Inst: len(s.Reqs) + 1}
			if s.Store && s.Mode == "stateful-sse" && r.Chance(2, 3) {
				a.CutMs = r.Intn(5)
			}
			s.Reqs = append(s.Reqs, a)
		}
	}
	if s.Proto == "2025-03-26" {
		// legacy JSON-RPC batches: several calls of a session in one POST, answered on one exchange as each of them completes
		for i := 0; i < s.Sessions; i++ {
			var el []int
			for k, q := range s.Reqs {
				if q.Sess == i && q.CutMs < 0 && q.After == 0 && uses[q.idKey()] == 1 {
					el = append(el, k)
				}
			}
			if len(el) >= 2 && r.Chance(3, 4) {
				for _, k := range el[:r.Range(2, len(el))] {
					s.Reqs[k].Batch = i + 1
				}
			}
		}
	}
	return s
}

func TestVerifC10(t *testing.T) {
	cfg := vh.Config{
		Property: "C10",
		Cases:    vh.Pick(1200, 40000),
		Rule: "each case: 1..5 sessions x 1..5 concurrent tools/call requests with the same JSON-RPC ids 1..5 in every session, started within 6 ms; each handler sends 0..3 tagged notifications (0..3 ms apart), optionally a server->client roots/list request (answered by the raw client), then its tagged result; " +
			"0..3 out-of-band notifications per session; stateful/stateless x SSE/JSON responses, with/without event store; 1/4 of SSE requests with a store are cut after 0..7 ms and resumed with Last-Event-ID. " +
			"sessions negotiate 2025-06-18, 2025-11-25 or 2025-03-26; on 2025-03-26 up to all calls of a session travel in one POST as a JSON-RPC batch; 1/5 of the ids travel as strings (\"2\" next to 2); 1/8 of the ids are used again once their first request has been answered (with a store: cut and resumed); " +
			"in 1/4 of the cases a receiving middleware reports progress while initialize is handled. " +
			"non-trivial: >=2 sessions or >=2 concurrent requests in one session, and >=3 messages routed. distinct = distinct (mode, store, request pattern)",
		MinNontrivial: 100,
		Assumptions:   []string{"the raw client keeps every stream it opened attached until the request completes (except deliberate cuts)", "a message emitted after its request stream was cut and before the resume may be delivered only by the resume"},
	}
	vh.Run(t, cfg, func(c *vh.Case) {
		spec := genC10(c.R)
		c.SetSpec(spec)
		if spec.Real {
			c.Seen("http_stack", "net/http over a loopback socket")
			func() {
				defer c.Guard("")
				runC10(c, spec)
			}()
			return
		}
		c.Seen("http_stack", "in-process round tripper under virtual time")
		c.Bubble("", func() { runC10(c, spec) })
	})
}

type c10Tag struct {
	Sess int    `json:"s"`
	Req  int    `json:"r"` // 0: out of band
	Seq  int    `json:"q"`
	Kind string `json:"k"` // note | result | s2c | bg | late | cancel
	Inst int    `json:"i"`
}

func (t c10Tag) String() string {
	return fmt.Sprintf("s%d/r%d/%s%d#%d", t.Sess, t.Req, t.Kind, t.Seq, t.Inst)
}

func parseC10Tag(s string) (c10Tag, bool) {
	var t c10Tag
	if !strings.HasPrefix(s, "TAG{") {
		return t, false
	}
	err := json.Unmarshal([]byte(s[3:]), &t)
	return t, err == nil
}

func (t c10Tag) enc() string { b, _ := json.Marshal(t); return "TAG" + string(b) }

type c10Seen struct {
	Tag    c10Tag
	ExSess int    // session index of the exchange that carried it (-1: stateless)
	ExKind string // post | standalone | resume
	ExReq  int    // request that opened the exchange (0 for standalone)
	ExInst int
	Wire   string
}

func runC10(c *vh.Case, spec c10Spec) {
	log := c.Log
	ctx := context.Background()
	stateful := strings.HasPrefix(spec.Mode, "stateful")
	jsonMode := strings.HasSuffix(spec.Mode, "json")
	var emu sync.Mutex
	emitted := map[string]bool{}
	emit := func(t c10Tag) string {
		emu.Lock()
		emitted[t.String()] = true
		emu.Unlock()
		log.Add("emit", "tag", t.String())
		return t.enc()
	}
	sopts := &mcp.ServerOptions{
		SubscribeHandler:   func(context.Context, *mcp.SubscribeRequest) error { return nil },
		UnsubscribeHandler: func(context.Context, *mcp.UnsubscribeRequest) error { return nil },
	}
	if spec.CaseIDs {
		// an application-supplied id scheme whose ids are distinct but equal up to letter case
		var idn atomic.Int64
		sopts.GetSessionID = func() string {
			n := idn.Add(1)
			base := fmt.Sprintf("SessionKey%c", 'a'+rune((n-1)/2))
			if n%2 == 0 {
				return strings.ToUpper(base)
			}
			return strings.ToLower(base)
		}
	}
	if spec.ReuseSID {
		var idn atomic.Int64
		sopts.GetSessionID = func() string {
			n := idn.Add(1)
			if int(n) > spec.Sessions {
				n = 1 // the first session's id again
			}
			return fmt.Sprintf("stable-id-%d", n)
		}
	}
	server := mcp.NewServer(&mcp.Implementation{Name: "s", Version: "1"}, sopts)
	server.AddResource(&mcp.Resource{URI: "file:///shared", Name: "shared"}, func(context.Context, *mcp.ReadResourceRequest) (*mcp.ReadResourceResult, error) {
		return &mcp.ReadResourceResult{}, nil
	})
	var initOf atomic.Int64 // index of the session being initialized (sessions are set up one after another)
	if spec.InitNote {
		server.AddReceivingMiddleware(func(next mcp.MethodHandler) mcp.MethodHandler {
			return func(ctx context.Context, method string, req mcp.Request) (mcp.Result, error) {
				if ss, ok := req.GetSession().(*mcp.ServerSession); ok && method == "initialize" && int(initOf.Load()) < spec.Sessions {
					// issued while handling the initialize request, with its context
					ss.NotifyProgress(ctx, &mcp.ProgressNotificationParams{ProgressToken: "init", Progress: 1, Message: emit(c10Tag{int(initOf.Load()), 0, 1, "init", 0})})
				}
				return next(ctx, method, req)
			}
		})
	}
	var lmu sync.Mutex
	loggers := map[*mcp.ServerSession]*slog.Logger{} // one logging handler per session, shared by its requests
	server.AddTool(&mcp.Tool{Name: "chat", InputSchema: json.RawMessage(`{"type":"object"}`)}, func(ctx context.Context, req *mcp.CallToolRequest) (*mcp.CallToolResult, error) {
		var a struct {
			Sess, Req, Pre, Gap, Inst int
			S2C, Late, S2CTimeout     bool
			Upd, MRTR                 bool
			Logs                      int
		}
		json.Unmarshal(req.Params.Arguments, &a)
		if a.MRTR && len(req.Params.InputResponses) == 0 {
			// first round: ask for the client's roots; for a legacy client the server sends the request on this call's behalf
			return &mcp.CallToolResult{InputRequests: mcp.InputRequestMap{"roots": &mcp.ListRootsParams{Meta: mcp.Meta{"tag": emit(c10Tag{a.Sess, a.Req, 2, "s2c", a.Inst})}}}}, nil
		}
		if a.Logs > 0 {
			lmu.Lock()
			lg := loggers[req.Session]
			if lg == nil {
				lg = slog.New(mcp.NewLoggingHandler(req.Session, nil))
				loggers[req.Session] = lg
			}
			lmu.Unlock()
			for k := 1; k <= a.Logs; k++ {
				lg.InfoContext(ctx, emit(c10Tag{a.Sess, a.Req, 100 + k, "note", a.Inst}))
			}
		}
		if a.Upd {
			server.ResourceUpdated(ctx, &mcp.ResourceUpdatedNotificationParams{URI: "file:///shared", Meta: mcp.Meta{"by": emit(c10Tag{a.Sess, a.Req, 1, "upd", a.Inst})}})
		}
		for k := 1; k <= a.Pre; k++ {
			time.Sleep(ms(a.Gap))
			req.Session.NotifyProgress(ctx, &mcp.ProgressNotificationParams{ProgressToken: "t", Progress: float64(k), Message: emit(c10Tag{a.Sess, a.Req, k, "note", a.Inst})})
		}
		if a.S2C {
			// the request is tagged through its _meta; the raw client answers it (or, S2CTimeout, does not)
			sctx := ctx
			if a.S2CTimeout {
				var cancel context.CancelFunc
				sctx, cancel = context.WithTimeout(ctx, ms(2))
				defer cancel()
			}
			req.Session.ListRoots(sctx, &mcp.ListRootsParams{Meta: mcp.Meta{"tag": emit(c10Tag{a.Sess, a.Req, 1, "s2c", a.Inst}), "noanswer": a.S2CTimeout}})
			if a.S2CTimeout {
				time.Sleep(ms(2)) // keep the request open while the cancellation notice travels
			}
		}
		time.Sleep(ms(a.Gap))
		if a.Late {
			sess := req.Session
			go func() {
				time.Sleep(ms(a.Gap + 1))
				sess.NotifyProgress(ctx, &mcp.ProgressNotificationParams{ProgressToken: "t", Progress: 99, Message: emit(c10Tag{a.Sess, a.Req, 1, "late", a.Inst})})
			}()
		}
		return &mcp.CallToolResult{Content: []mcp.Content{&mcp.TextContent{Text: emit(c10Tag{a.Sess, a.Req, 1, "result", a.Inst})}}}, nil
	})
	opts := &mcp.StreamableHTTPOptions{Stateless: !stateful, JSONResponse: jsonMode}
	if spec.Store {
		opts.EventStore = yieldingStore{mcp.NewMemoryEventStore(nil)}
	}
	h := mcp.NewStreamableHTTPHandler(func(*http.Request) *mcp.Server { return server }, opts)
	var ip c10Client = &vhm.InProc{Handler: h}
	if spec.Real {
		rr := newC10Real(h)
		if rr == nil {
			c.Count("real_socket_cases_skipped_no_listener", 1)
			return
		}
		ip = rr
	}
	proto := spec.Proto
	if proto == "" {
		proto = "2025-06-18"
	}
	base := map[string]string{"Content-Type": "application/json", "Accept": "application/json, text/event-stream", "Mcp-Protocol-Version": proto}
	hdr := func(sid string) map[string]string {
		m := map[string]string{}
		for k, v := range base {
			m[k] = v
		}
		if sid != "" {
			m["Mcp-Session-Id"] = sid
		}
		return m
	}
	var smu sync.Mutex
	var seen []c10Seen
	sids := make([]string, spec.Sessions)
	ssOf := make([]*mcp.ServerSession, spec.Sessions)
	// absorb inspects one JSON-RPC message received on an exchange
	s2cTag := map[string]c10Tag{} // "<sess>/<jsonrpc id of the nested request>" -> tag
	// (members: instance -> request of the requests that opened the exchange together, for a batch)
	var absorb func(data string, exSess int, exKind string, exReq int, exInst int, sid string, members map[int]int)
	absorb = func(data string, exSess int, exKind string, exReq int, exInst int, sid string, members map[int]int) {
		if strings.HasPrefix(data, "[") {
			// JSON-response mode answers a batch with an array
			var arr []json.RawMessage
			json.Unmarshal([]byte(data), &arr)
			for _, one := range arr {
				absorb(string(one), exSess, exKind, exReq, exInst, sid, members)
			}
			return
		}
		var m struct {
			ID     json.RawMessage `json:"id"`
			Method string          `json:"method"`
			Params struct {
				Message   string          `json:"message"`
				Meta      map[string]any  `json:"_meta"`
				RequestID json.RawMessage `json:"requestId"`
				Data      struct {
					Msg string `json:"msg"`
				} `json:"data"`
			} `json:"params"`
			Result struct {
				Content []struct {
					Text string `json:"text"`
				} `json:"content"`
			} `json:"result"`
		}
		if json.Unmarshal([]byte(data), &m) != nil {
			return
		}
		var raw string
		switch {
		case m.Method == "notifications/progress":
			raw = m.Params.Message
		case m.Method == "notifications/message":
			raw = m.Params.Data.Msg
		case m.Method == "notifications/resources/updated":
			raw, _ = m.Params.Meta["by"].(string)
		case m.Method == "roots/list":
			raw, _ = m.Params.Meta["tag"].(string)
			if t, ok := parseC10Tag(raw); ok {
				smu.Lock()
				s2cTag[fmt.Sprintf("%d/%s", exSess, m.ID)] = t
				smu.Unlock()
			}
			// answer the server's request on behalf of the client (unless told to let it time out)
			if na, _ := m.Params.Meta["noanswer"].(bool); !na {
				go ip.Do(ctx, "POST", "http://example.test/mcp", hdr(sid), []byte(fmt.Sprintf(`{"jsonrpc":"2.0","id":%s,"result":{"roots":[]}}`, m.ID)))
			}
		case m.Method == "notifications/cancelled":
			smu.Lock()
			t, ok := s2cTag[fmt.Sprintf("%d/%s", exSess, m.Params.RequestID)]
			smu.Unlock()
			if ok {
				t.Kind = "cancel"
				raw = t.enc()
			}
		case len(m.Result.Content) > 0:
			raw = m.Result.Content[0].Text
		}
		if t, ok := parseC10Tag(raw); ok {
			if r, ok := members[t.Inst]; ok && r == t.Req {
				exReq, exInst = r, t.Inst // the exchange of a batch belongs to each of its requests
			}
			smu.Lock()
			seen = append(seen, c10Seen{Tag: t, ExSess: exSess, ExKind: exKind, ExReq: exReq, ExInst: exInst, Wire: trunc80(data)})
			smu.Unlock()
			log.Add("recv", "tag", t.String(), "exsess", exSess, "exkind", exKind, "exreq", exReq)
		}
	}
	var streams sync.WaitGroup
	standCancel := make([]context.CancelFunc, spec.Sessions)
	lastStandID := make([]string, spec.Sessions)
	var lastStandMu sync.Mutex
	initBody := []byte(`{"jsonrpc":"2.0","id":"init","method":"initialize","params":{"protocolVersion":"` + proto + `","capabilities":{"roots":{}},"clientInfo":{"name":"raw","version":"0"}}}`)
	// absorbInit inspects what the exchange of an initialize request carried
	absorbInit := func(rh http.Header, body []byte, exSess int, sid string) {
		if strings.HasPrefix(rh.Get("Content-Type"), "text/event-stream") {
			vhm.ReadSSE(bytes.NewReader(body), func(e vhm.SSEvent) { absorb(e.Data, exSess, "init", 0, 0, sid, nil) })
		} else {
			absorb(string(body), exSess, "init", 0, 0, sid, nil)
		}
	}
	if !stateful && spec.InitNote {
		// a stateless server answers initialize as well (every POST is its own session)
		for i := 0; i < spec.Sessions; i++ {
			initOf.Store(int64(i))
			st, rh, body, err := ip.Do(ctx, "POST", "http://example.test/mcp", hdr(""), initBody)
			if err != nil || st != 200 {
				if spec.Real {
					c.Count("real_socket_cases_skipped_setup_failed", 1)
				} else {
					c.Inconclusive("stateless initialize %d: %d %v", i, st, err)
				}
				return
			}
			absorbInit(rh, body, -1, "")
		}
	}
	if stateful {
		for i := 0; i < spec.Sessions; i++ {
			initOf.Store(int64(i))
			st, rh, body, err := ip.Do(ctx, "POST", "http://example.test/mcp", hdr(""), initBody)
			if err != nil || st != 200 {
				if spec.Real {
					c.Count("real_socket_cases_skipped_setup_failed", 1)
				} else {
					c.Inconclusive("initialize session %d: %d %v", i, st, err)
				}
				return
			}
			sids[i] = rh.Get("Mcp-Session-Id")
			absorbInit(rh, body, i, sids[i])
			ip.Do(ctx, "POST", "http://example.test/mcp", hdr(sids[i]), []byte(`{"jsonrpc":"2.0","method":"notifications/initialized"}`))
			ip.Do(ctx, "POST", "http://example.test/mcp", hdr(sids[i]), []byte(`{"jsonrpc":"2.0","id":"sub","method":"resources/subscribe","params":{"uri":"file:///shared"}}`))
			ip.Do(ctx, "POST", "http://example.test/mcp", hdr(sids[i]), []byte(`{"jsonrpc":"2.0","id":"lvl","method":"logging/setLevel","params":{"level":"debug"}}`))
			for ss := range server.Sessions() {
				if ss.ID() == sids[i] {
					ssOf[i] = ss
				}
			}
			// standalone stream
			gctx, cancel := context.WithCancel(ctx)
			standCancel[i] = cancel
			req, _ := http.NewRequestWithContext(gctx, "GET", "http://example.test/mcp", nil)
			for k, v := range hdr(sids[i]) {
				req.Header.Set(k, v)
			}
			req.Header.Set("Accept", "text/event-stream")
			resp, err := ip.RoundTrip(req)
			if err != nil || resp.StatusCode != 200 {
				if spec.Real {
					c.Count("real_socket_cases_skipped_setup_failed", 1)
				} else {
					c.Inconclusive("standalone GET session %d failed", i)
				}
				return
			}
			i := i
			streams.Add(1)
			go func() {
				defer streams.Done()
				vhm.ReadSSE(resp.Body, func(e vhm.SSEvent) {
					if e.ID != "" {
						lastStandMu.Lock()
						lastStandID[i] = e.ID
						lastStandMu.Unlock()
					}
					absorb(e.Data, i, "standalone", 0, 0, sids[i], nil)
				})
				resp.Body.Close()
			}()
		}
	}
	if spec.Real {
		time.Sleep(ms(20))
	} else {
		synctestWait()
	}
	dupID := map[string]bool{}
	{
		n := map[string]int{}
		for _, q := range spec.Reqs {
			if q.After == 0 { // (a request that waits for the answer to its predecessor does not compete with it)
				n[q.idKey()]++
			}
		}
		for k, v := range n {
			if v > 1 {
				dupID[k] = true
			}
		}
	}
	// one POST per request, or per batch
	var units [][]c10Req
	batchAt := map[string]int{}
	answered := map[int]chan struct{}{} // by Inst: closed when the exchange that carried the request is over
	for _, q := range spec.Reqs {
		answered[q.Inst] = make(chan struct{})
		key := fmt.Sprintf("%d/%d", q.Sess, q.Batch)
		if at, ok := batchAt[key]; ok && q.Batch > 0 {
			units[at] = append(units[at], q)
			continue
		}
		batchAt[key] = len(units)
		units = append(units, []c10Req{q})
	}
	var wg sync.WaitGroup
	for _, unit := range units {
		unit, q := unit, unit[0]
		wg.Add(1)
		go func() {
			defer wg.Done()
			defer c.Guard("")
			defer func() {
				for _, m := range unit {
					close(answered[m.Inst])
				}
			}()
			if q.After > 0 {
				<-answered[q.After]
			}
			time.Sleep(ms(q.StartMs))
			sid, exSess := "", -1
			if stateful {
				sid, exSess = sids[q.Sess], q.Sess
			}
			var members map[int]int
			var calls []string
			for _, m := range unit {
				calls = append(calls, fmt.Sprintf(`{"jsonrpc":"2.0","id":%s,"method":"tools/call","params":{"name":"chat","arguments":{"sess":%d,"req":%d,"pre":%d,"gap":%d,"s2c":%v,"inst":%d,"late":%v,"s2ctimeout":%v,"upd":%v,"logs":%d,"mrtr":%v}}}`, m.wire(), m.Sess, m.ID, m.Pre, m.GapMs, m.S2C, m.Inst, m.Late, m.S2CTimeout, m.Upd, m.Logs, m.MRTR))
			}
			body := calls[0]
			if q.Batch > 0 {
				body = "[" + strings.Join(calls, ",") + "]"
				members = map[int]int{}
				for _, m := range unit {
					members[m.Inst] = m.ID
				}
			}
			ectx, cancel := context.WithCancel(ctx)
			defer cancel()
			req, _ := http.NewRequestWithContext(ectx, "POST", "http://example.test/mcp", strings.NewReader(body))
			for k, v := range hdr(sid) {
				req.Header.Set(k, v)
			}
			if q.CutMs >= 0 {
				go func() {
					select {
					case <-time.After(ms(q.CutMs)):
						cancel()
					case <-ectx.Done():
					}
				}()
			}
			resp, err := ip.RoundTrip(req)
			if err != nil {
				log.Add("post-cut-before-headers", "sess", q.Sess, "req", q.ID)
				return
			}
			if resp.StatusCode == 400 && q.After == 0 && dupID[q.idKey()] {
				log.Add("duplicate-id-refused", "sess", q.Sess, "req", q.ID, "inst", q.Inst)
				resp.Body.Close()
				return
			}
			if resp.StatusCode != 200 {
				c.Violate("request-refused", "POST s%d/r%d answered HTTP %d", q.Sess, q.ID, resp.StatusCode)
				resp.Body.Close()
				return
			}
			last := ""
			if strings.HasPrefix(resp.Header.Get("Content-Type"), "text/event-stream") {
				vhm.ReadSSE(resp.Body, func(e vhm.SSEvent) {
					if e.ID != "" {
						last = e.ID
					}
					absorb(e.Data, exSess, "post", q.ID, q.Inst, sid, members)
				})
			} else {
				var buf strings.Builder
				b := make([]byte, 4096)
				for {
					n, err := resp.Body.Read(b)
					buf.Write(b[:n])
					if err != nil {
						break
					}
				}
				absorb(buf.String(), exSess, "post", q.ID, q.Inst, sid, members)
			}
			resp.Body.Close()
			if q.CutMs >= 0 && !q.Drop && ectx.Err() != nil && last != "" {
				// resume the cut stream until it completes
				for try := 0; try < 4; try++ {
					time.Sleep(ms(1))
					rh := hdr(sid)
					rh["Accept"] = "text/event-stream"
					rh["Last-Event-ID"] = last
					delete(rh, "Content-Type")
					rreq, _ := http.NewRequestWithContext(ctx, "GET", "http://example.test/mcp", nil)
					for k, v := range rh {
						rreq.Header.Set(k, v)
					}
					rresp, err := ip.RoundTrip(rreq)
					if err != nil {
						break
					}
					if rresp.StatusCode == http.StatusConflict {
						rresp.Body.Close()
						continue
					}
					if rresp.StatusCode != 200 {
						c.Violate("resume-refused", "resume of s%d/r%d with %q answered HTTP %d", q.Sess, q.ID, last, rresp.StatusCode)
						rresp.Body.Close()
						break
					}
					vhm.ReadSSE(rresp.Body, func(e vhm.SSEvent) { absorb(e.Data, exSess, "resume", q.ID, q.Inst, sid, nil) })
					rresp.Body.Close()
					break
				}
			}
		}()
	}
	for bi, at := range spec.BgNotes {
		at, bi := at, bi
		wg.Add(1)
		go func() {
			defer wg.Done()
			time.Sleep(ms(at))
			for i, ss := range ssOf {
				if ss != nil {
					ss.NotifyProgress(ctx, &mcp.ProgressNotificationParams{ProgressToken: "bg", Progress: 1, Message: emit(c10Tag{i, 0, bi + 1, "bg", 0})})
				}
			}
		}()
	}
	wg.Wait()
	time.Sleep(ms(30))
	if spec.Real {
		// wall-clock mode: give what was written to the sockets up to 3 s to be read; what is still missing then is
		// counted, never judged (c10RealSettled)
		for i, quiet, last := 0, 0, -1; i < 300 && quiet < 15 && !c10RealSettled(&emu, emitted, &smu, &seen); i++ {
			time.Sleep(ms(10))
			smu.Lock()
			n := len(seen)
			smu.Unlock()
			if n == last {
				quiet++ // nothing read for 150 ms: what is missing has no stream to travel on (cut, stateless, ...)
			} else {
				quiet, last = 0, n
			}
		}
	}
	if spec.Store && stateful {
		// Every session drops its standalone stream and resumes it after the last event it saw:
		// whatever is replayed must be its own.
		for _, cancel := range standCancel {
			if cancel != nil {
				cancel()
			}
		}
		streams.Wait()
		for i := range standCancel {
			if standCancel[i] == nil {
				continue
			}
			gctx, cancel := context.WithCancel(ctx)
			standCancel[i] = cancel
			req, _ := http.NewRequestWithContext(gctx, "GET", "http://example.test/mcp", nil)
			for k, v := range hdr(sids[i]) {
				req.Header.Set(k, v)
			}
			req.Header.Set("Accept", "text/event-stream")
			lastStandMu.Lock()
			if id := lastStandID[i]; id != "" {
				req.Header.Set("Last-Event-ID", id)
			}
			lastStandMu.Unlock()
			resp, err := ip.RoundTrip(req)
			if err != nil || resp.StatusCode != 200 {
				if resp != nil {
					resp.Body.Close()
				}
				continue
			}
			i := i
			streams.Add(1)
			go func() {
				defer streams.Done()
				vhm.ReadSSE(resp.Body, func(e vhm.SSEvent) { absorb(e.Data, i, "standalone", 0, 0, sids[i], nil) })
				resp.Body.Close()
			}()
		}
		time.Sleep(ms(10))
	}
	for i, cancel := range standCancel {
		if cancel != nil {
			cancel()
			ip.Do(ctx, "DELETE", "http://example.test/mcp", hdr(sids[i]), nil)
		}
	}
	streams.Wait()
	if spec.ReuseSID && stateful {
		// every session is gone; a new one is given the first one's id and opens its standalone stream afresh
		initOf.Store(int64(spec.Sessions)) // (what its own initialize reports is its own)
		st, rh, _, err := ip.Do(ctx, "POST", "http://example.test/mcp", hdr(""), []byte(`{"jsonrpc":"2.0","id":"init","method":"initialize","params":{"protocolVersion":"2025-06-18","capabilities":{"roots":{}},"clientInfo":{"name":"successor","version":"0"}}}`))
		if err == nil && st == 200 && rh.Get("Mcp-Session-Id") == sids[0] {
			ip.Do(ctx, "POST", "http://example.test/mcp", hdr(sids[0]), []byte(`{"jsonrpc":"2.0","method":"notifications/initialized"}`))
			gctx, cancel := context.WithCancel(ctx)
			req, _ := http.NewRequestWithContext(gctx, "GET", "http://example.test/mcp", nil)
			for k, v := range hdr(sids[0]) {
				req.Header.Set(k, v)
			}
			req.Header.Set("Accept", "text/event-stream")
			if resp, err := ip.RoundTrip(req); err == nil && resp.StatusCode == 200 {
				streams.Add(1)
				go func() {
					defer streams.Done()
					// the successor is session number spec.Sessions: whatever bears another session's tag is not its own
					vhm.ReadSSE(resp.Body, func(e vhm.SSEvent) { absorb(e.Data, spec.Sessions, "standalone", 0, 0, sids[0], nil) })
					resp.Body.Close()
				}()
				time.Sleep(ms(5))
				c.Count("session_ids_handed_out_again", 1)
			} else if resp != nil {
				resp.Body.Close()
			}
			cancel()
			ip.Do(ctx, "DELETE", "http://example.test/mcp", hdr(sids[0]), nil)
			streams.Wait()
		}
	}
	ip.Wait()
	if !spec.Real {
		time.Sleep(11 * time.Second)
	}

	// ------------------------------------------------------------ oracle
	smu.Lock()
	defer smu.Unlock()
	loose := map[int]bool{} // by Inst: the exchange is cut, or the id is deliberately used by two requests at once
	for _, q := range spec.Reqs {
		loose[q.Inst] = q.CutMs >= 0 || (q.After == 0 && dupID[q.idKey()])
	}
	count := map[string]int{}
	updSeen := map[string]int{}
	for _, s := range seen {
		t := s.Tag
		if t.Kind == "upd" {
			// fan-out to every subscribed session: for the others it is a message issued outside any of their requests
			switch {
			case s.ExSess == t.Sess && s.ExKind != "standalone" && (s.ExReq != t.Req || (s.ExInst != 0 && s.ExInst != t.Inst)):
				c.Violate("in-request-message-misrouted", "%s was issued while handling request %d but travelled on the %s exchange of request %d", t, t.Req, s.ExKind, s.ExReq)
				return
			case s.ExSess != t.Sess && s.ExKind != "standalone":
				c.Violate("out-of-band-message-misrouted", "resources/updated issued by session %d's request %d reached session %d on the %s exchange of its request %d, not on its standalone stream: %s", t.Sess, t.Req, s.ExSess, s.ExKind, s.ExReq, s.Wire)
				return
			}
			updSeen[fmt.Sprintf("%s@%d", t, s.ExSess)]++
			continue
		}
		count[t.String()]++
		if stateful && s.ExSess != t.Sess {
			c.Violate("cross-session-delivery", "message %s (emitted for session %d) was delivered on an exchange of session %d (%s opened by request %d): %s", t, t.Sess, s.ExSess, s.ExKind, s.ExReq, s.Wire)
			return
		}
		if s.ExKind != "standalone" && t.Inst != 0 && s.ExInst != 0 && t.Inst != s.ExInst && t.Kind != "bg" {
			key := "delivered-on-another-requests-exchange"
			if t.Kind == "late" {
				// sent with the context of a request that had already completed, after its JSON-RPC id was re-used
				key = "late-message-after-id-reuse"
			}
			c.Violate(key, "message %s belongs to request instance %d but was delivered on the %s exchange of instance %d (same session, same JSON-RPC id %d)", t, t.Inst, s.ExKind, s.ExInst, s.ExReq)
			return
		}
		switch t.Kind {
		case "late":
			// (wall-clock mode: "one millisecond after the handler returned" need not be after the response was written)
			if s.ExKind != "standalone" && !spec.Real {
				c.Violate("in-request-message-misrouted", "%s was sent after its request had completed but travelled on the %s exchange of request %d (instance %d)", t, s.ExKind, s.ExReq, s.ExInst)
				return
			}
		case "cancel":
			// (wall-clock mode: the notice is sent asynchronously; the request it belongs to may have completed by then, and it then rightly travels on the standalone stream)
			if !jsonMode && (s.ExKind == "standalone" || s.ExReq != t.Req) && !(spec.Real && s.ExKind == "standalone") {
				c.Violate("in-request-message-misrouted", "the cancellation of nested request %s was issued while handling request %d but travelled on the %s exchange of request %d", t, t.Req, s.ExKind, s.ExReq)
				return
			}
		case "init":
			// issued while handling the initialize request: on its exchange, or (JSON-response mode) on the standalone stream --
			// which cannot be attached yet, so only a replay from the event store can carry it
			if jsonMode && s.ExKind != "standalone" {
				c.Violate("in-request-message-misrouted", "JSON-response mode: %s must travel on the standalone stream, seen on the %s exchange of request %d", t, s.ExKind, s.ExReq)
				return
			}
			if !jsonMode && s.ExKind != "init" {
				c.Violate("in-request-message-misrouted", "%s was issued while handling the initialize request but travelled on the %s exchange of request %d", t, s.ExKind, s.ExReq)
				return
			}
		case "result":
			if s.ExKind == "standalone" || s.ExReq != t.Req {
				c.Violate("response-on-foreign-exchange", "response %s was delivered on the %s exchange opened by request %d", t, s.ExKind, s.ExReq)
				return
			}
		case "note", "s2c":
			if jsonMode {
				if s.ExKind != "standalone" {
					c.Violate("in-request-message-misrouted", "JSON-response mode: %s must travel on the standalone stream, seen on %s of request %d", t, s.ExKind, s.ExReq)
					return
				}
			} else if s.ExKind == "standalone" || s.ExReq != t.Req {
				c.Violate("in-request-message-misrouted", "%s was issued while handling request %d but travelled on the %s exchange of request %d", t, t.Req, s.ExKind, s.ExReq)
				return
			}
		case "bg":
			if s.ExKind != "standalone" {
				c.Violate("out-of-band-message-misrouted", "%s was issued outside any request but travelled on the %s exchange of request %d", t, s.ExKind, s.ExReq)
				return
			}
		}
	}
	for tag, n := range count {
		if n > 1 && !strings.Contains(tag, "/r") {
			continue
		}
		if n > 1 {
			// a cut+resumed request may legitimately see an event twice only if the client replays; ours resumes from the last id
			c.Violate("duplicate-delivery", "message %s was delivered %d times", tag, n)
			return
		}
	}
	// exactly once when the target stream was attached throughout
	emu.Lock()
	for tag := range emitted {
		var t c10Tag
		fmt.Sscanf(tag, "s%d/r%d/", &t.Sess, &t.Req)
		if strings.Contains(tag, "/upd") {
			// every other session keeps its standalone stream attached: it must get the update exactly once
			for i := 0; i < spec.Sessions; i++ {
				if i != t.Sess && !spec.Store && updSeen[fmt.Sprintf("%s@%d", tag, i)] == 0 && spec.Real {
					c.Count("real_mode_not_read_within_3s", 1)
					continue
				}
				if i != t.Sess && !spec.Store && updSeen[fmt.Sprintf("%s@%d", tag, i)] != 1 {
					c.Violate("message-lost", "resources/updated %s reached session %d %d time(s) (it is subscribed and its standalone stream is attached)", tag, i, updSeen[fmt.Sprintf("%s@%d", tag, i)])
					emu.Unlock()
					return
				}
			}
			continue
		}
		fmt.Sscanf(tag[strings.LastIndex(tag, "#"):], "#%d", &t.Inst)
		if loose[t.Inst] || strings.Contains(tag, "/late") {
			continue // cut exchanges, deliberately duplicated ids and late messages: delivery is not fixed
		}
		if jsonMode && strings.Contains(tag, "/init") {
			continue // no standalone stream can be attached while initialize is handled
		}
		if !stateful && (strings.Contains(tag, "/s2c") || (jsonMode && strings.Contains(tag, "/note"))) {
			continue // no stream exists for these in stateless / JSON mode
		}
		if count[tag] == 0 && spec.Real {
			c.Count("real_mode_not_read_within_3s", 1)
			continue
		}
		if count[tag] != 1 {
			c.Violate("message-lost", "message %s was emitted while its target stream was attached but delivered %d times", tag, count[tag])
			emu.Unlock()
			return
		}
	}
	emu.Unlock()
	c.Count("messages_routed", len(seen))
	if spec.Real {
		c.Count("messages_routed_over_real_sockets", len(seen))
	}
	conc := map[int]int{}
	for _, q := range spec.Reqs {
		conc[q.Sess]++
	}
	multi := spec.Sessions >= 2
	for _, n := range conc {
		if n >= 2 {
			multi = true
		}
	}
	if multi && len(seen) >= 3 {
		c.Nontrivial(fmt.Sprintf("%s/%v/%v", spec.Mode, spec.Store, spec.Reqs))
	}
}

var _ = testing.Short

// yieldingStore lets other goroutines runnable at this instant run inside Open
// (a store is allowed to be slow), widening check-then-act windows around it.
type yieldingStore struct{ *mcp.MemoryEventStore }

func (y yieldingStore) Open(ctx context.Context, sid, stream string) error {
	for i := 0; i < 30; i++ {
		runtime.Gosched()
	}
	return y.MemoryEventStore.Open(ctx, sid, stream)
}

// c10Client is what the scenario needs of an HTTP stack: the in-process round tripper under virtual time, or
// (c10Real) net/http on a loopback socket.
type c10Client interface {
	RoundTrip(*http.Request) (*http.Response, error)
	Do(ctx context.Context, method, url string, hdr map[string]string, body []byte) (int, http.Header, []byte, error)
	Wait()
}

type c10Real struct {
	srv *httptest.Server
	tr  *http.Transport
}

func newC10Real(h http.Handler) (r *c10Real) {
	defer func() {
		if recover() != nil {
			r = nil // no loopback listener to be had: the caller skips the case
		}
	}()
	return &c10Real{srv: httptest.NewServer(h), tr: &http.Transport{MaxIdleConnsPerHost: 64}}
}

func (r *c10Real) RoundTrip(req *http.Request) (*http.Response, error) {
	req.URL.Host = r.srv.Listener.Addr().String()
	req.Host = ""
	return r.tr.RoundTrip(req)
}

func (r *c10Real) Do(ctx context.Context, method, url string, hdr map[string]string, body []byte) (int, http.Header, []byte, error) {
	req, err := http.NewRequestWithContext(ctx, method, url, bytes.NewReader(body))
	if err != nil {
		return 0, nil, nil, err
	}
	for k, v := range hdr {
		req.Header.Set(k, v)
	}
	resp, err := r.RoundTrip(req)
	if err != nil {
		return 0, nil, nil, err
	}
	defer resp.Body.Close()
	b, _ := io.ReadAll(resp.Body)
	return resp.StatusCode, resp.Header, b, nil
}

func (r *c10Real) Wait() {
	r.tr.CloseIdleConnections()
	r.srv.CloseClientConnections()
	r.srv.Close()
}

// c10RealSettled reports whether every message emitted so far for a request or out of band has been read at least once.
func c10RealSettled(emu *sync.Mutex, emitted map[string]bool, smu *sync.Mutex, seen *[]c10Seen) bool {
	smu.Lock()
	got := map[string]bool{}
	for _, s := range *seen {
		got[s.Tag.String()] = true
	}
	smu.Unlock()
	emu.Lock()
	defer emu.Unlock()
	for tag := range emitted {
		if !got[tag] && !strings.Contains(tag, "/late") {
			return false
		}
	}
	return true
}
