//go:build verif

// C05, CommandTransport: closing a client session whose server is a real child process.
//
// These cases cannot run under virtual time (a child process is outside any bubble). The oracle is logical wherever
// it can be: what the child recorded (stdin closed, SIGTERM seen), whether it is gone once Close has returned, whether
// the call in flight has returned. Only "Close never returns" needs a clock: the case waits 100 times the configured
// TerminateDuration per escalation stage and then requires, before it calls that a violation, that the child is
// still alive and that a goroutine is still inside the transport's own Close (both are recorded as the witness).
package mcpx

import (
	"context"
	"fmt"
	"os"
	"os/exec"
	"os/signal"
	"path/filepath"
	"strings"
	"sync"
	"syscall"
	"testing"
	"time"

	"github.com/modelcontextprotocol/go-sdk/internal/verifharness/vh"
	"github.com/modelcontextprotocol/go-sdk/mcp"
)

type c05CmdSpec struct {
	Shape       string `json:"shape"` // always "command"
	Child       string `json:"child"` // polite | slow | deaf | term | wedged
	TerminateMs int    `json:"terminate_ms"`
	InFlight    bool   `json:"in_flight"` // a tool call is parked in the child when Close is called
	Closers     int    `json:"closers"`
}

func genC05Cmd(r *vh.Rand) c05CmdSpec {
	s := c05CmdSpec{Shape: "command", Child: r.Choose("polite", "slow", "deaf", "term", "wedged", "wedged"), TerminateMs: 60 + 20*r.Intn(3), InFlight: r.Bool(), Closers: r.Range(1, 2)}
	if s.Child == "slow" || s.Child == "polite" {
		s.TerminateMs = 20000 // no stage may be cut short: the child needs a moment and must be left alone
	}
	return s
}

// TestVerifChildServer is the body of the child process (selected with -test.run by runC05Cmd).
func TestVerifChildServer(t *testing.T) {
	mode := os.Getenv("VERIF_CHILD_MODE")
	if mode == "" {
		t.Skip("child process body")
	}
	logf, _ := os.OpenFile(os.Getenv("VERIF_CHILD_LOG"), os.O_APPEND|os.O_CREATE|os.O_WRONLY, 0o644)
	note := func(s string) { fmt.Fprintln(logf, s); logf.Sync() }
	sig := make(chan os.Signal, 4)
	if mode == "term" || mode == "wedged" {
		signal.Notify(sig, syscall.SIGTERM)
	}
	go func() {
		for range sig {
			note("term")
			if mode == "term" {
				os.Exit(0)
			}
		}
	}()
	server := mcp.NewServer(&mcp.Implementation{Name: "child", Version: "1"}, nil)
	mcp.AddTool(server, &mcp.Tool{Name: "park"}, func(ctx context.Context, req *mcp.CallToolRequest, _ struct{}) (*mcp.CallToolResult, any, error) {
		note("parked")
		select { // handlers return (the property's precondition): this one after 40 ms at the latest
		case <-ctx.Done():
		case <-time.After(40 * time.Millisecond):
		}
		return &mcp.CallToolResult{Content: []mcp.Content{&mcp.TextContent{Text: "done"}}}, nil, nil
	})
	note("up")
	server.Run(context.Background(), &mcp.StdioTransport{})
	note("eof")
	switch mode {
	case "polite":
	case "slow":
		time.Sleep(30 * time.Millisecond)
	default:
		select {} // deaf, term, wedged: the end of stdin alone does not make it leave
	}
	note("exit")
	os.Exit(0)
}

func runC05Cmd(c *vh.Case, spec c05CmdSpec) {
	if suspect := runC05CmdOnce(c, spec, false); suspect != "" {
		// What the child recorded depends on its having been scheduled within TerminateDuration after the signal: on a
		// loaded machine a child can be killed before it has noted the SIGTERM it was sent. A suspicion is therefore
		// never a verdict: the same scenario is run once more with stages of 5 s, and only what that run shows counts.
		c.Log.Add("retry-with-long-stages", "suspicion", suspect)
		spec.TerminateMs = 5000
		runC05CmdOnce(c, spec, true)
	}
}

// runC05CmdOnce runs one scenario. With final unset, an escalation that looks wrong is only reported back as a
// suspicion (the caller repeats the scenario with long stages); with final set it is a violation.
func runC05CmdOnce(c *vh.Case, spec c05CmdSpec, final bool) (suspicion string) {
	log := c.Log
	dir, err := os.MkdirTemp("", "verif-c05cmd-")
	if err != nil {
		c.Inconclusive("tempdir: %v", err)
		return ""
	}
	defer os.RemoveAll(dir)
	childLog := filepath.Join(dir, "child.log")
	cmd := exec.Command(os.Args[0], "-test.run=^TestVerifChildServer$", "-test.count=1")
	cmd.Env = append(os.Environ(), "VERIF_CHILD_MODE="+spec.Child, "VERIF_CHILD_LOG="+childLog, "VERIF_OUT="+dir, "GORACE=")
	cmd.Stderr = nil
	client := mcp.NewClient(&mcp.Implementation{Name: "c", Version: "1"}, nil)
	td := time.Duration(spec.TerminateMs) * time.Millisecond
	ctx := context.Background()
	// the transport's own Close is bracketed by two events, so that "still inside it" is a recorded fact
	var tcMu sync.Mutex
	tcCalled, tcReturned := 0, 0
	tr := closeSpy{t: &mcp.CommandTransport{Command: cmd, TerminateDuration: td}, before: func() { tcMu.Lock(); tcCalled++; tcMu.Unlock(); log.Add("transport-close-called") },
		after: func(err error) {
			tcMu.Lock()
			tcReturned++
			tcMu.Unlock()
			log.Add("transport-close-returned", "err", fmt.Sprint(err))
		}}
	cs, err := client.Connect(ctx, tr, nil)
	if err != nil {
		c.Inconclusive("connect to the child failed: %v", err)
		if cmd.Process != nil {
			cmd.Process.Kill()
		}
		return ""
	}
	pid := cmd.Process.Pid
	defer syscall.Kill(pid, syscall.SIGKILL) // whatever happened: no child is left behind by the harness
	alive := func() bool {
		// a zombie (exited, not yet reaped) does not count as alive
		b, err := os.ReadFile(fmt.Sprintf("/proc/%d/stat", pid))
		if err != nil {
			return false
		}
		f := strings.Fields(string(b[strings.LastIndexByte(string(b), ')')+1:]))
		return len(f) > 0 && f[0] != "Z" && f[0] != "X"
	}
	childSaw := func(what string) int {
		b, _ := os.ReadFile(childLog)
		n := 0
		for _, l := range strings.Split(string(b), "\n") {
			if l == what {
				n++
			}
		}
		return n
	}
	callDone := make(chan string, 1)
	if spec.InFlight {
		go func() {
			_, err := cs.CallTool(ctx, &mcp.CallToolParams{Name: "park"})
			callDone <- fmt.Sprint(err)
		}()
		for i := 0; i < 2000 && childSaw("parked") == 0; i++ {
			time.Sleep(2 * time.Millisecond)
		}
		if childSaw("parked") == 0 {
			c.Inconclusive("the child never reported the parked call")
			return ""
		}
	}
	log.Add("close-called", "child", spec.Child, "in_flight", spec.InFlight)
	var wg sync.WaitGroup
	closed := make(chan struct{})
	for i := 0; i < spec.Closers; i++ {
		wg.Add(1)
		go func() {
			defer wg.Done()
			err := cs.Close()
			log.Add("close-returned", "err", fmt.Sprint(err))
		}()
	}
	go func() { wg.Wait(); close(closed) }()
	// three stages (stdin closed, SIGTERM, SIGKILL), each bounded by TerminateDuration
	budget := 100 * 3 * td // 18..30 s, below the per-case watchdog of the runner
	if spec.TerminateMs == 5000 {
		budget = 10 * 3 * td // the repeated run with long stages
	}
	if spec.TerminateMs >= 20000 {
		budget = 35 * time.Second // the child leaves by itself at once; the stages are never meant to run
	}
	select {
	case <-closed:
	case <-time.After(budget):
		tcMu.Lock()
		inTransportClose := tcCalled > tcReturned
		tcMu.Unlock()
		log.Add("close-overdue", "child_alive", alive(), "in_transport_close", inTransportClose, "child_saw_term", childSaw("term"))
		if alive() && inTransportClose {
			c.Violate("close-hangs/command", "Close has not returned %v after it was called (TerminateDuration %v, child %q): the child (pid %d) is still alive, it saw stdin close %d time(s) and SIGTERM %d time(s), and a goroutine is still inside the transport's Close",
				budget, td, spec.Child, pid, childSaw("eof"), childSaw("term"))
		} else {
			c.Inconclusive("Close of a command session overdue after %v (child alive: %v, inside transport Close: %v)", budget, alive(), inTransportClose)
		}
		return ""
	}
	// Close has returned: everything below is a fact, not a timing
	// A child that was sent SIGKILL is gone a moment later, not necessarily by the time Close gives up waiting for it
	// ("unresponsive subprocess" after one more TerminateDuration); a child nobody killed stays for ever. The 20 s
	// only bound the wait: wedged, deaf and term children never leave by themselves.
	for i := 0; i < 2000 && alive(); i++ {
		time.Sleep(10 * time.Millisecond)
	}
	if alive() {
		c.Violate("child-survived-close/command", "Close returned but the child process %d (%q) is still running 20 s later", pid, spec.Child)
		return ""
	}
	terms := childSaw("term")
	switch spec.Child {
	case "polite", "slow":
		if childSaw("exit") != 1 {
			c.Violate("escalated-too-early/command", "a child that leaves by itself %s after its stdin closed did not get to its own exit although TerminateDuration is %v (child log: eof=%d exit=%d)",
				map[string]string{"polite": "at once", "slow": "30 ms"}[spec.Child], td, childSaw("eof"), childSaw("exit"))
			return ""
		}
	case "term":
		if terms != 1 {
			if !final && terms == 0 {
				return "no SIGTERM recorded by a child that leaves on SIGTERM"
			}
			c.Violate("wrong-escalation/command", "a child that leaves on SIGTERM recorded %d SIGTERMs (stdin close seen: %d, TerminateDuration %v)", terms, childSaw("eof"), td)
			return ""
		}
	case "wedged":
		if terms < 1 {
			if !final {
				return "no SIGTERM recorded by a child that ignores it"
			}
			c.Violate("wrong-escalation/command", "a child that ignores SIGTERM was killed without having been sent SIGTERM first (TerminateDuration %v)", td)
			return ""
		}
	}
	if spec.InFlight {
		select {
		case out := <-callDone:
			log.Add("call-return", "outcome", out)
		case <-time.After(60 * time.Second):
			c.Violate("call-blocked-after-close/command", "Close has returned and the child is gone, yet the call that was in flight has not returned")
		}
	}
	c.Count("command_sessions_closed", 1)
	c.Seen("command_children", fmt.Sprintf("%s/inflight=%v/closers=%d/term_seen=%d", spec.Child, spec.InFlight, spec.Closers, terms))
	c.Nontrivial("cmd:" + spec.Child + fmt.Sprint(spec.InFlight, spec.Closers) + log.KindSignature())
	return ""
}

// closeSpy brackets the Close of the connection a transport produces.
type closeSpy struct {
	t      mcp.Transport
	before func()
	after  func(error)
}

type closeSpyConn struct {
	mcp.Connection
	s closeSpy
}

func (s closeSpy) Connect(ctx context.Context) (mcp.Connection, error) {
	c, err := s.t.Connect(ctx)
	if err != nil {
		return nil, err
	}
	return closeSpyConn{c, s}, nil
}

func (c closeSpyConn) Close() error {
	c.s.before()
	err := c.Connection.Close()
	c.s.after(err)
	return err
}
