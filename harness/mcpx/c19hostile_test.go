//go:build verif

// C19, hostile protocol values: a well-formed JSON document whose members have the wrong shape (null, a
// scalar, an array, an object where something else belongs) is decoded into the SDK's result and params
// types, as a session does with whatever its peer sends. Errors are fine; a panic is not.
package mcpx

import (
	"encoding/json"
	"fmt"

	"github.com/modelcontextprotocol/go-sdk/internal/verifharness/vh"
	"github.com/modelcontextprotocol/go-sdk/mcp"
)

var c19HostileBases = []struct {
	name string
	mk   func() any
	base string
}{
	{"CallToolResult", func() any { return new(mcp.CallToolResult) }, `{"content":[{"type":"text","text":"x","annotations":{"audience":["user"]},"_meta":{"k":1}},{"type":"image","data":"aGk=","mimeType":"image/png"},{"type":"resource","resource":{"uri":"file:///r","text":"t"}},{"type":"resource_link","uri":"file:///l","name":"l"}],"structuredContent":{"a":[1,2]},"isError":false,"inputRequests":{"a":{"method":"elicitation/create","params":{"message":"m","requestedSchema":{"type":"object"}}},"b":{"method":"roots/list"},"c":{"method":"sampling/createMessage","params":{"messages":[{"role":"user","content":{"type":"text","text":"x"}}],"maxTokens":1}}},"requestState":"s","_meta":{"m":true}}`},
	{"CallToolParamsRaw", func() any { return new(mcp.CallToolParamsRaw) }, `{"name":"t","arguments":{"a":1},"inputResponses":{"a":{"action":"accept","content":{"x":1}},"b":{"roots":[{"uri":"file:///r"}]}},"requestState":"s","_meta":{"progressToken":"p"}}`},
	{"ListToolsResult", func() any { return new(mcp.ListToolsResult) }, `{"tools":[{"name":"t","inputSchema":{"type":"object","properties":{"a":{"type":"string"}}},"outputSchema":{"type":"object"},"annotations":{"readOnlyHint":true},"icons":[{"src":"https://x/i.png"}]}],"nextCursor":"c","ttlMs":5}`},
	{"ReadResourceResult", func() any { return new(mcp.ReadResourceResult) }, `{"contents":[{"uri":"file:///r","text":"t","mimeType":"text/plain","_meta":{"a":1}},{"uri":"file:///b","blob":"aGk="}]}`},
	{"GetPromptResult", func() any { return new(mcp.GetPromptResult) }, `{"description":"d","messages":[{"role":"user","content":{"type":"text","text":"x"}},{"role":"assistant","content":{"type":"audio","data":"aGk=","mimeType":"audio/wav"}}]}`},
	{"CreateMessageResult", func() any { return new(mcp.CreateMessageResult) }, `{"model":"m","role":"assistant","content":{"type":"text","text":"x"},"stopReason":"endTurn"}`},
	{"CreateMessageWithToolsResult", func() any { return new(mcp.CreateMessageWithToolsResult) }, `{"model":"m","role":"assistant","content":[{"type":"text","text":"x"},{"type":"tool_use","id":"1","name":"t","input":{"a":1}}],"stopReason":"toolUse"}`},
	{"CreateMessageWithToolsParams", func() any { return new(mcp.CreateMessageWithToolsParams) }, `{"messages":[{"role":"user","content":[{"type":"tool_result","toolUseId":"1","content":[{"type":"text","text":"r"}]}]}],"maxTokens":3,"tools":[{"name":"t","inputSchema":{"type":"object"}}],"toolChoice":{"mode":"auto"}}`},
	{"ElicitParams", func() any { return new(mcp.ElicitParams) }, `{"mode":"form","message":"m","requestedSchema":{"type":"object","properties":{"a":{"type":"string","enum":["x","y"]}}},"_meta":{"a":1}}`},
	{"ElicitResult", func() any { return new(mcp.ElicitResult) }, `{"action":"accept","content":{"a":"x"}}`},
	{"ListRootsResult", func() any { return new(mcp.ListRootsResult) }, `{"roots":[{"uri":"file:///r","name":"r"}]}`},
	{"CompleteResult", func() any { return new(mcp.CompleteResult) }, `{"completion":{"values":["a","b"],"total":2,"hasMore":false}}`},
	{"InitializeResult", func() any { return new(mcp.InitializeResult) }, `{"protocolVersion":"2025-06-18","capabilities":{"tools":{"listChanged":true},"resources":{"subscribe":true},"logging":{},"experimental":{"x":{}}},"serverInfo":{"name":"s","version":"1","icons":[{"src":"https://x/i.png","sizes":["1x1"]}]},"instructions":"i"}`},
	{"DiscoverResult", func() any { return new(mcp.DiscoverResult) }, `{"supportedVersions":["2026-07-28"],"capabilities":{"tools":{}},"instructions":"i","ttlMs":1}`},
	{"ListResourcesResult", func() any { return new(mcp.ListResourcesResult) }, `{"resources":[{"uri":"file:///r","name":"r","annotations":{"priority":0.5,"lastModified":"2025-01-01T00:00:00Z"}}],"nextCursor":""}`},
	{"SubscriptionsListenParams", func() any { return new(mcp.SubscriptionsListenParams) }, `{"notifications":{"toolsListChanged":true,"resourceSubscriptions":["file:///r"]},"_meta":{"a":1}}`},
	{"LoggingMessageParams", func() any { return new(mcp.LoggingMessageParams) }, `{"level":"info","logger":"l","data":{"a":[1,null]}}`},
	{"ProgressNotificationParams", func() any { return new(mcp.ProgressNotificationParams) }, `{"progressToken":"t","progress":1,"total":2,"message":"m"}`},
}

var c19HostileSubst = []string{`null`, `[]`, `{}`, `"str"`, `17`, `[null]`, `{"a":null}`, `true`, `[[]]`, `{"type":null}`, `{"method":null}`, `{"method":"roots/list","params":null}`, `{"type":"text"}`, `{"type":"nope"}`}

// c19Subst replaces the sub-value at position k (pre-order) of v by sub; it returns the new tree and the number of positions visited.
func c19Subst(v any, k *int, sub any) any {
	if *k == 0 {
		*k = -1
		return sub
	}
	*k--
	switch t := v.(type) {
	case map[string]any:
		keys := make([]string, 0, len(t))
		for key := range t {
			keys = append(keys, key)
		}
		sortStrings(keys)
		for _, key := range keys {
			if *k < 0 {
				break
			}
			t[key] = c19Subst(t[key], k, sub)
		}
	case []any:
		for i := range t {
			if *k < 0 {
				break
			}
			t[i] = c19Subst(t[i], k, sub)
		}
	}
	return v
}

func sortStrings(a []string) {
	for i := 1; i < len(a); i++ {
		for j := i; j > 0 && a[j] < a[j-1]; j-- {
			a[j], a[j-1] = a[j-1], a[j]
		}
	}
}

func c19CountNodes(v any) int {
	n := 1
	switch t := v.(type) {
	case map[string]any:
		for _, x := range t {
			n += c19CountNodes(x)
		}
	case []any:
		for _, x := range t {
			n += c19CountNodes(x)
		}
	}
	return n
}

func c19HostileValues(c *vh.Case) {
	// systematic: case j takes type j mod 18 and node (j / 18) mod nodes, and tries every substitution there
	// (plus, on top, one random second substitution elsewhere)
	r := c.R
	j := c.Index / 16
	b := c19HostileBases[j%len(c19HostileBases)]
	var probe any
	json.Unmarshal([]byte(b.base), &probe)
	nodes := c19CountNodes(probe)
	pos := 1 + (j/len(c19HostileBases))%(nodes-1)
	var last string
	for si, subText := range c19HostileSubst {
		var tree, sub any
		json.Unmarshal([]byte(b.base), &tree)
		json.Unmarshal([]byte(subText), &sub)
		k := pos
		tree = c19Subst(tree, &k, sub)
		if si%2 == 1 {
			var sub2 any
			json.Unmarshal([]byte(c19HostileSubst[r.Intn(len(c19HostileSubst))]), &sub2)
			k2 := 1 + r.Intn(max(1, c19CountNodes(tree)-1))
			tree = c19Subst(tree, &k2, sub2)
		}
		in, _ := json.Marshal(tree)
		last = string(in)
		c.SetSpec(map[string]any{"gen": "hostile-value", "type": b.name, "in": last})
		dst := b.mk()
		err := json.Unmarshal(in, dst) // a panic is caught by the runner and reported as an SDK panic
		if err == nil {
			// what was accepted can be encoded again without panicking either
			if _, merr := json.Marshal(dst); merr != nil {
				c.Count("hostile_values_not_reencodable", 1)
			}
		}
		c.Count("hostile_values_decoded", 1)
	}
	c.Nontrivial(fmt.Sprintf("hv:%s:%d:%s", b.name, pos, last))
}
