//go:build verif

// C19, hostile protocol values: a well-formed JSON document whose members have the wrong shape (null, a
// scalar, an array, an object where something else belongs) is decoded into the SDK's result and params
// types, as a session does with whatever its peer sends. Errors are fine; a panic is not.
package mcpx

import (
	"encoding/json"
	"fmt"
	"strings"

	internaljson "github.com/modelcontextprotocol/go-sdk/internal/json"
	"github.com/modelcontextprotocol/go-sdk/internal/verifharness/vh"
	"github.com/modelcontextprotocol/go-sdk/mcp"
)

var c19HostileBases = []struct {
	name string
	mk   func() any
	base string
}{
	{"CallToolResult", func() any { return new(mcp.CallToolResult) }, `{"content":[{"type":"text","text":"x","annotations":{"audience":["user"]},"_meta":{"k":1}},{"type":"image","data":"aGk=","mimeType":"image/png"},{"type":"resource","resource":{"uri":"file:///r","text":"t"}},{"type":"resource_link","uri":"file:///l","name":"l"}],"structuredContent":{"a":[1,2]},"isError":false,"inputRequests":{"a":{"method":"elicitation/create","params":{"message":"m","requestedSchema":{"type":"object"}}},"b":{"method":"roots/list"},"c":{"method":"sampling/createMessage","params":{"messages":[{"role":"user","content":{"type":"text","text":"x"}}],"maxTokens":1}}},"requestState":"s","_meta":{"m":true}}`},
	{"CallToolParamsRaw", func() any { return new(mcp.CallToolParamsRaw) }, `{"name":"t","arguments":{"a":1},"inputResponses":{"a":{"action":"accept","content":{"x":1}},"b":{"roots":[{"uri":"file:///r"}]}},"requestState":"s","_meta":{"progressToken":"p"}}`},
	{"ListToolsResult", func() any { return new(mcp.ListToolsResult) }, `{"tools":[{"name":"t","inputSchema":{"type":"object","properties":{"a":{"type":"string"}}},"outputSchema":{"type":"object"},"annotations":{"readOnlyHint":true},"icons":[{"src":"https://x/i.png"}]}],"nextCursor":"c","ttlMs":5}`},
	{"ReadResourceResult", func() any { return new(mcp.ReadResourceResult) }, `{"contents":[{"uri":"file:///r","text":"t","mimeType":"text/plain","_meta":{"a":1}},{"uri":"file:///b","blob":"aGk="}]}`},
	{"GetPromptResult", func() any { return new(mcp.GetPromptResult) }, `{"description":"d","messages":[{"role":"user","content":{"type":"text","text":"x"}},{"role":"assistant","content":{"type":"audio","data":"aGk=","mimeType":"audio/wav"}}]}`},
	{"CreateMessageResult", func() any { return new(mcp.CreateMessageResult) }, `{"model":"m","role":"assistant","content":{"type":"text","text":"x"},"stopReason":"endTurn"}`},
	{"CreateMessageWithToolsResult", func() any { return new(mcp.CreateMessageWithToolsResult) }, `{"model":"m","role":"assistant","content":[{"type":"text","text":"x"},{"type":"tool_use","id":"1","name":"t","input":{"a":1}}],"stopReason":"toolUse"}`},
	{"CreateMessageWithToolsParams", func() any { return new(mcp.CreateMessageWithToolsParams) }, `{"messages":[{"role":"user","content":[{"type":"tool_result","toolUseId":"1","content":[{"type":"text","text":"r"}]}]}],"maxTokens":3,"tools":[{"name":"t","inputSchema":{"type":"object"}}],"toolChoice":{"mode":"auto"}}`},
	{"ElicitParams", func() any { return new(mcp.ElicitParams) }, `{"mode":"form","message":"m","requestedSchema":{"type":"object","properties":{"a":{"type":"string","enum":["x","y"]}}},"_meta":{"a":1}}`},
	{"ElicitResult", func() any { return new(mcp.ElicitResult) }, `{"action":"accept","content":{"a":"x"}}`},
	{"ListRootsResult", func() any { return new(mcp.ListRootsResult) }, `{"roots":[{"uri":"file:///r","name":"r"}]}`},
	{"CompleteResult", func() any { return new(mcp.CompleteResult) }, `{"completion":{"values":["a","b"],"total":2,"hasMore":false}}`},
	{"InitializeResult", func() any { return new(mcp.InitializeResult) }, `{"protocolVersion":"2025-06-18","capabilities":{"tools":{"listChanged":true},"resources":{"subscribe":true},"logging":{},"experimental":{"x":{}}},"serverInfo":{"name":"s","version":"1","icons":[{"src":"https://x/i.png","sizes":["1x1"]}]},"instructions":"i"}`},
	{"DiscoverResult", func() any { return new(mcp.DiscoverResult) }, `{"supportedVersions":["2026-07-28"],"capabilities":{"tools":{}},"instructions":"i","ttlMs":1}`},
	{"ListResourcesResult", func() any { return new(mcp.ListResourcesResult) }, `{"resources":[{"uri":"file:///r","name":"r","annotations":{"priority":0.5,"lastModified":"2025-01-01T00:00:00Z"}}],"nextCursor":""}`},
	{"SubscriptionsListenParams", func() any { return new(mcp.SubscriptionsListenParams) }, `{"notifications":{"toolsListChanged":true,"resourceSubscriptions":["file:///r"]},"_meta":{"a":1}}`},
	{"LoggingMessageParams", func() any { return new(mcp.LoggingMessageParams) }, `{"level":"info","logger":"l","data":{"a":[1,null]}}`},
	{"ProgressNotificationParams", func() any { return new(mcp.ProgressNotificationParams) }, `{"progressToken":"t","progress":1,"total":2,"message":"m"}`},
}

var c19HostileSubst = []string{`null`, `[]`, `{}`, `"str"`, `17`, `[null]`, `{"a":null}`, `true`, `[[]]`, `{"type":null}`, `{"method":null}`, `{"method":"roots/list","params":null}`, `{"type":"text"}`, `{"type":"nope"}`}

// c19Subst replaces the sub-value at position k (pre-order) of v by sub; it returns the new tree and the number of positions visited.
func c19Subst(v any, k *int, sub any) any {
	if *k == 0 {
		*k = -1
		return sub
	}
	*k--
	switch t := v.(type) {
	case map[string]any:
		keys := make([]string, 0, len(t))
		for key := range t {
			keys = append(keys, key)
		}
		sortStrings(keys)
		for _, key := range keys {
			if *k < 0 {
				break
			}
			t[key] = c19Subst(t[key], k, sub)
		}
	case []any:
		for i := range t {
			if *k < 0 {
				break
			}
			t[i] = c19Subst(t[i], k, sub)
		}
	}
	return v
}

func sortStrings(a []string) {
	for i := 1; i < len(a); i++ {
		for j := i; j > 0 && a[j] < a[j-1]; j-- {
			a[j], a[j-1] = a[j-1], a[j]
		}
	}
}

func c19CountNodes(v any) int {
	n := 1
	switch t := v.(type) {
	case map[string]any:
		for _, x := range t {
			n += c19CountNodes(x)
		}
	case []any:
		for _, x := range t {
			n += c19CountNodes(x)
		}
	}
	return n
}

func c19HostileValues(c *vh.Case) {
	// systematic: case j takes type j mod 18 and node (j / 18) mod nodes, and tries every substitution there
	// (plus, on top, one random second substitution elsewhere)
	r := c.R
	j := c.Index / 16
	b := c19HostileBases[j%len(c19HostileBases)]
	var probe any
	json.Unmarshal([]byte(b.base), &probe)
	nodes := c19CountNodes(probe)
	pos := 1 + (j/len(c19HostileBases))%(nodes-1)
	var last string
	for si, subText := range c19HostileSubst {
		var tree, sub any
		json.Unmarshal([]byte(b.base), &tree)
		json.Unmarshal([]byte(subText), &sub)
		k := pos
		tree = c19Subst(tree, &k, sub)
		if si%2 == 1 {
			var sub2 any
			json.Unmarshal([]byte(c19HostileSubst[r.Intn(len(c19HostileSubst))]), &sub2)
			k2 := 1 + r.Intn(max(1, c19CountNodes(tree)-1))
			tree = c19Subst(tree, &k2, sub2)
		}
		in, _ := json.Marshal(tree)
		last = string(in)
		c.SetSpec(map[string]any{"gen": "hostile-value", "type": b.name, "in": last})
		dst := b.mk()
		err := json.Unmarshal(in, dst) // a panic is caught by the runner and reported as an SDK panic
		if err == nil {
			// what was accepted can be encoded again without panicking either
			if _, merr := json.Marshal(dst); merr != nil {
				c.Count("hostile_values_not_reencodable", 1)
			}
		}
		c.Count("hostile_values_decoded", 1)
	}
	c.Nontrivial(fmt.Sprintf("hv:%s:%d:%s", b.name, pos, last))
}

// ---- case variants of member names inside protocol values ------------------------------------------------------

var c19FreeForm = map[string]bool{"_meta": true, "structuredContent": true, "arguments": true, "input": true, "inputSchema": true, "outputSchema": true,
	"requestedSchema": true, "data": true, "experimental": true}

// c19KeyPaths lists the paths of all object members whose names the protocol defines (nothing below free-form members).
func c19KeyPaths(v any, path []any, base string, out *[][]any) {
	switch t := v.(type) {
	case map[string]any:
		keys := make([]string, 0, len(t))
		for k := range t {
			keys = append(keys, k)
		}
		sortStrings(keys)
		for _, k := range keys {
			p := append(append([]any{}, path...), k)
			*out = append(*out, p)
			if c19FreeForm[k] || (base == "ElicitResult" && k == "content") || (k == "content" && len(path) > 0 && path[len(path)-1] == "a" && base == "CallToolParamsRaw") {
				continue
			}
			if len(path) >= 1 && (path[len(path)-1] == "inputRequests" || path[len(path)-1] == "inputResponses") {
				// the keys of these maps are request names chosen by the server, their values are protocol values
				*out = (*out)[:len(*out)-1]
			}
			c19KeyPaths(t[k], p, base, out)
		}
	case []any:
		for i, x := range t {
			c19KeyPaths(x, append(append([]any{}, path...), i), base, out)
		}
	}
}

// c19Rekey returns a copy of v in which the member at path is renamed by f ("" removes it).
func c19Rekey(v any, path []any, f func(string) string) any {
	if len(path) == 0 {
		return v
	}
	switch t := v.(type) {
	case map[string]any:
		out := map[string]any{}
		for k, x := range t {
			if k != path[0] {
				out[k] = x
				continue
			}
			if len(path) == 1 {
				if nk := f(k); nk != "" {
					out[nk] = x
				}
			} else {
				out[k] = c19Rekey(x, path[1:], f)
			}
		}
		return out
	case []any:
		out := make([]any, len(t))
		for i, x := range t {
			if i == path[0] {
				out[i] = c19Rekey(x, path[1:], f)
			} else {
				out[i] = x
			}
		}
		return out
	}
	return v
}

// c19CaseValues: a member whose name differs from the protocol's only in letter case is a different member.
// Decoding the document with the renamed member must not give what the original gives, unless the member does
// not matter at all (removing it gives the same).
func c19CaseValues(c *vh.Case) {
	r := c.R
	b := c19HostileBases[(c.Index/16)%len(c19HostileBases)]
	var tree any
	json.Unmarshal([]byte(b.base), &tree)
	var paths [][]any
	c19KeyPaths(tree, nil, b.name, &paths)
	if len(paths) == 0 {
		return
	}
	enc := func(doc any) (string, bool) {
		in, _ := json.Marshal(doc)
		dst := b.mk()
		if err := internaljson.Unmarshal(in, dst); err != nil { // the decoder the SDK itself uses for params and results
			return "error: " + err.Error(), false
		}
		out, err := json.Marshal(dst)
		if err != nil {
			return "unencodable", false
		}
		return string(out), true
	}
	orig, ok := enc(tree)
	if !ok {
		c.SetSpec(map[string]any{"gen": "case-value", "type": b.name, "in": b.base})
		c.Violate("valid-value-rejected", "a well-formed %s document (every member of the shape the protocol defines; optional params omitted where the method has none) is not decoded: %s\n%s", b.name, orig, b.base)
		return
	}
	checked := 0
	for k := 0; k < 6; k++ {
		p := paths[r.Intn(len(paths))]
		variant := []func(string) string{
			strings.ToUpper,
			func(s string) string { return strings.ToUpper(s[:1]) + s[1:] },
			func(s string) string { return s[:len(s)-1] + strings.ToUpper(s[len(s)-1:]) },
		}[r.Intn(3)]
		name := p[len(p)-1].(string)
		if variant(name) == name {
			continue
		}
		renamed, _ := enc(c19Rekey(tree, p, variant))
		removed, _ := enc(c19Rekey(tree, p, func(string) string { return "" }))
		checked++
		if renamed == orig && removed != orig {
			c.SetSpec(map[string]any{"gen": "case-value", "type": b.name, "path": fmt.Sprint(p), "variant": variant(name)})
			c.Violate("case-insensitive-decoding", "%s: the member at %v renamed to %q is still taken for %q (decoding gives the same value as the original document, and a different one when the member is removed)", b.name, p, variant(name), name)
			return
		}
	}
	c.Count("case_variants_checked", checked)
	c.SetSpec(map[string]any{"gen": "case-value", "type": b.name})
	c.Nontrivial(fmt.Sprintf("cv:%s:%d", b.name, c.Index))
}
