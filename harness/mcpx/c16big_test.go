//go:build verif

// C16, integers beyond 2^53: the statement puts no range on integer arguments ("it receives exactly those
// values", "structured content equal to the JSON of the handler's output"), int64 fields hold them exactly.
package mcpx

import (
	"context"
	"encoding/json"
	"fmt"
	"strings"
	"sync"
	"time"

	"github.com/modelcontextprotocol/go-sdk/internal/verifharness/vh"
	"github.com/modelcontextprotocol/go-sdk/internal/verifharness/vhm"
	"github.com/modelcontextprotocol/go-sdk/mcp"
)

type c16BigIn struct {
	N int64 `json:"n"`
}
type c16BigOut struct {
	ID int64 `json:"id"`
}

func runC16Big(c *vh.Case) {
	r := c.R
	ctx := context.Background()
	var mu sync.Mutex
	var seen []int64
	var ret int64
	server := mcp.NewServer(&mcp.Implementation{Name: "s", Version: "1"}, nil)
	mcp.AddTool(server, &mcp.Tool{Name: "big"}, func(ctx context.Context, req *mcp.CallToolRequest, a c16BigIn) (*mcp.CallToolResult, c16BigOut, error) {
		mu.Lock()
		seen = append(seen, a.N)
		mu.Unlock()
		return nil, c16BigOut{ID: ret}, nil
	})
	// what the server hands to its transport (the client side decodes numbers into float64, so it cannot be the witness)
	var wireSC []string
	server.AddReceivingMiddleware(func(next mcp.MethodHandler) mcp.MethodHandler {
		return func(ctx context.Context, method string, req mcp.Request) (mcp.Result, error) {
			res, err := next(ctx, method, req)
			if ctr, ok := res.(*mcp.CallToolResult); ok && ctr != nil {
				b, _ := json.Marshal(ctr.StructuredContent)
				mu.Lock()
				wireSC = append(wireSC, string(b))
				mu.Unlock()
			}
			return res, err
		}
	})
	client := mcp.NewClient(&mcp.Implementation{Name: "c", Version: "1"}, nil)
	pair, err := vhm.Connect(ctx, vhm.PairOpts{Kind: "mem", Server: server, Client: client, ClientVersion: "2025-06-18"})
	if err != nil {
		c.Inconclusive("connect: %v", err)
		return
	}
	defer func() { pair.CS.Close(); pair.SS.Wait(); time.Sleep(11 * time.Second) }()
	vals := []int64{1<<53 + 1, -(1<<53 + 1), 1<<62 + 1, 9223372036854775807, -9223372036854775808, 1<<53 - 1, int64(r.Intn(1000)), 1<<53 + int64(2*r.Intn(1000)) + 1}
	c.SetSpec(map[string]any{"mode": "integers-beyond-2^53", "values": fmt.Sprint(vals)})
	for _, v := range vals {
		mu.Lock()
		seen, wireSC = nil, nil
		mu.Unlock()
		ret = v
		res, err := pair.CS.CallTool(ctx, &mcp.CallToolParams{Name: "big", Arguments: json.RawMessage(fmt.Sprintf(`{"n":%d}`, v))})
		beyond := ""
		if v > 1<<53 || v < -(1<<53) {
			beyond = "/integer-beyond-2^53"
		}
		if err != nil || res.IsError {
			c.Violate("valid-input-rejected"+beyond, "tool big (int64 argument) called with n=%d: %v %s", v, err, vh.JSON(res))
			if beyond == "" {
				return
			}
			continue
		}
		mu.Lock()
		got, sc := append([]int64(nil), seen...), strings.Join(wireSC, ";")
		mu.Unlock()
		if len(got) != 1 || got[0] != v {
			c.Violate("handler-input-differs"+beyond, "tool big called with n=%d: the handler received %v", v, got)
			if beyond == "" {
				return
			}
		}
		if want := fmt.Sprintf(`{"id":%d}`, v); sc != want {
			c.Violate("structured-content-differs"+beyond, "tool big returned id=%d: the structured content handed to the transport is %s, the JSON of the output is %s", v, sc, want)
			if beyond == "" {
				return
			}
		}
	}
	c.Count("big_integer_calls", len(vals))
	c.Nontrivial("big:" + fmt.Sprint(vals))
}
