//go:build verif

package vhm

import (
	"bytes"
	"context"
	"errors"
	"fmt"
	"io"
	"net"
	"net/http"
	"runtime"
	"sync"
	"sync/atomic"
	"time"

	"github.com/modelcontextprotocol/go-sdk/internal/verifharness/vh"
)

// bufPipe is an in-memory byte stream with an unbounded buffer: Write never
// blocks (like a socket with room in its kernel buffer), Read blocks on a
// channel (durably, so it works inside synctest bubbles).
type bufPipe struct {
	mu     sync.Mutex
	buf    bytes.Buffer
	wake   chan struct{}
	werr   error // set by CloseWrite: returned by Read once drained
	rerr   error // set by CloseRead: returned by Write
	derr   error // set by Discard: returned by Read, while Write still succeeds
	closed chan struct{}
}

func newBufPipe() *bufPipe {
	return &bufPipe{wake: make(chan struct{}, 1), closed: make(chan struct{})}
}

func (p *bufPipe) Write(b []byte) (int, error) {
	p.mu.Lock()
	if p.derr != nil && p.rerr == nil {
		p.mu.Unlock()
		return len(b), nil // half-open: the reader is gone, the writer has not noticed yet
	}
	if p.rerr != nil {
		err := p.rerr
		p.mu.Unlock()
		return 0, err
	}
	if p.werr != nil {
		p.mu.Unlock()
		return 0, io.ErrClosedPipe
	}
	p.buf.Write(b)
	p.mu.Unlock()
	select {
	case p.wake <- struct{}{}:
	default:
	}
	return len(b), nil
}

func (p *bufPipe) Read(b []byte) (int, error) {
	for {
		p.mu.Lock()
		if p.derr != nil {
			err := p.derr
			p.mu.Unlock()
			return 0, err
		}
		if p.rerr != nil {
			err := p.rerr
			p.mu.Unlock()
			// a read aborted because the request's context ended reports that context's error, as net/http does
			if errors.Is(err, context.Canceled) || errors.Is(err, context.DeadlineExceeded) {
				return 0, err
			}
			return 0, io.ErrClosedPipe
		}
		if p.buf.Len() > 0 {
			n, _ := p.buf.Read(b)
			p.mu.Unlock()
			return n, nil
		}
		if p.werr != nil {
			err := p.werr
			p.mu.Unlock()
			return 0, err
		}
		p.mu.Unlock()
		select {
		case <-p.wake:
		case <-p.closed:
		}
	}
}

// CloseWrite ends the stream: readers drain the buffer and then get err (io.EOF if nil).
func (p *bufPipe) CloseWrite(err error) {
	if err == nil {
		err = io.EOF
	}
	p.mu.Lock()
	if p.werr == nil {
		p.werr = err
	}
	p.mu.Unlock()
	select {
	case p.wake <- struct{}{}:
	default:
	}
}

// Discard makes reads fail with err at once while writes keep succeeding (their data is dropped): the reading side
// has gone away and the writing side has not noticed yet.
func (p *bufPipe) Discard(err error) {
	p.mu.Lock()
	if p.derr == nil {
		p.derr = err
	}
	p.mu.Unlock()
	select {
	case p.wake <- struct{}{}:
	default:
	}
}

// CloseRead makes subsequent writes fail with err and unblocks readers.
func (p *bufPipe) CloseRead(err error) {
	if err == nil {
		err = io.ErrClosedPipe
	}
	p.mu.Lock()
	first := p.rerr == nil
	if first {
		p.rerr = err
	}
	p.mu.Unlock()
	if first {
		close(p.closed)
	}
}

// Exchange is the record of one HTTP request/response pair.
type Exchange struct {
	N       int64
	Method  string
	URL     string
	Header  http.Header
	ReqBody []byte
	Status  int
	RespHdr http.Header
}

// InProc is an http.RoundTripper that serves requests by calling Handler
// in-process. No sockets are involved, so it works in synctest bubbles.
type InProc struct {
	Handler http.Handler
	Log     *vh.Log
	// LocalAddr, if set, is exposed to the handler as http.LocalAddrContextKey.
	LocalAddr net.Addr
	// Before, if set, may short-circuit a request (scripted failures).
	Before func(req *http.Request, n int64) (*http.Response, error)
	// AsyncDelete makes DELETE behave as behind an intermediary that acknowledges
	// it at once (204) while the server processes it in the background. The SDK
	// client issues its session DELETE while holding its connection mutex; a
	// server that needs virtual time to finish closing would otherwise leave
	// other client goroutines blocked on that mutex (not a durable block), which
	// stops the bubble's clock for good.
	AsyncDelete bool
	// BodyLatency, if set, returns how long the response body of this request is in transit: the headers arrive
	// at once, the first body bytes only that much (virtual) time later — a slow network seen from the client.
	// A request context that ends meanwhile aborts the read with that context's error, as net/http does.
	BodyLatency func(req *http.Request, reqBody []byte) time.Duration
	// Linger, if set, returns for how long the server keeps regarding this exchange as attached after the client
	// has abandoned it (cancelled the request or closed the body): a half-open connection. Until then the
	// handler's request context stays alive and its writes succeed, into the void.
	Linger func(req *http.Request) time.Duration
	// WrapBody, if set, wraps the response body handed to the client (cut injection).
	WrapBody func(req *http.Request, n int64, resp *http.Response, body io.ReadCloser) io.ReadCloser

	n  atomic.Int64
	wg sync.WaitGroup
}

type pipeRW struct {
	hdr    http.Header
	pipe   *bufPipe
	once   sync.Once
	ready  chan struct{}
	status int
	sent   http.Header
	cancel context.CancelFunc
}

func (w *pipeRW) Header() http.Header { return w.hdr }
func (w *pipeRW) WriteHeader(code int) {
	w.once.Do(func() {
		w.status = code
		w.sent = w.hdr.Clone()
		close(w.ready)
	})
}

// Write forwards b in pieces of at most 4 KiB (net/http's response buffer) and yields in between: like a
// real http.ResponseWriter it does not make one Write atomic with respect to other goroutines writing to
// the same response. Whoever shares a response between goroutines has to serialise the writes itself.
func (w *pipeRW) Write(b []byte) (int, error) {
	w.WriteHeader(http.StatusOK)
	total := 0
	for {
		k := min(4096, len(b))
		n, err := w.pipe.Write(b[:k])
		total += n
		if err != nil {
			return total, err
		}
		b = b[k:]
		if len(b) == 0 {
			return total, nil
		}
		runtime.Gosched()
	}
}
func (w *pipeRW) Flush() { w.WriteHeader(http.StatusOK) }

type respBody struct {
	pipe    *bufPipe
	cancel  context.CancelFunc
	once    sync.Once
	latency time.Duration
	waited  atomic.Bool
	linger  time.Duration
}

func (b *respBody) Read(p []byte) (int, error) {
	if b.latency > 0 && b.waited.CompareAndSwap(false, true) {
		t := time.NewTimer(b.latency)
		select {
		case <-t.C:
		case <-b.pipe.closed:
			t.Stop()
		}
	}
	return b.pipe.Read(p)
}
func (b *respBody) Close() error { return b.abort(errors.New("inproc: client closed response body")) }
func (b *respBody) abort(err error) error {
	b.once.Do(func() {
		if b.linger > 0 {
			b.pipe.Discard(err)
			time.AfterFunc(b.linger, func() {
				b.pipe.CloseRead(err)
				b.cancel()
			})
			return
		}
		b.pipe.CloseRead(err)
		b.cancel() // the server sees the client going away
	})
	return nil
}

func (t *InProc) RoundTrip(req *http.Request) (*http.Response, error) {
	n := t.n.Add(1)
	if err := req.Context().Err(); err != nil {
		return nil, err // net/http does not send a request whose context is already done
	}
	// net/http's transport refuses to send header fields that are not valid on the wire
	for k, vs := range req.Header {
		for _, v := range vs {
			for i := 0; i < len(v); i++ {
				if b := v[i]; (b < 0x20 && b != '\t') || b == 0x7f {
					return nil, fmt.Errorf("net/http: invalid header field value for %q", k)
				}
			}
		}
	}
	if t.Before != nil {
		if resp, err := t.Before(req, n); resp != nil || err != nil {
			if resp != nil && resp.Request == nil {
				resp.Request = req
			}
			return resp, err
		}
	}
	var body []byte
	if req.Body != nil {
		var err error
		body, err = io.ReadAll(req.Body)
		req.Body.Close()
		if err != nil {
			return nil, err
		}
	}
	var linger time.Duration
	if t.Linger != nil {
		linger = t.Linger(req)
	}
	base := req.Context()
	if linger > 0 {
		base = context.WithoutCancel(base) // the server learns of the client's departure only after the linger
	}
	ctx, cancel := context.WithCancel(base)
	if t.LocalAddr != nil {
		ctx = context.WithValue(ctx, http.LocalAddrContextKey, t.LocalAddr)
	}
	sreq := req.Clone(ctx)
	sreq.Body = io.NopCloser(bytes.NewReader(body))
	sreq.ContentLength = int64(len(body))
	if len(req.TransferEncoding) > 0 {
		sreq.ContentLength = -1 // chunked: the length is not known in advance
	}
	sreq.RequestURI = req.URL.RequestURI()
	if sreq.Host == "" {
		sreq.Host = req.URL.Host
	}
	sreq.RemoteAddr = "127.0.0.1:1"
	w := &pipeRW{hdr: http.Header{}, pipe: newBufPipe(), ready: make(chan struct{}), cancel: cancel}
	if t.AsyncDelete && req.Method == http.MethodDelete {
		sreq = sreq.WithContext(context.WithoutCancel(ctx))
		t.wg.Add(1)
		go func() {
			defer t.wg.Done()
			defer cancel()
			t.Handler.ServeHTTP(w, sreq)
			w.WriteHeader(http.StatusOK)
			w.pipe.CloseWrite(nil)
		}()
		if t.Log != nil {
			t.Log.Add("http", "n", n, "method", req.Method, "status", 204, "sid", req.Header.Get("Mcp-Session-Id"), "async", true)
		}
		return &http.Response{Status: "204 No Content", StatusCode: 204, Proto: "HTTP/1.1", ProtoMajor: 1, ProtoMinor: 1,
			Header: http.Header{}, Body: http.NoBody, Request: req}, nil
	}
	t.wg.Add(1)
	go func() {
		defer t.wg.Done()
		defer cancel()
		defer func() {
			if r := recover(); r != nil && r != http.ErrAbortHandler {
				panic(r)
			}
		}()
		t.Handler.ServeHTTP(w, sreq)
		w.WriteHeader(http.StatusOK)
		w.pipe.CloseWrite(nil)
	}()
	select {
	case <-w.ready:
	case <-req.Context().Done():
		cancel()
		w.pipe.CloseRead(req.Context().Err())
		return nil, req.Context().Err()
	}
	rbody := &respBody{pipe: w.pipe, cancel: cancel}
	if t.BodyLatency != nil {
		rbody.latency = t.BodyLatency(req, body)
	}
	rbody.linger = linger
	var rb io.ReadCloser = rbody
	resp := &http.Response{
		Status: fmt.Sprintf("%d %s", w.status, http.StatusText(w.status)), StatusCode: w.status,
		Proto: "HTTP/1.1", ProtoMajor: 1, ProtoMinor: 1,
		Header: w.sent, Body: rb, ContentLength: -1, Request: req,
	}
	// cancelling the client's request context tears the exchange down, as net/http does
	// (a body read that this aborts reports the context's error)
	stop := context.AfterFunc(req.Context(), func() { rbody.abort(req.Context().Err()) })
	_ = stop
	if t.WrapBody != nil {
		resp.Body = t.WrapBody(req, n, resp, rb)
	}
	if t.Log != nil {
		t.Log.Add("http", "n", n, "method", req.Method, "status", w.status, "sid", req.Header.Get("Mcp-Session-Id"), "leid", req.Header.Get("Last-Event-ID"))
	}
	return resp, nil
}

// Client returns an *http.Client using this round tripper.
func (t *InProc) Client() *http.Client { return &http.Client{Transport: t} }

// Do performs one raw request and returns status, headers and the full body.
func (t *InProc) Do(ctx context.Context, method, url string, hdr map[string]string, body []byte) (int, http.Header, []byte, error) {
	req, err := http.NewRequestWithContext(ctx, method, url, bytes.NewReader(body))
	if err != nil {
		return 0, nil, nil, err
	}
	for k, v := range hdr {
		if k == "Host" {
			req.Host = v
			continue
		}
		if k == "Transfer-Encoding" {
			req.TransferEncoding = []string{v}
			req.ContentLength = -1
			continue
		}
		req.Header.Set(k, v)
	}
	resp, err := t.RoundTrip(req)
	if err != nil {
		return 0, nil, nil, err
	}
	defer resp.Body.Close()
	b, err := io.ReadAll(resp.Body)
	return resp.StatusCode, resp.Header, b, err
}

// Wait blocks until every handler goroutine started by this transport has returned.
func (t *InProc) Wait() { t.wg.Wait() }
