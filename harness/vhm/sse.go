//go:build verif

package vhm

import (
	"bufio"
	"bytes"
	"io"
	"strings"
)

// SSEvent is one server-sent event as seen by an independent, strict parser:
// an event exists only once its terminating blank line has been received.
type SSEvent struct {
	Name  string `json:"name,omitempty"`
	ID    string `json:"id,omitempty"`
	Data  string `json:"data,omitempty"`
	Retry string `json:"retry,omitempty"`
}

// ReadSSE parses r until EOF/error, calling fn for every *complete* event.
// It returns the read error (nil on clean EOF).
func ReadSSE(r io.Reader, fn func(SSEvent)) error {
	br := bufio.NewReaderSize(r, 1<<16)
	var cur SSEvent
	var data []string
	have := false
	for {
		line, err := br.ReadString('\n')
		if err != nil {
			// an unterminated line / event is incomplete by definition: dropped
			if err == io.EOF {
				return nil
			}
			return err
		}
		line = strings.TrimRight(line, "\r\n")
		if line == "" {
			if have {
				cur.Data = strings.Join(data, "\n")
				fn(cur)
			}
			cur, data, have = SSEvent{}, nil, false
			continue
		}
		if strings.HasPrefix(line, ":") {
			continue
		}
		k, v, _ := strings.Cut(line, ":")
		v = strings.TrimPrefix(v, " ")
		switch k {
		case "event":
			cur.Name, have = v, true
		case "id":
			cur.ID, have = v, true
		case "data":
			data, have = append(data, v), true
		case "retry":
			cur.Retry, have = v, true
		}
	}
}

// ParseSSEBytes parses a complete byte slice.
func ParseSSEBytes(b []byte) []SSEvent {
	var out []SSEvent
	ReadSSE(bytes.NewReader(b), func(e SSEvent) { out = append(out, e) })
	return out
}

// FormatSSE renders an event in wire form.
func FormatSSE(e SSEvent) string {
	var sb strings.Builder
	if e.Name != "" {
		sb.WriteString("event: " + e.Name + "\n")
	}
	if e.ID != "" {
		sb.WriteString("id: " + e.ID + "\n")
	}
	if e.Retry != "" {
		sb.WriteString("retry: " + e.Retry + "\n")
	}
	for _, ln := range strings.Split(e.Data, "\n") {
		sb.WriteString("data: " + ln + "\n")
	}
	sb.WriteString("\n")
	return sb.String()
}
