//go:build verif

// Package vhm holds the MCP-specific monitors and fault injectors: a scripted
// mcp.Connection (hostile peer at the connection boundary), a fault-injecting
// wrapper around a real Connection, an in-process HTTP round tripper that works
// inside synctest bubbles, raw wire helpers and recording wrappers.
package vhm

import (
	"context"
	"encoding/json"
	"errors"
	"fmt"
	"io"
	"sync"

	"github.com/modelcontextprotocol/go-sdk/internal/verifharness/vh"
	"github.com/modelcontextprotocol/go-sdk/jsonrpc"
	"github.com/modelcontextprotocol/go-sdk/mcp"
)

// IDString renders a JSON-RPC id with its JSON type ("i:7", "s:abc", "none").
func IDString(id jsonrpc.ID) string {
	switch v := id.Raw().(type) {
	case nil:
		return "none"
	case int64:
		return fmt.Sprintf("i:%d", v)
	case string:
		return "s:" + v
	default:
		return fmt.Sprintf("?:%v", v)
	}
}

type inItem struct {
	msg jsonrpc.Message
	err error
	ack chan struct{} // closed when Read has returned this item
}

// ScriptConn is an mcp.Transport/mcp.Connection whose peer is the harness.
// Everything the SDK session reads and writes passes through it, so it is the
// session's own Reader/Writer/Closer boundary: events recorded here are the
// ground truth for the ordering oracles.
type ScriptConn struct {
	Log *vh.Log
	// OnWrite decides the fate of every message the session writes. It runs on
	// the writer's goroutine and may block (a parked writer). A nil OnWrite
	// accepts everything.
	OnWrite func(ctx context.Context, msg jsonrpc.Message) error
	// OnClose is called once when the session closes the connection.
	OnClose func()
	SID     string
	// CloseErr, if non-nil, is what Close reports although the connection does get closed
	// (a child process exiting non-zero, a failed DELETE).
	CloseErr error

	mu      sync.Mutex
	queue   []inItem
	wake    chan struct{}
	closed  chan struct{}
	once    sync.Once
	rclosed bool
}

func NewScriptConn(log *vh.Log) *ScriptConn {
	return &ScriptConn{Log: log, wake: make(chan struct{}, 1), closed: make(chan struct{})}
}

func (s *ScriptConn) Connect(context.Context) (mcp.Connection, error) { return s, nil }
func (s *ScriptConn) SessionID() string                               { return s.SID }

func (s *ScriptConn) push(it inItem) {
	s.mu.Lock()
	s.queue = append(s.queue, it)
	s.mu.Unlock()
	select {
	case s.wake <- struct{}{}:
	default:
	}
}

// Inject makes msg the next message returned by Read (FIFO).
func (s *ScriptConn) Inject(msg jsonrpc.Message) { s.push(inItem{msg: msg}) }

// InjectWait injects msg and returns once the session's Read has returned it.
func (s *ScriptConn) InjectWait(msg jsonrpc.Message) {
	ack := make(chan struct{})
	s.push(inItem{msg: msg, ack: ack})
	select {
	case <-ack:
	case <-s.closed:
	}
}

// FailRead makes Read return err after everything already injected.
func (s *ScriptConn) FailRead(err error) { s.push(inItem{err: err}) }

// IsClosed reports whether the session has closed the connection.
func (s *ScriptConn) IsClosed() bool {
	select {
	case <-s.closed:
		return true
	default:
		return false
	}
}

func describe(msg jsonrpc.Message) (kind, id, method string) {
	switch m := msg.(type) {
	case *jsonrpc.Request:
		if m.IsCall() {
			return "call", IDString(m.ID), m.Method
		}
		return "notif", "none", m.Method
	case *jsonrpc.Response:
		if m.Error != nil {
			return "resp-err", IDString(m.ID), ""
		}
		return "resp", IDString(m.ID), ""
	}
	return "?", "", ""
}

func (s *ScriptConn) Read(ctx context.Context) (jsonrpc.Message, error) {
	for {
		s.mu.Lock()
		if len(s.queue) > 0 {
			it := s.queue[0]
			s.queue = s.queue[1:]
			more := len(s.queue) > 0
			s.mu.Unlock()
			if more {
				select {
				case s.wake <- struct{}{}:
				default:
				}
			}
			if it.err != nil {
				s.Log.Add("read-error", "err", it.err.Error())
				if it.ack != nil {
					close(it.ack)
				}
				return nil, it.err
			}
			k, id, m := describe(it.msg)
			s.Log.Add("read-returned", "kind", k, "id", id, "method", m)
			if it.ack != nil {
				close(it.ack)
			}
			return it.msg, nil
		}
		s.mu.Unlock()
		select {
		case <-s.wake:
		case <-s.closed:
			s.Log.Add("read-eof-after-close")
			return nil, io.EOF
		case <-ctx.Done():
			return nil, ctx.Err()
		}
	}
}

func (s *ScriptConn) Write(ctx context.Context, msg jsonrpc.Message) error {
	k, id, m := describe(msg)
	s.Log.Add("write-start", "kind", k, "id", id, "method", m)
	select {
	case <-s.closed:
		s.Log.Add("write-returned", "kind", k, "id", id, "method", m, "err", "closed")
		return errors.New("scriptconn: write on closed connection")
	default:
	}
	var err error
	if s.OnWrite != nil {
		err = s.OnWrite(ctx, msg)
	}
	es := ""
	if err != nil {
		es = err.Error()
	}
	s.Log.Add("write-returned", "kind", k, "id", id, "method", m, "err", es)
	return err
}

func (s *ScriptConn) Close() error {
	s.once.Do(func() {
		s.Log.Add("transport-close")
		close(s.closed)
		if s.OnClose != nil {
			s.OnClose()
		}
	})
	return s.CloseErr
}

// Closed is closed when the session has closed the connection.
func (s *ScriptConn) Closed() <-chan struct{} { return s.closed }

// ---------------------------------------------------------------- messages

// MustID builds an id from an int64 or string.
func MustID(v any) jsonrpc.ID {
	switch x := v.(type) {
	case int:
		v = float64(x)
	case int64:
		v = float64(x)
	}
	id, err := jsonrpc.MakeID(v)
	if err != nil {
		panic(err)
	}
	return id
}

// Req builds a request (call when id != nil, notification otherwise).
func Req(id any, method string, params any) *jsonrpc.Request {
	r := &jsonrpc.Request{Method: method}
	if id != nil {
		r.ID = MustID(id)
	}
	if params != nil {
		switch p := params.(type) {
		case json.RawMessage:
			r.Params = p
		case string:
			r.Params = json.RawMessage(p)
		default:
			b, err := json.Marshal(params)
			if err != nil {
				panic(err)
			}
			r.Params = b
		}
	}
	return r
}

// Resp builds a success response.
func Resp(id jsonrpc.ID, result any) *jsonrpc.Response {
	var raw json.RawMessage
	switch p := result.(type) {
	case json.RawMessage:
		raw = p
	case string:
		raw = json.RawMessage(p)
	default:
		b, err := json.Marshal(result)
		if err != nil {
			panic(err)
		}
		raw = b
	}
	return &jsonrpc.Response{ID: id, Result: raw}
}

// ErrResp builds an error response.
func ErrResp(id jsonrpc.ID, code int64, msg string, data string) *jsonrpc.Response {
	e := &jsonrpc.Error{Code: code, Message: msg}
	if data != "" {
		e.Data = json.RawMessage(data)
	}
	return &jsonrpc.Response{ID: id, Error: e}
}

// InitializeResultJSON is a minimal initialize result for the given version.
func InitializeResultJSON(version string) string {
	return fmt.Sprintf(`{"protocolVersion":%q,"capabilities":{"tools":{"listChanged":true},"logging":{}},"serverInfo":{"name":"scripted","version":"0"}}`, version)
}
