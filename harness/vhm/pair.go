//go:build verif

package vhm

import (
	"context"
	"fmt"
	"github.com/modelcontextprotocol/go-sdk/auth"
	"io"
	"net/http"
	"runtime"
	"sync"
	"time"

	"github.com/modelcontextprotocol/go-sdk/internal/verifharness/vh"
	"github.com/modelcontextprotocol/go-sdk/jsonrpc"
	"github.com/modelcontextprotocol/go-sdk/mcp"
)

// Kinds of transport a Pair can be built on.
var PairKinds = []string{"mem", "pipe", "sse", "http", "http-json"}

// PairOpts configures Connect.
type PairOpts struct {
	Kind          string // mem | pipe | sse | http | http-json | http-stateless
	Server        *mcp.Server
	Client        *mcp.Client
	ClientVersion string // protocol version requested by the client ("" = default)
	Log           *vh.Log
	// WrapClient / WrapServer interpose on the session's own Connection
	// (server side only for mem/pipe, where the harness owns the transport).
	WrapClient           func(mcp.Connection) mcp.Connection
	WrapServer           func(mcp.Connection) mcp.Connection
	HTTPOpts             *mcp.StreamableHTTPOptions
	MaxRetries           int
	DisableStandaloneSSE bool
	AsyncDelete          bool
	BodyLatency          func(req *http.Request, reqBody []byte) time.Duration    // see InProc.BodyLatency
	Before               func(req *http.Request, n int64) (*http.Response, error) // see InProc.Before (installed before the first request)
	OAuth                auth.OAuthHandler                                        // streamable client: OAuthHandler (the server need not require authorization)
}

// Pair is a connected client/server session pair.
type Pair struct {
	// Release frees resources that the SDK cannot (the goroutine parked in a
	// stream Read that ignores Close); call it when the scenario is over.
	Release func()
	CS      *mcp.ClientSession
	SS      *mcp.ServerSession // nil for stateless HTTP
	InProc  *InProc
	H       http.Handler
}

type stubbornReader struct{ r *bufPipe }

func (s stubbornReader) Read(p []byte) (int, error) { return s.r.Read(p) }

type bufPipeWriter struct{ p *bufPipe }

func (w bufPipeWriter) Write(b []byte) (int, error) { return w.p.Write(b) }
func (w bufPipeWriter) Close() error                { w.p.CloseWrite(nil); return nil }
func (s stubbornReader) Close() error               { return nil } // like os.Stdin: Close does not interrupt Read

type failCloseWriter struct{ w *io.PipeWriter }

func (f failCloseWriter) Write(p []byte) (int, error) { return f.w.Write(p) }
func (f failCloseWriter) Close() error {
	f.w.Close()
	return fmt.Errorf("verif: close of the output stream reported an error")
}

type wrapTransport struct {
	t    mcp.Transport
	wrap func(mcp.Connection) mcp.Connection
}

func (w wrapTransport) Connect(ctx context.Context) (mcp.Connection, error) {
	c, err := w.t.Connect(ctx)
	if err != nil {
		return nil, err
	}
	return w.wrap(c), nil
}

func maybeWrap(t mcp.Transport, wrap func(mcp.Connection) mcp.Connection) mcp.Transport {
	if wrap == nil {
		return t
	}
	return wrapTransport{t, wrap}
}

// Connect builds the pair. It must be called inside a bubble.
func Connect(ctx context.Context, o PairOpts) (*Pair, error) {
	p := &Pair{}
	var copts *mcp.ClientSessionOptions
	if o.ClientVersion != "" {
		copts = &mcp.ClientSessionOptions{ProtocolVersion: o.ClientVersion}
	}
	switch o.Kind {
	case "mem", "pipe", "pipe-stubborn", "pipe-chunked":
		var st, ct mcp.Transport
		if o.Kind == "mem" {
			st, ct = mcp.NewInMemoryTransports()
		} else if o.Kind == "pipe-stubborn" {
			// The server talks over streams that behave like a process's stdin/stdout:
			// closing the reader does not unblock a pending Read, and closing the writer
			// reports an error. The Connection built on them must still honour Close.
			cr, sw := io.Pipe()
			in := newBufPipe() // buffered like an OS pipe: the peer's writes do not depend on this reader
			st = &mcp.IOTransport{Reader: stubbornReader{in}, Writer: failCloseWriter{sw}}
			ct = &mcp.IOTransport{Reader: cr, Writer: bufPipeWriter{in}}
			p.Release = func() { in.CloseRead(nil) }
		} else if o.Kind == "pipe-chunked" {
			// Both writers forward every Write as several small writes (as a framing or buffering adapter
			// would): whole messages stay intact only if the SDK itself serialises its writes.
			cr, sw := io.Pipe()
			sr, cw := io.Pipe()
			st = &mcp.IOTransport{Reader: sr, Writer: &ChunkWriter{W: sw, N: 11}}
			ct = &mcp.IOTransport{Reader: cr, Writer: &ChunkWriter{W: cw, N: 7}}
		} else {
			cr, sw := io.Pipe()
			sr, cw := io.Pipe()
			st = &mcp.IOTransport{Reader: sr, Writer: sw}
			ct = &mcp.IOTransport{Reader: cr, Writer: cw}
		}
		ss, err := o.Server.Connect(ctx, maybeWrap(st, o.WrapServer), nil)
		if err != nil {
			return nil, err
		}
		p.SS = ss
		cs, err := o.Client.Connect(ctx, maybeWrap(ct, o.WrapClient), copts)
		if err != nil {
			ss.Close()
			return nil, err
		}
		p.CS = cs
	case "sse":
		h := mcp.NewSSEHandler(func(*http.Request) *mcp.Server { return o.Server }, nil)
		p.H = h
		p.InProc = &InProc{Handler: h, Log: o.Log}
		ct := &mcp.SSEClientTransport{Endpoint: "http://example.test/sse", HTTPClient: p.InProc.Client()}
		cs, err := o.Client.Connect(ctx, maybeWrap(ct, o.WrapClient), copts)
		if err != nil {
			return nil, err
		}
		p.CS = cs
		for ss := range o.Server.Sessions() {
			p.SS = ss
		}
	case "http", "http-json", "http-stateless":
		ho := mcp.StreamableHTTPOptions{}
		if o.HTTPOpts != nil {
			ho = *o.HTTPOpts
		}
		if o.Kind == "http-json" {
			ho.JSONResponse = true
		}
		if o.Kind == "http-stateless" {
			ho.Stateless = true
		}
		h := mcp.NewStreamableHTTPHandler(func(*http.Request) *mcp.Server { return o.Server }, &ho)
		p.H = h
		p.InProc = &InProc{Handler: h, Log: o.Log, AsyncDelete: o.AsyncDelete, BodyLatency: o.BodyLatency, Before: o.Before}
		ct := &mcp.StreamableClientTransport{Endpoint: "http://example.test/mcp", HTTPClient: p.InProc.Client(), MaxRetries: o.MaxRetries, DisableStandaloneSSE: o.DisableStandaloneSSE, OAuthHandler: o.OAuth}
		cs, err := o.Client.Connect(ctx, maybeWrap(ct, o.WrapClient), copts)
		if err != nil {
			return nil, err
		}
		p.CS = cs
		for ss := range o.Server.Sessions() {
			p.SS = ss
		}
	default:
		return nil, fmt.Errorf("unknown pair kind %q", o.Kind)
	}
	return p, nil
}

// ---------------------------------------------------------- fault injection

// FaultConn wraps a real mcp.Connection: it records every Read/Write/Close at
// the session's own boundary and lets the scenario inject read errors, write
// failures (broken or rejected) and stalls.
type FaultConn struct {
	mcp.Connection
	Log  *vh.Log
	Side string
	// BeforeWrite may return an error to inject (the message is then not
	// forwarded), or block to stall the writer.
	BeforeWrite func(ctx context.Context, msg jsonrpc.Message, n int) error
	// AfterRead may replace the result of a Read.
	AfterRead func(msg jsonrpc.Message, err error) (jsonrpc.Message, error)

	mu     sync.Mutex
	writes int
	once   sync.Once
	kill   chan struct{}
	killE  error
	// rsem admits one goroutine at a time to the inner connection's Read (a Connection is read by one reader): the
	// goroutine that keeps draining after KillRead and the goroutine of a Read that started just before the kill
	// must not be inside it together. A channel, not a mutex: waiting for it is durable blocking under synctest.
	rsem chan struct{}
}

func NewFaultConn(c mcp.Connection, log *vh.Log, side string) *FaultConn {
	return &FaultConn{Connection: c, Log: log, Side: side, kill: make(chan struct{}), rsem: make(chan struct{}, 1)}
}

// KillRead makes the pending and all future Reads fail with err.
func (f *FaultConn) KillRead(err error) {
	f.once.Do(func() { f.killE = err; close(f.kill) })
}

func (f *FaultConn) Read(ctx context.Context) (jsonrpc.Message, error) {
	type res struct {
		m jsonrpc.Message
		e error
	}
	select {
	case <-f.kill:
		f.Log.Add("read-error", "side", f.Side, "err", f.killE.Error())
		return nil, f.killE
	default:
	}
	ch := make(chan res, 1)
	innerRead := func() (jsonrpc.Message, error) {
		f.rsem <- struct{}{}
		defer func() { <-f.rsem }()
		return f.Connection.Read(ctx)
	}
	go func() {
		m, e := innerRead()
		ch <- res{m, e}
		// Once the read side has been killed nobody consumes the inner connection any
		// more; keep draining it (into the void) so that a live peer writing to an
		// unbuffered pipe is not stalled by the injected fault itself.
		select {
		case <-f.kill:
			for e == nil {
				_, e = innerRead()
			}
		default:
		}
	}()
	select {
	case r := <-ch:
		if f.AfterRead != nil {
			r.m, r.e = f.AfterRead(r.m, r.e)
		}
		if r.e != nil {
			f.Log.Add("read-error", "side", f.Side, "err", r.e.Error())
			return nil, r.e
		}
		k, id, m := describe(r.m)
		f.Log.Add("read-returned", "side", f.Side, "kind", k, "id", id, "method", m)
		return r.m, nil
	case <-f.kill:
		f.Log.Add("read-error", "side", f.Side, "err", f.killE.Error())
		// the orphaned inner Read ends when the inner connection is closed
		return nil, f.killE
	}
}

func (f *FaultConn) Write(ctx context.Context, msg jsonrpc.Message) error {
	f.mu.Lock()
	f.writes++
	n := f.writes
	f.mu.Unlock()
	k, id, m := describe(msg)
	f.Log.Add("write-start", "side", f.Side, "kind", k, "id", id, "method", m, "n", n)
	var err error
	if f.BeforeWrite != nil {
		err = f.BeforeWrite(ctx, msg, n)
	}
	if err == nil {
		err = f.Connection.Write(ctx, msg)
	}
	es := ""
	if err != nil {
		es = err.Error()
	}
	f.Log.Add("write-returned", "side", f.Side, "kind", k, "id", id, "method", m, "n", n, "err", es)
	return err
}

func (f *FaultConn) Close() error {
	f.Log.Add("transport-close", "side", f.Side)
	f.KillRead(io.EOF)
	return f.Connection.Close()
}

// ChunkWriter forwards each Write as several smaller writes and yields in between. It keeps no
// state, so it is safe for concurrent use, but it does not make concurrent Writes atomic.
type ChunkWriter struct {
	W io.WriteCloser
	N int
}

func (cw *ChunkWriter) Write(p []byte) (int, error) {
	total := 0
	for len(p) > 0 {
		k := min(cw.N, len(p))
		n, err := cw.W.Write(p[:k])
		total += n
		if err != nil {
			return total, err
		}
		p = p[k:]
		runtime.Gosched()
	}
	return total, nil
}

func (cw *ChunkWriter) Close() error { return cw.W.Close() }
