#!/bin/bash
# usage: mkmutant.sh <name> <file-relative-to-repo> <old> <new>   -> mutants/<name>.patch (unified diff, -p1)
set -e
name=$1; file=$2; old=$3; new=$4
t=$(mktemp -d); mkdir -p $t/a/$(dirname $file) $t/b/$(dirname $file)
cp /repo/$file $t/a/$file; cp /repo/$file $t/b/$file
python3 - "$old" "$new" $t/b/$file <<'PY'
import sys
old,new,path=sys.argv[1],sys.argv[2],sys.argv[3]
s=open(path).read()
if s.count(old)<1: sys.exit("pattern not found: "+old)
open(path,'w').write(s.replace(old,new,1))
PY
(cd $t && diff -u a/$file b/$file > /verif/mutants/$name.patch || true)
rm -rf $t; echo "$name: $(wc -l < /verif/mutants/$name.patch) lines"
